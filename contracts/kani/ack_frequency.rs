// @target quinn-proto quinn-proto/src/connection/ack_frequency.rs
// C03: values a peer controls through transport parameters and ACK_FREQUENCY frames never make the ACK-frequency state panic.
use super::*;
use crate::verif_vk as vk;

/// what `TransportParameters::read` guarantees about a peer's values: max_ack_delay < 2^14 ms, min_ack_delay <= max_ack_delay (in us)
fn any_peer_params() -> TransportParameters {
    let mut p = TransportParameters::default();
    let mad: u64 = vk::any();
    vk::assume(mad < (1 << 14));
    p.max_ack_delay = VarInt::from_u64(mad).unwrap();
    if vk::any() {
        let m: u64 = vk::any();
        vk::assume(m <= mad * 1000);
        p.min_ack_delay = Some(VarInt::from_u64(m).unwrap());
    }
    p
}

// @harness candidate_max_ack_delay_total props=C03 tier=quick kind=proof fn="AckFrequencyState::candidate_max_ack_delay" desc="for every RTT, every local configuration and every peer transport parameters satisfying TransportParameters::read's postcondition: no panic, and the requested max_ack_delay is never below the peer's min_ack_delay (the peer can honour it)"
#[cfg_attr(kani, kani::proof)]
#[cfg_attr(verif_replay, test)]
fn candidate_max_ack_delay_total() {
    let st = AckFrequencyState::new(Duration::from_millis(vk::any::<u16>() as u64));
    let rtt = Duration::from_micros(vk::any::<u32>() as u64);
    let mut cfg = AckFrequencyConfig::default();
    if vk::any() {
        cfg.max_ack_delay = Some(Duration::from_micros(vk::any::<u32>() as u64));
    }
    let p = any_peer_params();
    let min = Duration::from_micros(p.min_ack_delay.map_or(0, |x| x.into_inner()));
    vk::vk_cover!(min > rtt);
    let d = st.candidate_max_ack_delay(rtt, &cfg, &p);
    assert!(d >= min, "requested max_ack_delay below the peer's min_ack_delay");
}

// @harness ack_frequency_on_acked props=C03 tier=quick kind=proof fn="AckFrequencyState::{ack_frequency_sent,on_acked,max_ack_delay_for_pto,next_sequence_number}" desc="acknowledgement bookkeeping: only the acknowledgement of the in-flight ACK_FREQUENCY packet adopts the requested delay; the PTO delay is the max of current and in-flight; sequence numbers increase; no panic below VarInt::MAX"
#[cfg_attr(kani, kani::proof)]
#[cfg_attr(verif_replay, test)]
fn ack_frequency_on_acked() {
    let mut st = AckFrequencyState::new(Duration::from_millis(vk::any::<u16>() as u64));
    let s0: u64 = vk::any();
    vk::assume(s0 < VarInt::MAX.into_inner());
    st.next_outgoing_sequence_number = VarInt::from_u64(s0).unwrap();
    let seq = st.next_sequence_number();
    assert!(seq.into_inner() == s0 && st.next_outgoing_sequence_number.into_inner() == s0 + 1);
    let pn: u64 = vk::any();
    let req = Duration::from_micros(vk::any::<u32>() as u64);
    let before = st.peer_max_ack_delay;
    st.ack_frequency_sent(pn, req);
    assert!(st.max_ack_delay_for_pto() == before.max(req));
    let acked: u64 = vk::any();
    st.on_acked(acked);
    if acked == pn {
        assert!(st.peer_max_ack_delay == req && st.max_ack_delay_for_pto() == req);
    } else {
        assert!(st.peer_max_ack_delay == before && st.max_ack_delay_for_pto() == before.max(req));
    }
}
