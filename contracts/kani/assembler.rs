// @target quinn-proto quinn-proto/src/connection/assembler.rs
// C01 receiver side: the reassembly buffer.  BinaryHeap/PeekMut/BTreeMap are outside the Verus subset, so the Assembler only has
// bounded stand-ins (stated bounds; never counted as proved) plus one complete obligation on the ordered->unordered switch.
use super::*;
use crate::verif_vk as vk;

const PATTERN: [u8; 8] = [10, 11, 12, 13, 14, 15, 16, 17];

// @harness assembler_switch_records_consumed_prefix props=C01 tier=quick kind=proof timeout=900 fn="Assembler::ensure_ordering" desc="switching from ordered to unordered reads with nothing buffered records exactly the consumed prefix [0, bytes_read) as received, for every bytes_read: a retransmission overlapping what the application already consumed can never be delivered again"
#[cfg_attr(kani, kani::proof)]
#[cfg_attr(kani, kani::unwind(4))]
#[cfg_attr(verif_replay, test)]
fn assembler_switch_records_consumed_prefix() {
    let mut a = Assembler::new();
    let consumed: u64 = vk::any();
    vk::assume(consumed < (1u64 << 62));
    a.bytes_read = consumed;
    a.end = consumed;
    let r = a.ensure_ordering(false);
    assert!(r.is_ok());
    match &a.state {
        State::Unordered { recvd } => {
            let mut it = recvd.iter();
            let first = it.next();
            let second = it.next();
            if consumed == 0 {
                assert!(first.is_none(), "nothing was consumed, nothing may be recorded");
            } else {
                assert!(first == Some(0..consumed), "the consumed prefix must be recorded as received");
            }
            assert!(second.is_none(), "nothing else may be recorded");
        }
        State::Ordered => panic!("still ordered after an unordered read was requested"),
    }
    // ordered reads are refused from now on
    assert!(a.ensure_ordering(true).is_err());
    core::mem::forget(a);
}

/// delivered-byte bookkeeping for the bounded stand-in
struct Seen {
    mask: u8,
}
impl Seen {
    fn deliver(&mut self, chunk: &Chunk) {
        let mut i = 0;
        while i < chunk.bytes.len() {
            let off = chunk.offset as usize + i;
            assert!(off < 8, "delivered an offset that was never written");
            assert!(chunk.bytes[i] == PATTERN[off], "delivered byte differs from the byte written at that offset");
            assert!(self.mask & (1 << off) == 0, "byte delivered twice");
            self.mask |= 1 << off;
            i += 1;
        }
    }
}

fn insert_any(a: &mut Assembler) {
    let off: u8 = vk::any();
    let len: u8 = vk::any();
    vk::assume(off < 8 && len <= 3 && off + len <= 8);
    let bytes = Bytes::copy_from_slice(&PATTERN[off as usize..(off + len) as usize]);
    let _ = a.insert(off as u64, bytes, len as usize);
}

// @harness assembler_bounded_ordered_then_unordered props=C01 tier=thorough kind=bounded bound="8-byte stream, 3 inserts of symbolic (offset, len<=3) slices, ordered read, switch to unordered, 1 more insert, 3 unordered reads" timeout=1800 fn="Assembler::{insert,read,ensure_ordering}" desc="every delivered byte equals the byte written at its offset; no byte is delivered twice across the ordered/unordered switch; ordered reads are a gap-free prefix"
#[cfg_attr(kani, kani::proof)]
#[cfg_attr(kani, kani::unwind(10))]
#[cfg_attr(verif_replay, test)]
fn assembler_bounded_ordered_then_unordered() {
    let mut a = Assembler::new();
    let mut seen = Seen { mask: 0 };
    insert_any(&mut a);
    insert_any(&mut a);
    a.ensure_ordering(true).unwrap();
    let max: usize = vk::any();
    vk::assume(max >= 1 && max <= 8);
    if let Some(c) = a.read(max, true) {
        assert!(c.offset == 0, "first ordered chunk must start the stream");
        assert!(c.bytes.len() <= max);
        seen.deliver(&c);
        assert!(a.bytes_read() == c.bytes.len() as u64);
    }
    a.ensure_ordering(false).unwrap();
    insert_any(&mut a);
    let mut k = 0;
    while k < 3 {
        match a.read(8, false) {
            Some(c) => seen.deliver(&c),
            None => break,
        }
        k += 1;
    }
    core::mem::forget(a);
}

fn insert_small(a: &mut Assembler) {
    let off: u8 = vk::any();
    let len: u8 = vk::any();
    vk::assume(off < 4 && len >= 1 && len <= 4 && off + len <= 4);
    let bytes = Bytes::copy_from_slice(&PATTERN[off as usize..(off + len) as usize]);
    let _ = a.insert(off as u64, bytes, len as usize);
}

// @harness assembler_bounded_switch_no_duplicate props=C01 tier=thorough kind=bounded bound="4-byte stream, 2 inserts of symbolic (offset, 1<=len<=4) slices, one ordered read of symbolic max length, switch to unordered, 2 unordered reads" timeout=1500 fn="Assembler::{insert,read,ensure_ordering,defragment}" desc="no byte is delivered twice across the ordered->unordered switch and every delivered byte equals the byte written at its offset"
#[cfg_attr(kani, kani::proof)]
#[cfg_attr(kani, kani::unwind(8))]
#[cfg_attr(verif_replay, test)]
fn assembler_bounded_switch_no_duplicate() {
    let mut a = Assembler::new();
    let mut seen = Seen { mask: 0 };
    insert_small(&mut a);
    insert_small(&mut a);
    let max: usize = vk::any();
    vk::assume(max >= 1 && max <= 4);
    if let Some(c) = a.read(max, true) {
        assert!(c.offset == 0, "first ordered chunk must start the stream");
        seen.deliver(&c);
    }
    a.ensure_ordering(false).unwrap();
    let mut k = 0;
    while k < 2 {
        match a.read(4, false) {
            Some(c) => seen.deliver(&c),
            None => break,
        }
        k += 1;
    }
    core::mem::forget(a);
}
