// @target quinn-proto quinn-proto/src/congestion/bbr/mod.rs
// C12 window floor for BBR.  `Bbr::new` draws from the thread RNG (crashes the Kani compiler), so the symbolic state is a
// struct literal over the private fields.  Representation invariant that every method re-establishes:
//   min_cwnd == 4*MTU, cwnd >= min_cwnd, init_cwnd >= 2*MTU, and while in recovery recovery_window >= min_cwnd.
use super::*;
use crate::verif_vk as vk;


fn any_mode() -> Mode {
    match vk::any::<u8>() % 4 { 0 => Mode::Startup, 1 => Mode::Drain, 2 => Mode::ProbeBw, _ => Mode::ProbeRtt }
}
fn any_recovery() -> RecoveryState {
    match vk::any::<u8>() % 3 { 0 => RecoveryState::NotInRecovery, 1 => RecoveryState::Conservation, _ => RecoveryState::Growth }
}

fn inv(b: &Bbr) -> bool {
    b.min_cwnd == calculate_min_window(b.current_mtu)
        && b.cwnd >= b.min_cwnd
        && b.init_cwnd >= 2 * b.current_mtu
        && (!b.recovery_state.in_recovery() || b.recovery_window >= b.min_cwnd)
}

fn any_bbr() -> Bbr {
    let mtu: u16 = vk::any();
    vk::assume(mtu >= 1200);
    let cfg = Arc::new(BbrConfig::default());
    let initial_window = cfg.initial_window;
    let bw: u64 = vk::any();
    // bandwidth below 16 GiB/s and min RTT below 16.7 s, so that `min_rtt_us * bw` (get_target_cwnd) fits u64 - assumption, stated in the evidence
    vk::assume(bw < (1u64 << 34));
    let rtt_us: u32 = vk::any();
    vk::assume(rtt_us < (1u32 << 24));
    let b = Bbr {
        config: cfg,
        current_mtu: mtu as u64,
        max_bandwidth: bw_estimation::verif_kani_bbr_bw::bw_with_estimate(bw),
        acked_bytes: vk::any(),
        mode: any_mode(),
        loss_state: LossState { lost_bytes: 0 },
        recovery_state: any_recovery(),
        recovery_window: vk::any(),
        is_at_full_bandwidth: vk::any(),
        pacing_gain: K_DEFAULT_HIGH_GAIN,
        high_gain: K_DEFAULT_HIGH_GAIN,
        drain_gain: 1.0 / K_DEFAULT_HIGH_GAIN,
        cwnd_gain: K_DEFAULT_HIGH_GAIN,
        high_cwnd_gain: K_DEFAULT_HIGH_GAIN,
        last_cycle_start: None,
        current_cycle_offset: 0,
        init_cwnd: initial_window.max(2 * mtu as u64),
        min_cwnd: calculate_min_window(mtu as u64),
        prev_in_flight_count: 0,
        exit_probe_rtt_at: None,
        probe_rtt_last_started_at: None,
        min_rtt: Duration::from_micros(rtt_us as u64),
        exiting_quiescence: false,
        pacing_rate: 0,
        max_acked_packet_number: 0,
        max_sent_packet_number: 0,
        end_recovery_at_packet_number: 0,
        cwnd: vk::any(),
        current_round_trip_end_packet_number: 0,
        round_count: 0,
        bw_at_last_round: 0,
        round_wo_bw_gain: 0,
        ack_aggregation: AckAggregationState::default(),
        random_number_generator: Pcg32::new(1, 1),
    };
    vk::assume(b.cwnd < (1u64 << 40) && b.recovery_window < (1u64 << 40) && b.acked_bytes < (1u64 << 40));
    vk::assume(inv(&b));
    b
}

// @harness bbr_window_floor_given_inv props=C12 tier=quick kind=proof fn="Bbr::window" desc="in every mode (Startup, Drain, ProbeBw, ProbeRtt), recovery state, bandwidth estimate and min RTT, a state satisfying the invariant reports window() >= 2*MTU"
#[cfg_attr(kani, kani::proof)]
#[cfg_attr(kani, kani::unwind(4))]
#[cfg_attr(verif_replay, test)]
fn bbr_window_floor_given_inv() {
    let b = any_bbr();
    vk::vk_cover!(b.mode == Mode::ProbeRtt);
    vk::vk_cover!(b.recovery_state.in_recovery() && b.mode == Mode::ProbeBw);
    assert!(b.window() >= 2 * b.current_mtu, "BBR reports a window below two datagrams");
    core::mem::forget(b);
}

// @harness bbr_mtu_update_preserves_inv props=C12 tier=quick kind=proof fn="Bbr::on_mtu_update" desc="an MTU change (up or down) from any invariant state re-establishes the invariant, in particular the recovery-window floor, and window() >= 2*new MTU"
#[cfg_attr(kani, kani::proof)]
#[cfg_attr(kani, kani::unwind(4))]
#[cfg_attr(verif_replay, test)]
fn bbr_mtu_update_preserves_inv() {
    let mut b = any_bbr();
    let new_mtu: u16 = vk::any();
    vk::assume(new_mtu >= 1200);
    vk::vk_cover!(b.recovery_state.in_recovery() && new_mtu as u64 > b.current_mtu);
    b.on_mtu_update(new_mtu);
    assert!(b.current_mtu == new_mtu as u64);
    assert!(b.window() >= 2 * (new_mtu as u64), "BBR reports a window below two datagrams after an MTU update");
    assert!(inv(&b), "on_mtu_update does not re-establish the BBR invariant");
    core::mem::forget(b);
}

// @harness bbr_calculate_cwnd_floor props=C12 tier=quick kind=proof fn="Bbr::calculate_cwnd" desc="outside ProbeRtt calculate_cwnd always leaves cwnd >= min_cwnd (whatever cwnd was before); in ProbeRtt it leaves cwnd untouched"
#[cfg_attr(kani, kani::proof)]
#[cfg_attr(kani, kani::unwind(4))]
#[cfg_attr(verif_replay, test)]
fn bbr_calculate_cwnd_floor() {
    let mut b = any_bbr();
    let acked: u64 = vk::any();
    let excess: u64 = vk::any();
    vk::assume(acked < (1u64 << 32) && excess < (1u64 << 32));
    let c0 = b.cwnd;
    b.calculate_cwnd(acked, excess);
    if b.mode == Mode::ProbeRtt { assert!(b.cwnd == c0); } else { assert!(b.cwnd >= b.min_cwnd); }
    assert!(inv(&b));
    core::mem::forget(b);
}

// @harness bbr_recovery_window_floor props=C12 tier=quick kind=proof fn="Bbr::calculate_recovery_window" desc="while in recovery, calculate_recovery_window leaves recovery_window >= min_cwnd from ANY previous value (including the 0 written on entering recovery); outside recovery it changes nothing"
#[cfg_attr(kani, kani::proof)]
#[cfg_attr(kani, kani::unwind(4))]
#[cfg_attr(verif_replay, test)]
fn bbr_recovery_window_floor() {
    let mut b = any_bbr();
    b.recovery_window = vk::any();
    vk::assume(b.recovery_window < (1u64 << 40));
    let acked: u64 = vk::any();
    let lost: u64 = vk::any();
    let in_flight: u64 = vk::any();
    vk::assume(acked < (1u64 << 32) && lost < (1u64 << 32) && in_flight < (1u64 << 40));
    let r0 = b.recovery_window;
    b.calculate_recovery_window(acked, lost, in_flight);
    if b.recovery_state.in_recovery() { assert!(b.recovery_window >= b.min_cwnd); } else { assert!(b.recovery_window == r0); }
    core::mem::forget(b);
}
