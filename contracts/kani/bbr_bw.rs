// @target quinn-proto quinn-proto/src/congestion/bbr/bw_estimation.rs
// helper only (no harness): a BandwidthEstimation whose estimate is a given (symbolic) value
use super::*;
pub(crate) fn bw_with_estimate(value: u64) -> BandwidthEstimation {
    BandwidthEstimation { max_filter: crate::congestion::bbr::min_max::verif_kani_bbr_minmax::minmax_with(value), ..Default::default() }
}
