// @target quinn-proto quinn-proto/src/congestion/bbr/min_max.rs
// helper only (no harness): lets the BBR harnesses build a max filter holding a symbolic estimate
use super::*;
pub(crate) fn minmax_with(value: u64) -> MinMax {
    MinMax { window: 10, samples: [MinMaxSample { time: 0, value }; 3] }
}
