// @target quinn-proto quinn-proto/src/range_set/btree_range_set.rs
// Bounded stand-in for the BTreeMap-backed RangeSet (the contract boundary that unit `assembler` trusts): `insert` and `replace`
// against a 16-bit mask model, and the representation invariant (stored ranges are non-empty, sorted, and never touch).
// Child module of range_set::btree_range_set, so the private map is visible.
use super::*;
use crate::verif_vk as vk;

fn mask(r: &Range<u64>) -> u16 {
    let mut m = 0u16;
    let mut i = 0u64;
    while i < 16 {
        if r.start <= i && i < r.end {
            m |= 1 << i;
        }
        i += 1;
    }
    m
}

/// membership mask of the stored ranges, checking the representation invariant on the way
fn model(s: &RangeSet) -> u16 {
    let mut m = 0u16;
    let mut prev_end: Option<u64> = None;
    for (&start, &end) in s.0.iter() {
        assert!(start < end, "an empty or inverted range is stored in the set");
        assert!(end <= 16);
        if let Some(p) = prev_end {
            assert!(p < start, "stored ranges overlap or touch");
        }
        prev_end = Some(end);
        m |= mask(&(start..end));
    }
    m
}

fn any_range() -> Range<u64> {
    let a: u64 = vk::any();
    let b: u64 = vk::any();
    vk::assume(a <= b && b <= 16);
    a..b
}

// @harness btree_range_set_replace_model props=C01 tier=thorough kind=attempt bound="offsets below 16; a set built by at most two inserts; one replace (possibly of an empty range) drained completely" timeout=1500 fn="RangeSet::replace / Replace::next / Replace::drop / RangeSet::insert (btree)" desc="after replace(r) the set is the old set plus r, what the iterator yields is exactly the part of r that was already present, in ascending order, and the representation invariant (non-empty, sorted, non-touching ranges) holds -- also when r is empty"
#[cfg_attr(kani, kani::proof)]
#[cfg_attr(kani, kani::unwind(18))]
#[cfg_attr(verif_replay, test)]
fn btree_range_set_replace_model() {
    let mut s = RangeSet::new();
    let r1 = any_range();
    let r2 = any_range();
    s.insert(r1.clone());
    let m1 = model(&s);
    assert!(m1 == mask(&r1), "insert into the empty set");
    s.insert(r2.clone());
    let before = model(&s);
    assert!(before == (mask(&r1) | mask(&r2)), "insert is set union");
    let r = any_range();
    vk::vk_cover!(r.start == r.end);
    vk::vk_cover!(before & mask(&r) != 0 && before & mask(&r) != mask(&r));
    let mut yielded = 0u16;
    let mut last_end = r.start;
    {
        let mut it = s.replace(r.clone());
        let mut n = 0;
        while let Some(d) = it.next() {
            assert!(d.start < d.end && r.start <= d.start && d.end <= r.end, "a yielded piece lies outside the requested range or is empty");
            assert!(last_end <= d.start, "yielded pieces are not in ascending order");
            last_end = d.end;
            yielded |= mask(&d);
            n += 1;
            assert!(n <= 3);
        }
    }
    assert!(yielded == (before & mask(&r)), "what replace yields must be exactly what was already in the set");
    let after = model(&s);
    assert!(after == (before | mask(&r)), "after replace the set is the old set plus the range");
}
