// @target quinn-proto quinn-proto/src/cid_queue.rs
// Remote connection-ID ring (C09, C03): total for every ring content and every peer (sequence, retire_prior_to); retire ranges and token hand-over exact.
use super::*;
use crate::verif_vk as vk;

/// symbolic queue satisfying the representation invariant: cursor slot occupied; only sequence 0 may lack a reset token
fn any_queue() -> CidQueue {
    let mut q = CidQueue::new(ConnectionId::new(&[1; 8]));
    q.cursor = vk::any();
    vk::assume(q.cursor < CidQueue::LEN);
    q.offset = vk::any();
    vk::assume(q.offset < (1u64 << 62));
    let mut i = 0;
    while i < CidQueue::LEN {
        let present: bool = vk::any();
        let no_token: bool = vk::any();
        q.buffer[i] = if present || i == q.cursor {
            let tok = if i == q.cursor && no_token { None } else { Some(ResetToken::from([i as u8 + 100; crate::RESET_TOKEN_SIZE])) };
            Some((ConnectionId::new(&[i as u8; 8]), tok))
        } else {
            None
        };
        i += 1;
    }
    vk::assume(q.offset == 0 || q.buffer[q.cursor].unwrap().1.is_some());
    q
}

// @harness cid_queue_insert_total props=C09,C03 tier=quick kind=proof fn="CidQueue::insert" timeout=900 desc="insert never panics (neither expect), keeps cursor valid and occupied, never lowers offset; Ok(Some((range, token))) retires exactly [old offset, new offset) capped at LEN and hands over the token stored with the new active CID; error classes exact"
#[cfg_attr(kani, kani::proof)]
#[cfg_attr(kani, kani::unwind(18))]
#[cfg_attr(verif_replay, test)]
fn cid_queue_insert_total() {
    let mut q = any_queue();
    let sequence: u64 = vk::any();
    let retire_prior_to: u64 = vk::any();
    vk::assume(sequence < (1u64 << 62) && retire_prior_to <= sequence);
    let off0 = q.offset;
    let new_tok = ResetToken::from([3; crate::RESET_TOKEN_SIZE]);
    let r = q.insert(NewConnectionId { sequence, retire_prior_to, id: ConnectionId::new(&[9; 8]), reset_token: new_tok });
    vk::vk_cover!(true);
    assert!(q.cursor < CidQueue::LEN);
    assert!(q.buffer[q.cursor].is_some(), "the active slot is always occupied");
    assert!(q.offset >= off0, "active sequence number never decreases");
    match r {
        Ok(Some((range, token))) => {
            assert!(range.start == off0 && range.end > range.start && range.end - range.start <= CidQueue::LEN as u64);
            assert!(q.offset >= retire_prior_to, "everything below retire_prior_to is retired");
            assert!(range.end == core::cmp::min(q.offset, off0 + CidQueue::LEN as u64));
            assert!(q.buffer[q.cursor].unwrap().1 == Some(token), "the returned reset token is the one stored with the new active CID");
        }
        Ok(None) => assert!(q.offset == off0),
        Err(InsertError::Retired) => assert!(sequence < off0 && q.offset == off0),
        Err(InsertError::ExceedsLimit) => assert!(sequence >= off0 + CidQueue::LEN as u64 && q.offset == off0),
    }
}

// @harness cid_queue_next_total props=C09,C03 tier=quick kind=proof fn="CidQueue::next" timeout=900 desc="next() returns None iff no other CID is stored; otherwise it moves to the nearest stored CID, retires exactly the skipped sequence numbers and returns its reset token"
#[cfg_attr(kani, kani::proof)]
#[cfg_attr(kani, kani::unwind(18))]
#[cfg_attr(verif_replay, test)]
fn cid_queue_next_total() {
    let mut q = any_queue();
    let off0 = q.offset;
    let cur0 = q.cursor;
    let mut others = 0;
    let mut nearest = 0usize; // distance to the nearest stored CID
    let mut i = 1;
    while i < CidQueue::LEN {
        if q.buffer[(cur0 + i) % CidQueue::LEN].is_some() {
            others += 1;
            if nearest == 0 { nearest = i; }
        }
        i += 1;
    }
    match q.next() {
        Some((token, range)) => {
            assert!(others > 0);
            assert!(range.start == off0 && range.end == q.offset && range.end - range.start == nearest as u64, "retires exactly the skipped numbers");
            assert!(q.cursor == (cur0 + nearest) % CidQueue::LEN, "moves to the nearest stored CID");
            assert!(q.buffer[q.cursor].is_some());
            assert!(q.buffer[q.cursor].unwrap().1 == Some(token));
            assert!(q.buffer[cur0].is_none(), "the retired slot is emptied");
        }
        None => {
            assert!(others == 0, "None only when no other CID is stored");
            assert!(q.offset == off0 && q.cursor == cur0);
        }
    }
}
