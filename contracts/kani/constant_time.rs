// @target quinn-proto quinn-proto/src/constant_time.rs
// Stateless-reset token comparison (C04): the constant-time equality is equality.
use super::*;
use crate::verif_vk as vk;

// @harness ct_eq_is_eq_16 props=C04 tier=quick kind=proof fn="constant_time::eq" desc="eq(a,b) == (a == b) for all pairs of 16-byte values (the reset-token size); loop bounded by the type constant 16, unwinding assertions on"
#[cfg_attr(kani, kani::proof)]
#[cfg_attr(kani, kani::unwind(18))]
#[cfg_attr(verif_replay, test)]
fn ct_eq_is_eq_16() {
    let a: [u8; 16] = vk::any();
    let b: [u8; 16] = vk::any();
    vk::vk_cover!(a == b);
    assert!(eq(&a, &b) == (a == b));
}

// @harness ct_eq_len_mismatch props=C04 tier=quick kind=proof fn="constant_time::eq" desc="slices of different length are never equal"
#[cfg_attr(kani, kani::proof)]
#[cfg_attr(kani, kani::unwind(18))]
#[cfg_attr(verif_replay, test)]
fn ct_eq_len_mismatch() {
    let a: [u8; 16] = vk::any();
    let b: [u8; 15] = vk::any();
    assert!(!eq(&a, &b));
}
