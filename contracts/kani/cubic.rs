// @target quinn-proto quinn-proto/src/congestion/cubic.rs
// C12 window floor for Cubic (inductive invariant).  f64::cbrt is an FFI call Kani rejects: State::cubic_k is stubbed by an
// arbitrary finite non-negative value (sound: the floor does not depend on k).
use super::*;
use crate::verif_vk as vk;

#[cfg(kani)]
fn stub_k(_s: &State, _m: u64) -> f64 {
    let k: f64 = kani::any();
    kani::assume(k.is_finite() && k >= 0.0);
    k
}
#[cfg(kani)]
fn stub_w(_s: &State, _t: Duration, _m: u64) -> f64 {
    kani::any()
}
#[cfg(kani)]
fn stub_w_est(_s: &State, _t: Duration, _rtt: Duration, _m: u64) -> f64 {
    kani::any()
}

fn any_cubic() -> Cubic {
    let mtu: u16 = vk::any();
    vk::assume(mtu >= 1200);
    let mut c = Cubic::new(Arc::new(CubicConfig::default()), vk::instant(1000), mtu);
    c.state.window = vk::any();
    c.state.ssthresh = vk::any();
    c.state.cwnd_inc = vk::any();
    c.state.w_max = f64::from_bits(vk::any::<u64>());
    c.state.k = f64::from_bits(vk::any::<u64>());
    c.state.recovery_start_time = if vk::any() { Some(vk::instant(vk::any::<u16>() as u32)) } else { None };
    vk::assume(c.state.window >= c.minimum_window() && c.state.window < (1u64 << 40) && c.state.cwnd_inc < (1u64 << 40));
    vk::assume(c.state.w_max.is_finite() && c.state.w_max >= 0.0 && c.state.w_max < 1e15 && c.state.k.is_finite() && c.state.k >= 0.0 && c.state.k < 1e6);
    c
}

// @harness cubic_new_establishes_floor props=C12 tier=quick kind=proof fn="Cubic::new" desc="for every configured initial window and every MTU >= 1200: new() reports at least two datagrams"
#[cfg_attr(kani, kani::proof)]
#[cfg_attr(verif_replay, test)]
fn cubic_new_establishes_floor() {
    let mtu: u16 = vk::any();
    let mut cfg = CubicConfig::default();
    cfg.initial_window = vk::any();
    vk::assume(mtu >= 1200);
    let c = Cubic::new(Arc::new(cfg), vk::instant(5), mtu);
    assert!(c.window() >= 2 * (mtu as u64));
}

// @harness cubic_floor_mtu_update props=C12 tier=quick kind=proof fn="Cubic::on_mtu_update" desc="from any state with window >= 2*MTU an MTU change leaves window() >= 2*new MTU"
#[cfg_attr(kani, kani::proof)]
#[cfg_attr(verif_replay, test)]
fn cubic_floor_mtu_update() {
    let mut c = any_cubic();
    let m: u16 = vk::any();
    vk::assume(m >= 1200);
    c.on_mtu_update(m);
    assert!(c.current_mtu == m as u64);
    assert!(c.window() >= 2 * c.current_mtu, "window below two datagrams");
}

// @harness cubic_floor_congestion_event props=C12 tier=quick kind=proof stubbing=yes fn="Cubic::on_congestion_event" desc="loss / ECN / persistent congestion from any invariant state: window() and ssthresh stay >= 2*MTU (cbrt stubbed by an arbitrary finite k)"
#[cfg_attr(kani, kani::proof)]
#[cfg_attr(kani, kani::stub(State::cubic_k, stub_k))]
#[cfg_attr(verif_replay, test)]
fn cubic_floor_congestion_event() {
    let mut c = any_cubic();
    let now = vk::instant(vk::any::<u16>() as u32);
    let sent = vk::instant(vk::any::<u16>() as u32);
    c.on_congestion_event(now, sent, vk::any(), vk::any(), vk::any());
    assert!(c.window() >= 2 * c.current_mtu, "window below two datagrams");
}

// @harness cubic_on_ack_monotone props=C12 tier=thorough kind=attempt stubbing=yes timeout=1500 fn="Cubic::on_ack" desc="an acknowledgement never shrinks the window (hence keeps the floor) and never overflows; w_cubic / w_est replaced by arbitrary f64 (any value incl. NaN/inf: sound over-approximation)"
#[cfg_attr(kani, kani::proof)]
#[cfg_attr(kani, kani::stub(State::w_cubic, stub_w))]
#[cfg_attr(kani, kani::stub(State::w_est, stub_w_est))]
#[cfg_attr(verif_replay, test)]
fn cubic_on_ack_monotone() {
    let mut c = any_cubic();
    let bytes: u64 = vk::any();
    vk::assume(bytes < (1u64 << 32));
    // the RTT only feeds w_cubic / w_est, which are over-approximated by arbitrary values here
    let rtt = RttEstimator::new(Duration::from_millis(100));
    let w0 = c.window();
    let t0: u16 = vk::any();
    let dt: u16 = vk::any();
    // `now` is not before the recovery start (time moves forward)
    let now = vk::instant(70_000 + t0 as u32 + dt as u32);
    let sent = vk::instant(vk::any::<u16>() as u32);
    c.on_ack(now, sent, bytes, vk::any(), &rtt);
    assert!(c.window() >= w0, "an acknowledgement shrank the window");
    assert!(c.window() >= 2 * c.current_mtu);
}

// @harness cubic_floor_spurious_event props=C12 tier=quick kind=proof fn="Cubic::on_spurious_congestion_event" desc="undoing a congestion event found spurious, from any invariant state and with any saved copy of the earlier state (it may predate an MTU increase): window() stays >= 2*MTU"
#[cfg_attr(kani, kani::proof)]
#[cfg_attr(verif_replay, test)]
fn cubic_floor_spurious_event() {
    let mut c = any_cubic();
    if vk::any() {
        let mut saved = c.state.clone();
        saved.window = vk::any();
        saved.ssthresh = vk::any();
        saved.cwnd_inc = vk::any();
        c.pre_congestion_state = Some(saved);
    }
    let before = c.window();
    c.on_spurious_congestion_event();
    assert!(c.window() >= 2 * c.current_mtu, "window below two datagrams after restoring the saved state");
    assert!(c.window() >= before, "undoing a congestion event must not shrink the window");
    assert!(c.pre_congestion_state.is_none());
}
