// @target quinn-proto quinn-proto/src/connection/datagrams.rs
// Bounded stand-in for DatagramState::drop_oversized (C16): its body is a VecDeque::retain with a closure that mutates captured
// state, which the Verus front end does not accept; the other DatagramState functions are proved in the Verus unit `datagrams`.
use super::*;
use crate::verif_vk as vk;

static PAYLOAD: [u8; 48] = [0u8; 48];

fn dgram(len: usize) -> Datagram {
    Datagram { data: Bytes::from_static(&PAYLOAD[..len]) }
}

// @harness datagrams_drop_oversized_accounting props=C16 tier=thorough kind=bounded bound="2 queued datagrams of at most 7 bytes each, limit at most 8" timeout=600 fn="DatagramState::drop_oversized" desc="after drop_oversized(max) exactly the datagrams with len < max remain, in order, outgoing_total is the sum of their lengths, and the result says whether anything was dropped"
#[cfg_attr(kani, kani::proof)]
#[cfg_attr(kani, kani::unwind(8))]
#[cfg_attr(verif_replay, test)]
fn datagrams_drop_oversized_accounting() {
    let n: usize = vk::any();
    vk::assume(n <= 2);
    let l0: usize = vk::any();
    let l1: usize = vk::any();
    let l2: usize = vk::any();
    vk::assume(l0 <= 7 && l1 <= 7 && l2 == 0);
    let lens = [l0, l1, l2];
    let mut st = DatagramState::default();
    let mut total = 0usize;
    let mut i = 0;
    while i < n {
        st.outgoing.push_back(dgram(lens[i]));
        total += lens[i];
        i += 1;
    }
    st.outgoing_total = total;
    let max: usize = vk::any();
    vk::assume(max <= 8);
    let mut keep_total = 0usize;
    let mut keep_n = 0usize;
    let mut j = 0;
    while j < n {
        if lens[j] < max {
            keep_total += lens[j];
            keep_n += 1;
        }
        j += 1;
    }
    vk::vk_cover!(keep_n < n && keep_n > 0);
    let dropped = st.drop_oversized(max);
    assert!(dropped == (keep_n < n), "result must say whether a datagram was dropped");
    assert!(st.outgoing.len() == keep_n, "exactly the datagrams below the limit remain");
    assert!(st.outgoing_total == keep_total, "outgoing_total must equal the bytes still queued");
    let mut k = 0;
    while k < st.outgoing.len() {
        assert!(st.outgoing[k].data.len() < max, "an oversized datagram is still queued");
        k += 1;
    }
}
