// @target quinn-proto quinn-proto/src/connection/mtud.rs
// C13: the MTU estimator.  Inductive representation invariant `inv` (assumed of the symbolic pre-state, proved of the post-state
// of every operation and of the constructor) plus per-operation postconditions taken from the property statement:
//  * a probe never exceeds the configured upper bound (or the current estimate, if larger) nor the peer's max_udp_payload_size,
//    is never below the current estimate, and at most one probe is outstanding;
//  * the estimate rises only when the outstanding probe is acknowledged, and then to exactly its size;
//  * the estimate never falls below min(configured minimum, peer max_udp_payload_size).
use super::*;
use crate::verif_vk as vk;
use crate::Duration;

struct Env {
    cfg_upper: u16,
    min_change: u16,
    min_mtu: u16,
}

fn any_env() -> Env {
    let e = Env { cfg_upper: vk::any(), min_change: vk::any(), min_mtu: vk::any() };
    // TransportConfig::min_mtu clamps to >= 1200; MtuDiscoveryConfig::upper_bound clamps to <= MAX_UDP_PAYLOAD
    vk::assume(e.min_mtu >= 1200 && e.cfg_upper <= MAX_UDP_PAYLOAD);
    e
}

fn config(e: &Env) -> MtuDiscoveryConfig {
    MtuDiscoveryConfig { interval: Duration::from_secs(600), upper_bound: e.cfg_upper, minimum_change: e.min_change, black_hole_cooldown: Duration::from_secs(60) }
}

fn any_detector(min_mtu: u16) -> BlackHoleDetector {
    let mut d = BlackHoleDetector::new(min_mtu);
    let n: u8 = vk::any();
    vk::assume(n as usize <= BLACK_HOLE_THRESHOLD + 1);
    let mut i = 0;
    while i < n {
        d.suspicious_loss_bursts.push(LossBurst { smallest_packet_size: vk::any() });
        i += 1;
    }
    if vk::any() {
        d.current_loss_burst = Some(CurrentLossBurst { smallest_packet_size: vk::any(), latest_non_probe: vk::any::<u32>() as u64 });
    }
    d.largest_post_loss_packet = vk::any::<u32>() as u64;
    d.acked_mtu = vk::any();
    d
}

fn any_mtud(e: &Env) -> MtuDiscovery {
    let phase = match vk::any::<u8>() % 3 {
        0 => Phase::Initial,
        1 => Phase::Searching(SearchState {
            lower_bound: vk::any(),
            upper_bound: vk::any(),
            minimum_change: e.min_change,
            last_probed_mtu: vk::any(),
            in_flight_probe: if vk::any() { Some(vk::any::<u32>() as u64) } else { None },
            lost_probe_count: vk::any::<u8>() as usize,
        }),
        _ => Phase::Complete(vk::instant(vk::any::<u16>() as u32)),
    };
    let peer_max: u16 = vk::any();
    // transport parameter validation gives max_udp_payload_size >= 1200 (it may well be below the configured minimum MTU)
    vk::assume(peer_max >= 1200);
    // (built through the private constructor and field assignments, not a struct literal, so that the harnesses do not depend on
    // which other fields the estimator has)
    let mut m = MtuDiscovery::with_state(vk::any(), e.min_mtu, Some(EnabledMtuDiscovery { phase, peer_max_udp_payload_size: peer_max, config: config(e) }));
    m.black_hole_detector = any_detector(e.min_mtu);
    vk::assume(inv(&m, e));
    m
}

/// representation invariant
fn inv(m: &MtuDiscovery, e: &Env) -> bool {
    let Some(st) = m.state.as_ref() else { return false };
    let peer = st.peer_max_udp_payload_size;
    if m.black_hole_detector.min_mtu != e.min_mtu || m.black_hole_detector.suspicious_loss_bursts.len() > BLACK_HOLE_THRESHOLD + 1 {
        return false;
    }
    if st.config.upper_bound != e.cfg_upper || st.config.minimum_change != e.min_change {
        return false;
    }
    // the C13 floor, and the peer's limit
    if m.current_mtu < e.min_mtu.min(peer) || m.current_mtu > peer {
        return false;
    }
    match &st.phase {
        Phase::Searching(s) => {
            s.minimum_change == e.min_change
                && s.lower_bound <= s.upper_bound
                && s.upper_bound <= peer
                && s.upper_bound <= e.cfg_upper.max(s.lower_bound)
                && s.lower_bound <= s.last_probed_mtu
                && s.last_probed_mtu <= s.upper_bound
                && s.lost_probe_count <= MAX_PROBE_RETRANSMITS
                && (s.in_flight_probe.is_none() || s.lost_probe_count < MAX_PROBE_RETRANSMITS)
                // the search's lower bound is the current estimate, except between the acknowledgement of a probe and the next poll
                && (s.lower_bound == m.current_mtu
                    || (s.lost_probe_count == 0 && s.in_flight_probe.is_none() && s.last_probed_mtu == m.current_mtu))
                // with nothing outstanding and nothing lost, the last probe is the one that produced the current estimate
                && (s.lost_probe_count != 0 || s.in_flight_probe.is_some() || s.last_probed_mtu == m.current_mtu)
        }
        _ => true,
    }
}

/// the same invariant, asserted clause by clause so that a failure names the clause
fn check_inv(m: &MtuDiscovery, e: &Env) {
    let st = m.state.as_ref().unwrap();
    let peer = st.peer_max_udp_payload_size;
    assert!(m.black_hole_detector.min_mtu == e.min_mtu, "inv: detector min_mtu");
    assert!(m.black_hole_detector.suspicious_loss_bursts.len() <= BLACK_HOLE_THRESHOLD + 1, "inv: at most THRESHOLD+1 suspicious bursts tracked");
    assert!(m.current_mtu >= e.min_mtu.min(peer), "inv: estimate below min(min_mtu, peer max_udp_payload_size)");
    assert!(m.current_mtu <= peer, "inv: estimate above the peer's max_udp_payload_size");
    if let Phase::Searching(s) = &st.phase {
        assert!(s.minimum_change == e.min_change, "inv: minimum_change");
        assert!(s.lower_bound <= s.upper_bound, "inv: search bounds crossed");
        assert!(s.upper_bound <= peer, "inv: search upper bound above the peer's limit");
        assert!(s.upper_bound <= e.cfg_upper.max(s.lower_bound), "inv: search upper bound above the configured upper bound");
        assert!(s.lower_bound <= s.last_probed_mtu, "inv: last probe below the search lower bound");
        assert!(s.last_probed_mtu <= s.upper_bound, "inv: last probe above the search upper bound");
        assert!(s.lost_probe_count <= MAX_PROBE_RETRANSMITS, "inv: retransmit counter");
        assert!(s.in_flight_probe.is_none() || s.lost_probe_count < MAX_PROBE_RETRANSMITS, "inv: probe in flight after the last retransmission");
        assert!(s.lower_bound == m.current_mtu || (s.lost_probe_count == 0 && s.in_flight_probe.is_none() && s.last_probed_mtu == m.current_mtu), "inv: search lower bound is not the current estimate");
        assert!(s.lost_probe_count != 0 || s.in_flight_probe.is_some() || s.last_probed_mtu == m.current_mtu, "inv: idle search whose last probe is not the current estimate");
    }
    assert!(inv(m, e), "invariant lost");
}

fn peer_max(m: &MtuDiscovery) -> u16 {
    m.state.as_ref().unwrap().peer_max_udp_payload_size
}

// @harness mtud_new_establishes_inv props=C13 tier=quick kind=proof fn="MtuDiscovery::new" desc="new(initial, min_mtu, peer_max?, config) with initial >= min_mtu establishes the invariant; current_mtu == min(initial, peer_max)"
#[cfg_attr(kani, kani::proof)]
#[cfg_attr(kani, kani::unwind(8))]
#[cfg_attr(verif_replay, test)]
fn mtud_new_establishes_inv() {
    let e = any_env();
    let initial: u16 = vk::any();
    vk::assume(initial >= e.min_mtu);
    let peer: Option<u16> = if vk::any() { let p: u16 = vk::any(); vk::assume(p >= 1200); Some(p) } else { None };
    // without a known peer limit the initial value is bounded by the largest UDP payload
    vk::assume(peer.is_some() || initial <= MAX_UDP_PAYLOAD);
    let m = MtuDiscovery::new(initial, e.min_mtu, peer, config(&e));
    assert!(inv(&m, &e));
    assert!(m.current_mtu == initial.min(peer.unwrap_or(MAX_UDP_PAYLOAD)));
    assert!(m.in_flight_mtu_probe().is_none());
}

// @harness mtud_poll_transmit props=C13 tier=quick kind=proof fn="MtuDiscovery::poll_transmit" desc="Some(p) only with no probe in flight; p <= peer max_udp_payload_size; p <= max(configured upper bound, current estimate); p >= current estimate; the estimate is unchanged; exactly this probe is now in flight; invariant preserved"
#[cfg_attr(kani, kani::proof)]
#[cfg_attr(kani, kani::unwind(8))]
#[cfg_attr(verif_replay, test)]
fn mtud_poll_transmit() {
    let e = any_env();
    let mut m = any_mtud(&e);
    let cur = m.current_mtu;
    let had_probe = m.in_flight_mtu_probe().is_some();
    let pn = vk::any::<u32>() as u64;
    let now = vk::instant(vk::any::<u16>() as u32);
    let r = m.poll_transmit(now, pn);
    vk::vk_cover!(r.is_some());
    assert!(m.current_mtu == cur, "polling must not move the estimate");
    if let Some(p) = r {
        assert!(!had_probe, "a second probe while one is outstanding");
        assert!(p <= peer_max(&m), "probe exceeds the peer's max_udp_payload_size");
        assert!(p <= e.cfg_upper.max(cur), "probe exceeds the configured upper bound");
        assert!(p >= cur, "probe below the current estimate");
        assert!(m.in_flight_mtu_probe() == Some(pn));
    }
    check_inv(&m, &e);
}

// @harness mtud_on_acked props=C13 tier=quick kind=proof fn="MtuDiscovery::on_acked" desc="the estimate changes only when the acknowledged packet is the outstanding probe in the Data space, then to exactly the probed size, which is never below the old estimate; invariant preserved"
#[cfg_attr(kani, kani::proof)]
#[cfg_attr(kani, kani::unwind(8))]
#[cfg_attr(verif_replay, test)]
fn mtud_on_acked() {
    let e = any_env();
    let mut m = any_mtud(&e);
    let cur = m.current_mtu;
    let probe = m.in_flight_mtu_probe();
    let probed_size = match &m.state.as_ref().unwrap().phase { Phase::Searching(s) => Some(s.last_probed_mtu), _ => None };
    let pn = vk::any::<u32>() as u64;
    let space = match vk::any::<u8>() % 3 { 0 => SpaceId::Initial, 1 => SpaceId::Handshake, _ => SpaceId::Data };
    let was_probe = m.on_acked(space, pn, vk::any());
    vk::vk_cover!(was_probe);
    if was_probe {
        assert!(space == SpaceId::Data && probe == Some(pn));
        assert!(Some(m.current_mtu) == probed_size, "estimate set to something other than the acknowledged probe size");
        assert!(m.current_mtu >= cur, "acknowledging a probe lowered the estimate");
        assert!(m.in_flight_mtu_probe().is_none());
    } else {
        assert!(m.current_mtu == cur, "estimate moved without an acknowledged probe");
        assert!(!(space == SpaceId::Data && probe == Some(pn)));
    }
    check_inv(&m, &e);
}

// @harness mtud_on_probe_lost props=C13 tier=quick kind=proof fn="MtuDiscovery::on_probe_lost" desc="losing the outstanding probe never moves the estimate; retransmission counter stays within MAX_PROBE_RETRANSMITS; invariant preserved"
#[cfg_attr(kani, kani::proof)]
#[cfg_attr(kani, kani::unwind(8))]
#[cfg_attr(verif_replay, test)]
fn mtud_on_probe_lost() {
    let e = any_env();
    let mut m = any_mtud(&e);
    // Connection calls this only for the packet number of the outstanding probe
    vk::assume(m.in_flight_mtu_probe().is_some());
    let cur = m.current_mtu;
    m.on_probe_lost();
    assert!(m.current_mtu == cur);
    assert!(m.in_flight_mtu_probe().is_none());
    check_inv(&m, &e);
}

// @harness mtud_black_hole props=C13 tier=quick kind=proof fn="MtuDiscovery::{on_non_probe_lost,on_non_probe_acked,black_hole_detected}" timeout=900 desc="black-hole handling: the estimate either stays or falls back to exactly the configured minimum (never below min(min_mtu, peer max)); at most BLACK_HOLE_THRESHOLD+1 bursts are tracked; invariant preserved"
#[cfg_attr(kani, kani::proof)]
#[cfg_attr(kani, kani::unwind(8))]
#[cfg_attr(verif_replay, test)]
fn mtud_black_hole() {
    let e = any_env();
    let mut m = any_mtud(&e);
    let cur = m.current_mtu;
    match vk::any::<u8>() % 3 {
        0 => {
            let pn = vk::any::<u32>() as u64;
            // loss detection reports lost packets in increasing packet-number order
            vk::assume(m.black_hole_detector.current_loss_burst.as_ref().map_or(true, |b| pn > b.latest_non_probe));
            m.on_non_probe_lost(pn, vk::any());
            assert!(m.current_mtu == cur);
        }
        1 => {
            m.black_hole_detector.on_non_probe_acked(vk::any::<u32>() as u64, vk::any());
            assert!(m.current_mtu == cur);
        }
        _ => {
            let now = vk::instant(vk::any::<u16>() as u32);
            let hit = m.black_hole_detected(now);
            if hit {
                assert!(m.current_mtu == e.min_mtu.min(cur), "black hole fallback is the configured minimum (or the current estimate if that is already smaller)");
                assert!(m.in_flight_mtu_probe().is_none());
            } else {
                assert!(m.current_mtu == cur);
            }
        }
    }
    assert!(m.current_mtu >= e.min_mtu.min(peer_max(&m)), "estimate below min(min_mtu, peer max_udp_payload_size)");
    assert!(m.current_mtu <= peer_max(&m), "estimate above the peer's max_udp_payload_size");
    check_inv(&m, &e);
    core::mem::forget(m);
}

// @harness mtud_peer_max_received props=C13 tier=quick kind=proof fn="MtuDiscovery::on_peer_max_udp_payload_size_received" desc="receiving the peer's max_udp_payload_size (before probing starts) clamps the estimate to it and keeps the floor min(min_mtu, peer max); invariant preserved"
#[cfg_attr(kani, kani::proof)]
#[cfg_attr(kani, kani::unwind(8))]
#[cfg_attr(verif_replay, test)]
fn mtud_peer_max_received() {
    let e = any_env();
    let mut m = any_mtud(&e);
    // transport parameters arrive before MTU probing starts (debug_assert in the code)
    vk::assume(!matches!(m.state.as_ref().unwrap().phase, Phase::Searching(_)));
    let cur = m.current_mtu;
    let p: u16 = vk::any();
    // the limit only ever tightens (first reception replaces the 65527 default; 0-RTT remembered values are not raised) - assumption
    vk::assume(p >= 1200 && p <= peer_max(&m));
    m.on_peer_max_udp_payload_size_received(p);
    assert!(m.current_mtu == cur.min(p));
    assert!(peer_max(&m) == p);
    check_inv(&m, &e);
    core::mem::forget(m);
}

// @harness mtud_reset props=C13 tier=quick kind=proof fn="MtuDiscovery::reset" desc="reset(current, min_mtu) with current >= min_mtu re-establishes the invariant for the remembered peer limit"
#[cfg_attr(kani, kani::proof)]
#[cfg_attr(kani, kani::unwind(8))]
#[cfg_attr(verif_replay, test)]
fn mtud_reset() {
    let e = any_env();
    let mut m = any_mtud(&e);
    let p = peer_max(&m);
    let c: u16 = vk::any();
    vk::assume(c >= e.min_mtu);
    m.reset(c, e.min_mtu);
    assert!(m.current_mtu == c.min(p));
    assert!(peer_max(&m) == p);
    check_inv(&m, &e);
    core::mem::forget(m);
}

// @harness mtud_non_probe_acked_keeps_larger_bursts props=C13 tier=quick kind=proof fn="BlackHoleDetector::on_non_probe_acked" desc="an acknowledged non-probe packet of size len clears exactly the suspicious loss bursts it disproves (those whose smallest lost packet was not larger than len); bursts of larger packets stay on record, so that a path that drops only large packets is still recognised as a black hole while small packets keep getting through"
#[cfg_attr(kani, kani::proof)]
#[cfg_attr(kani, kani::unwind(8))]
#[cfg_attr(verif_replay, test)]
fn mtud_non_probe_acked_keeps_larger_bursts() {
    let min_mtu: u16 = vk::any();
    vk::assume(min_mtu >= 1200);
    let mut d = any_detector(min_mtu);
    let len: u16 = vk::any();
    let acked0 = d.acked_mtu;
    let n0 = d.suspicious_loss_bursts.len();
    let mut larger = 0;
    let mut i = 0;
    while i < n0 {
        if d.suspicious_loss_bursts[i].smallest_packet_size > len {
            larger += 1;
        }
        i += 1;
    }
    d.on_non_probe_acked(vk::any::<u32>() as u64, len);
    if len <= acked0 {
        assert!(d.suspicious_loss_bursts.len() == n0, "nothing new was learned, the record must stay");
    } else {
        assert!(d.suspicious_loss_bursts.len() == larger, "loss bursts of packets larger than the acknowledged one must stay on record");
        let mut j = 0;
        while j < d.suspicious_loss_bursts.len() {
            assert!(d.suspicious_loss_bursts[j].smallest_packet_size > len);
            j += 1;
        }
    }
    core::mem::forget(d);
}

// ---- MTU discovery disabled (state == None): the peer's limit must still bind the estimate ----

// @harness mtud_disabled_step props=C13 tier=quick kind=proof fn="MtuDiscovery::{disabled,on_peer_max_udp_payload_size_received,reset,black_hole_detected,on_acked,poll_transmit}" desc="MTU discovery disabled, inductive step: from any state of the estimator in which the peer's max_udp_payload_size p has been received and the estimate is <= p, none of reset (Connection::path_changed), black-hole fallback, a further limit, an acknowledgement or poll_transmit takes the estimate above p; no probe is ever sent"
#[cfg_attr(kani, kani::proof)]
#[cfg_attr(kani, kani::unwind(8))]
#[cfg_attr(verif_replay, test)]
fn mtud_disabled_step() {
    let min_mtu: u16 = vk::any();
    let initial: u16 = vk::any();
    let p: u16 = vk::any();
    vk::assume(min_mtu >= 1200 && initial >= min_mtu && p >= 1200);
    let mut m = MtuDiscovery::disabled(initial, min_mtu);
    m.on_peer_max_udp_payload_size_received(p);
    assert!(m.current_mtu == initial.min(p));
    // any later state: the estimate anywhere at or below the limit, any loss history
    let cur: u16 = vk::any();
    vk::assume(cur <= p);
    m.current_mtu = cur;
    m.black_hole_detector = any_detector(min_mtu);
    let mut limit = p;
    match vk::any::<u8>() % 5 {
        0 => {
            let c: u16 = vk::any();
            vk::assume(c >= min_mtu);
            m.reset(c, min_mtu);
            assert!(m.current_mtu <= p, "estimate above the peer's max_udp_payload_size after reset with discovery disabled");
            assert!(m.current_mtu == c.min(p));
        }
        1 => {
            let hit = m.black_hole_detected(vk::instant(vk::any::<u16>() as u32));
            assert!(m.current_mtu == if hit { cur.min(min_mtu) } else { cur });
        }
        2 => {
            let q: u16 = vk::any();
            vk::assume(q >= 1200);
            m.on_peer_max_udp_payload_size_received(q);
            assert!(m.current_mtu == cur.min(q));
            limit = limit.min(q);
        }
        3 => {
            let probe = m.on_acked(if vk::any() { SpaceId::Data } else { SpaceId::Handshake }, vk::any::<u32>() as u64, vk::any());
            assert!(!probe && m.current_mtu == cur);
        }
        _ => {
            assert!(m.poll_transmit(vk::instant(0), vk::any::<u32>() as u64).is_none(), "probe sent with discovery disabled");
            m.on_probe_lost();
            assert!(m.current_mtu == cur);
        }
    }
    assert!(m.current_mtu <= limit, "estimate above the peer's max_udp_payload_size with discovery disabled");
    core::mem::forget(m);
}
