// @target quinn-proto quinn-proto/src/congestion/new_reno.rs
// C12, last sentence: the built-in controllers never report a window below two datagrams, for any sequence of
// acknowledgement, loss, ECN and MTU events.  Proved as an inductive invariant: established by `new`, preserved by every event.
use super::*;
use crate::verif_vk as vk;
use crate::Duration;

fn any_reno() -> NewReno {
    let mtu: u16 = vk::any();
    vk::assume(mtu >= 1200);
    let mut cfg = NewRenoConfig::default();
    // any reduction factor, including out-of-range and NaN: the floor must not depend on it
    cfg.loss_reduction_factor = f32::from_bits(vk::any::<u32>());
    let mut c = NewReno::new(Arc::new(cfg), vk::instant(1000), mtu);
    c.window = vk::any();
    c.ssthresh = vk::any();
    c.bytes_acked = vk::any();
    c.recovery_start_time = vk::instant(vk::any::<u16>() as u32);
    // representation invariant
    vk::assume(c.window >= c.minimum_window() && c.window < (1u64 << 62) && c.bytes_acked < (1u64 << 62));
    c
}

// @harness reno_new_establishes_floor props=C12 tier=quick kind=proof fn="NewReno::new" desc="for every configured initial window and every MTU >= 1200 (initial_mtu is configurable up to 65527), new() reports a window of at least two datagrams"
#[cfg_attr(kani, kani::proof)]
#[cfg_attr(verif_replay, test)]
fn reno_new_establishes_floor() {
    let mtu: u16 = vk::any();
    let mut cfg = NewRenoConfig::default();
    cfg.initial_window = vk::any();
    vk::assume(mtu >= 1200);
    vk::vk_cover!(mtu == 1200);
    let c = NewReno::new(Arc::new(cfg), vk::instant(5), mtu);
    assert!(c.window() >= 2 * (mtu as u64));
    assert!(c.window() >= c.minimum_window());
}

// @harness reno_floor_inductive props=C12 tier=quick kind=proof fn="NewReno::{on_ack,on_congestion_event,on_mtu_update}" desc="from any state with window >= 2*MTU, every event (ack of any size, loss/ECN with or without persistent congestion, MTU change up or down) leaves window() >= 2*current MTU; no arithmetic overflow"
#[cfg_attr(kani, kani::proof)]
#[cfg_attr(verif_replay, test)]
fn reno_floor_inductive() {
    let mut c = any_reno();
    let now = vk::instant(vk::any::<u16>() as u32);
    let sent = vk::instant(vk::any::<u16>() as u32);
    let which: u8 = vk::any();
    vk::vk_cover!(which % 3 == 1);
    match which % 3 {
        0 => {
            let b: u64 = vk::any();
            vk::assume(b < (1u64 << 32));
            let w0 = c.window();
            c.on_ack(now, sent, b, vk::any(), &RttEstimator::new(Duration::from_millis(100)));
            assert!(c.window() >= w0, "an acknowledgement never shrinks the window");
        }
        1 => c.on_congestion_event(now, sent, vk::any(), vk::any(), vk::any()),
        _ => {
            let m: u16 = vk::any();
            vk::assume(m >= 1200);
            c.on_mtu_update(m);
            assert!(c.current_mtu == m as u64);
        }
    }
    assert!(c.window() >= 2 * c.current_mtu, "window below two datagrams");
    assert!(c.window() >= c.minimum_window());
}
