// @target quinn-proto quinn-proto/src/packet.rs
// Packet-number truncation / expansion (C10, C04): the number acted on is the number sent, for every receiver state inside the RFC 9000 A.3 window.
use super::*;
use crate::verif_vk as vk;

// @harness pn_new_width props=C10,C04 tier=quick kind=proof fn="PacketNumber::new" desc="new(n, largest_acked) never panics for a gap below 2^31, picks the width w with 2*(n-la) < 2^(8w) (and not a smaller sufficient one... exactly the first), and stores n truncated"
#[cfg_attr(kani, kani::proof)]
#[cfg_attr(verif_replay, test)]
fn pn_new_width() {
    let n: u64 = vk::any();
    let la: u64 = vk::any();
    vk::assume(n < (1u64 << 62) && la <= n && n - la < (1u64 << 31));
    let pn = PacketNumber::new(n, la);
    let w = pn.len();
    vk::vk_cover!(w == 3);
    assert!(w >= 1 && w <= 4);
    // the sender's rule: the encoded width covers twice the distance to the largest acknowledged packet
    assert!(2 * (n - la) < (1u64 << (8 * w)));
    assert!(w == 1 || 2 * (n - la) >= (1u64 << (8 * (w - 1))), "narrowest sufficient width is chosen");
    let low = match pn {
        PacketNumber::U8(x) => u64::from(x),
        PacketNumber::U16(x) => u64::from(x),
        PacketNumber::U24(x) => u64::from(x) & 0xff_ffff,
        PacketNumber::U32(x) => u64::from(x),
    };
    assert!(low == n & ((1u64 << (8 * w)) - 1), "stored value is n truncated to the width");
    assert!(PacketNumber::decode_len(pn.tag()) == w, "the header tag announces the width");
}

// @harness pn_wire_roundtrip props=C10 tier=quick kind=proof fn="PacketNumber::{encode,decode}" desc="decode(len, encode(new(n,la))) carries exactly the low 8*len bits of n and satisfies the type invariant x < 2^(8 len)"
#[cfg_attr(kani, kani::proof)]
#[cfg_attr(kani, kani::unwind(6))]
#[cfg_attr(verif_replay, test)]
fn pn_wire_roundtrip() {
    let n: u64 = vk::any();
    let la: u64 = vk::any();
    vk::assume(n < (1u64 << 62) && la <= n && n - la < (1u64 << 31));
    let pn = PacketNumber::new(n, la);
    let mut buf = [0u8; 4];
    let mut w = &mut buf[..];
    pn.encode(&mut w);
    let written = 4 - w.len();
    assert!(written == pn.len(), "encode writes exactly len() bytes");
    let mut r = &buf[..written];
    let back = PacketNumber::decode(PacketNumber::decode_len(pn.tag()), &mut r).unwrap();
    assert!(r.is_empty(), "decode consumes exactly len() bytes");
    let mask = (1u64 << (8 * pn.len())) - 1;
    let val = match back {
        PacketNumber::U8(x) => { assert!(pn.len() == 1); u64::from(x) }
        PacketNumber::U16(x) => { assert!(pn.len() == 2); u64::from(x) }
        PacketNumber::U24(x) => { assert!(pn.len() == 3); u64::from(x) }
        PacketNumber::U32(x) => { assert!(pn.len() == 4); u64::from(x) }
    };
    assert!(val == n & mask, "what arrives is n truncated: value below 2^(8 len) and congruent to n");
}

fn pn_of(len: usize, x: u64) -> PacketNumber {
    match len {
        1 => PacketNumber::U8(x as u8),
        2 => PacketNumber::U16(x as u16),
        3 => PacketNumber::U24(x as u32),
        _ => PacketNumber::U32(x as u32),
    }
}

// @harness pn_expand_exact props=C10,C04 tier=quick kind=proof fn="PacketNumber::expand" desc="for every width, every decoded value x < 2^(8w) with x = n mod 2^(8w), and every receiver expectation with expected - 2^(8w-1) < n <= expected + 2^(8w-1): expand(expected) == n"
#[cfg_attr(kani, kani::proof)]
#[cfg_attr(verif_replay, test)]
fn pn_expand_exact() {
    let n: u64 = vk::any();
    let expected: u64 = vk::any();
    let len: usize = vk::any();
    vk::assume(len >= 1 && len <= 4);
    vk::assume(n < (1u64 << 62) && expected < (1u64 << 62));
    let win = 1u64 << (8 * len);
    let hwin = win / 2;
    // RFC 9000 A.3 window around the receiver's expectation (largest received + 1)
    vk::assume(n <= expected + hwin && n + hwin > expected);
    let pn = pn_of(len, n & (win - 1)); // what decode() produces (pn_wire_roundtrip)
    vk::vk_cover!(len == 3 && n > win);
    let got = pn.expand(expected);
    assert!(got == n, "expanded packet number differs from the one sent");
}

// @harness pn_expand_bounded props=C03,C10 tier=quick kind=proof fn="PacketNumber::expand" desc="for every width, every truncated value a peer can put on the wire and every receiver expectation below 2^62: the expanded packet number is below 2^62 (RFC 9000 A.3: the window is never moved past the end of the packet-number space), so acknowledging it cannot overflow a varint"
#[cfg_attr(kani, kani::proof)]
#[cfg_attr(verif_replay, test)]
fn pn_expand_bounded() {
    let expected: u64 = vk::any();
    let len: usize = vk::any();
    let x: u64 = vk::any();
    vk::assume(len >= 1 && len <= 4 && expected < (1u64 << 62));
    let win = 1u64 << (8 * len);
    vk::assume(x < win);
    let got = pn_of(len, x).expand(expected);
    assert!(got < (1u64 << 62), "expanded packet number outside the packet-number space");
}

/// Mock header-protection key with the slicing behaviour of the real rustls implementation (crypto/rustls.rs): it reads a
/// 16-byte sample starting 4 bytes after the packet-number offset and rewrites the first byte and up to 4 packet-number bytes.
struct MockHeaderKey;
impl crate::crypto::HeaderKey for MockHeaderKey {
    fn decrypt(&self, pn_offset: usize, packet: &mut [u8]) {
        let (header, sample) = packet.split_at_mut(pn_offset + 4);
        let (first, rest) = header.split_at_mut(1);
        let pn_end = Ord::min(pn_offset + 3, rest.len());
        let s = &sample[..self.sample_size()];
        // "decryption": any first byte (so every packet-number length is exercised), mask the packet-number bytes with the sample
        first[0] = vk::any();
        let mut i = 0;
        for b in rest[pn_offset - 1..pn_end].iter_mut() {
            *b ^= s[i];
            i += 1;
        }
    }
    fn encrypt(&self, _pn_offset: usize, _packet: &mut [u8]) {}
    fn sample_size(&self) -> usize {
        16
    }
}

fn decrypt_header_case<const N: usize>() {
    let data = [0x5au8; N];
    let len: usize = vk::any();
    vk::assume(len <= N);
    let pn_offset: usize = vk::any();
    // the caller has already parsed at least the first header byte, and never beyond the packet
    vk::assume(pn_offset >= 1 && pn_offset <= len);
    let mut bytes = BytesMut::from(&data[..]);
    bytes.truncate(len);
    let mut buf = io::Cursor::new(bytes);
    buf.set_position(pn_offset as u64);
    vk::vk_cover!(len == pn_offset + 4 + 16);
    let r = PartialDecode::decrypt_header(&mut buf, &MockHeaderKey);
    match r {
        Ok(pn) => {
            assert!(len >= pn_offset + 4 + 16, "accepted a packet too short for the header protection sample");
            assert!(buf.position() as usize == pn_offset + pn.len(), "packet number length");
            assert!(buf.position() as usize <= len);
        }
        Err(_) => assert!(len < pn_offset + 4 + 16, "rejected a packet that carries a full sample"),
    }
    core::mem::forget(buf);
}

// @harness decrypt_header_total_24 props=C03,C10 tier=quick kind=proof timeout=900 fn="PartialDecode::decrypt_header" desc="for every packet of 0..=24 bytes and every packet-number offset >= 1 inside it: a packet too short for the header-protection sample (offset + 4 + sample size) is rejected without touching the key, otherwise the header key only reads/writes inside the packet (slice bounds of the real rustls impl) and the packet number is decoded within the packet; never panics (the sample window, 16 bytes, fits for offsets 1..=4; larger packets in the thorough tier)"
#[cfg_attr(kani, kani::proof)]
#[cfg_attr(kani, kani::unwind(26))]
#[cfg_attr(verif_replay, test)]
fn decrypt_header_total_24() {
    decrypt_header_case::<24>();
}

// @harness decrypt_header_total_40 props=C03,C10 tier=thorough kind=proof timeout=1800 fn="PartialDecode::decrypt_header" desc="same contract for every packet of 0..=40 bytes (offsets up to 20, i.e. the largest connection-ID length)"
#[cfg_attr(kani, kani::proof)]
#[cfg_attr(kani, kani::unwind(42))]
#[cfg_attr(verif_replay, test)]
fn decrypt_header_total_40() {
    decrypt_header_case::<40>();
}

fn partial_decode_new_case<const N: usize>() {
    let data: [u8; N] = vk::any();
    let len: usize = vk::any();
    vk::assume(len <= N);
    let mut bytes = BytesMut::from(&data[..]);
    bytes.truncate(len);
    let cid_len: usize = vk::any();
    vk::assume(cid_len <= 4);
    let parser = FixedLengthConnectionIdParser::new(cid_len);
    let grease: bool = vk::any();
    // a supported-version Initial with an empty token and one with a token whose length field is the last byte
    vk::vk_cover!(len >= 8 && data[0] & 0xf0 == 0xc0 && data[1] == 0 && data[2] == 0 && data[3] == 0 && data[4] == 1);
    let r = PartialDecode::new(bytes, &parser, &[1u32], grease);
    match r {
        Ok((pd, rest)) => {
            let used = pd.buf.get_ref().len();
            let tail = match &rest { Some(b) => b.len(), None => 0 };
            assert!(used + tail == len, "packet and trailing data together are the datagram");
            assert!(pd.buf.position() as usize <= used, "the header ends inside the packet");
            core::mem::forget(rest);
            core::mem::forget(pd);
        }
        Err(_) => {}
    }
}

// @harness partial_decode_new_total_9 props=C03,C10 tier=thorough kind=bounded bound="datagrams of at most 9 bytes, local CID length at most 4" timeout=1200 fn="PartialDecode::new / ProtectedHeader::decode" desc="for every datagram of 0..=9 bytes, every local CID length 0..=4 and either grease setting: decoding the unprotected header never panics or reads past the datagram (token length, CID lengths and payload length are all checked against what is left); on success packet + trailing data = the datagram and the header ends inside the packet"
#[cfg_attr(kani, kani::proof)]
#[cfg_attr(kani, kani::unwind(12))]
#[cfg_attr(verif_replay, test)]
fn partial_decode_new_total_9() {
    partial_decode_new_case::<9>();
}
