// @target quinn-proto quinn-proto/src/packet.rs
// Packet-number truncation / expansion (C10, C04): the number acted on is the number sent, for every receiver state inside the RFC 9000 A.3 window.
use super::*;
use crate::verif_vk as vk;

// @harness pn_new_width props=C10,C04 tier=quick kind=proof fn="PacketNumber::new" desc="new(n, largest_acked) never panics for a gap below 2^31, picks the width w with 2*(n-la) < 2^(8w) (and not a smaller sufficient one... exactly the first), and stores n truncated"
#[cfg_attr(kani, kani::proof)]
#[cfg_attr(verif_replay, test)]
fn pn_new_width() {
    let n: u64 = vk::any();
    let la: u64 = vk::any();
    vk::assume(n < (1u64 << 62) && la <= n && n - la < (1u64 << 31));
    let pn = PacketNumber::new(n, la);
    let w = pn.len();
    vk::vk_cover!(w == 3);
    assert!(w >= 1 && w <= 4);
    // the sender's rule: the encoded width covers twice the distance to the largest acknowledged packet
    assert!(2 * (n - la) < (1u64 << (8 * w)));
    assert!(w == 1 || 2 * (n - la) >= (1u64 << (8 * (w - 1))), "narrowest sufficient width is chosen");
    let low = match pn {
        PacketNumber::U8(x) => u64::from(x),
        PacketNumber::U16(x) => u64::from(x),
        PacketNumber::U24(x) => u64::from(x) & 0xff_ffff,
        PacketNumber::U32(x) => u64::from(x),
    };
    assert!(low == n & ((1u64 << (8 * w)) - 1), "stored value is n truncated to the width");
    assert!(PacketNumber::decode_len(pn.tag()) == w, "the header tag announces the width");
}

// @harness pn_wire_roundtrip props=C10 tier=quick kind=proof fn="PacketNumber::{encode,decode}" desc="decode(len, encode(new(n,la))) carries exactly the low 8*len bits of n and satisfies the type invariant x < 2^(8 len)"
#[cfg_attr(kani, kani::proof)]
#[cfg_attr(kani, kani::unwind(6))]
#[cfg_attr(verif_replay, test)]
fn pn_wire_roundtrip() {
    let n: u64 = vk::any();
    let la: u64 = vk::any();
    vk::assume(n < (1u64 << 62) && la <= n && n - la < (1u64 << 31));
    let pn = PacketNumber::new(n, la);
    let mut buf = [0u8; 4];
    let mut w = &mut buf[..];
    pn.encode(&mut w);
    let written = 4 - w.len();
    assert!(written == pn.len(), "encode writes exactly len() bytes");
    let mut r = &buf[..written];
    let back = PacketNumber::decode(PacketNumber::decode_len(pn.tag()), &mut r).unwrap();
    assert!(r.is_empty(), "decode consumes exactly len() bytes");
    let mask = (1u64 << (8 * pn.len())) - 1;
    let val = match back {
        PacketNumber::U8(x) => { assert!(pn.len() == 1); u64::from(x) }
        PacketNumber::U16(x) => { assert!(pn.len() == 2); u64::from(x) }
        PacketNumber::U24(x) => { assert!(pn.len() == 3); u64::from(x) }
        PacketNumber::U32(x) => { assert!(pn.len() == 4); u64::from(x) }
    };
    assert!(val == n & mask, "what arrives is n truncated: value below 2^(8 len) and congruent to n");
}

fn pn_of(len: usize, x: u64) -> PacketNumber {
    match len {
        1 => PacketNumber::U8(x as u8),
        2 => PacketNumber::U16(x as u16),
        3 => PacketNumber::U24(x as u32),
        _ => PacketNumber::U32(x as u32),
    }
}

// @harness pn_expand_exact props=C10,C04 tier=quick kind=proof fn="PacketNumber::expand" desc="for every width, every decoded value x < 2^(8w) with x = n mod 2^(8w), and every receiver expectation with expected - 2^(8w-1) < n <= expected + 2^(8w-1): expand(expected) == n"
#[cfg_attr(kani, kani::proof)]
#[cfg_attr(verif_replay, test)]
fn pn_expand_exact() {
    let n: u64 = vk::any();
    let expected: u64 = vk::any();
    let len: usize = vk::any();
    vk::assume(len >= 1 && len <= 4);
    vk::assume(n < (1u64 << 62) && expected < (1u64 << 62));
    let win = 1u64 << (8 * len);
    let hwin = win / 2;
    // RFC 9000 A.3 window around the receiver's expectation (largest received + 1)
    vk::assume(n <= expected + hwin && n + hwin > expected);
    let pn = pn_of(len, n & (win - 1)); // what decode() produces (pn_wire_roundtrip)
    vk::vk_cover!(len == 3 && n > win);
    let got = pn.expand(expected);
    assert!(got == n, "expanded packet number differs from the one sent");
}
