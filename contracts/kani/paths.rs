// @target quinn-proto quinn-proto/src/connection/paths.rs
// C13: a path created when the peer's max_udp_payload_size is already known (migration) starts within that limit, whether or
// not MTU discovery is enabled for it.
use super::*;
use crate::verif_vk as vk;

// @harness pathdata_new_respects_peer_limit props=C13 tier=quick kind=proof fn="PathData::new" timeout=900 desc="PathData::new(remote, allow_mtud, Some(p), ..) starts with current_mtu <= p for every configured initial_mtu, allow_mtud and discovery on/off"
#[cfg_attr(kani, kani::proof)]
#[cfg_attr(kani, kani::unwind(8))]
#[cfg_attr(verif_replay, test)]
fn pathdata_new_respects_peer_limit() {
    let mut config = TransportConfig::default();
    let initial: u16 = vk::any();
    config.initial_mtu(initial);
    if vk::any() {
        config.mtu_discovery_config(None);
    }
    let p: u16 = vk::any();
    vk::assume(p >= 1200);
    let remote = SocketAddr::new(std::net::IpAddr::V4(std::net::Ipv4Addr::new(127, 0, 0, 1)), 4433);
    let path = PathData::new(remote, vk::any(), Some(p), 1, vk::instant(0), &config);
    assert!(path.current_mtu() <= p, "new path starts above the peer's max_udp_payload_size");
    core::mem::forget(path);
}

// @harness pathdata_new_falls_back_to_min_mtu props=C13 tier=quick kind=proof timeout=900 fn="PathData::new, MtuDiscovery::{on_non_probe_lost,black_hole_detected}" desc="a new path, with MTU discovery on or off, is built with the configured minimum MTU: when four loss bursts of datagrams of the initial size (above the minimum) have been recorded, the black hole is recognised and the estimate falls back to the configured minimum (or stays at the peer's limit if that is lower)"
#[cfg_attr(kani, kani::proof)]
#[cfg_attr(kani, kani::unwind(8))]
#[cfg_attr(verif_replay, test)]
fn pathdata_new_falls_back_to_min_mtu() {
    let mut config = TransportConfig::default();
    let initial: u16 = vk::any();
    vk::assume(initial > 1200);
    config.initial_mtu(initial);
    if vk::any() {
        config.mtu_discovery_config(None);
    }
    let remote = SocketAddr::new(std::net::IpAddr::V4(std::net::Ipv4Addr::new(127, 0, 0, 1)), 4433);
    let mut path = PathData::new(remote, vk::any(), None, 1, vk::instant(0), &config);
    assert!(path.current_mtu() == initial);
    // four separate loss bursts (packet numbers two apart) of full-sized datagrams, nothing of that size acknowledged
    let mut i = 0u64;
    while i < 4 {
        path.mtud.on_non_probe_lost(2 * i, initial);
        i += 1;
    }
    assert!(path.mtud.black_hole_detected(vk::instant(1)), "black hole not recognised on a new path");
    assert!(path.current_mtu() == 1200, "the estimate does not fall back to the configured minimum MTU");
    core::mem::forget(path);
}
