// @target quinn-proto quinn-proto/src/connection/paths.rs
// C13: a path created when the peer's max_udp_payload_size is already known (migration) starts within that limit, whether or
// not MTU discovery is enabled for it.
use super::*;
use crate::verif_vk as vk;

// @harness pathdata_new_respects_peer_limit props=C13 tier=quick kind=proof fn="PathData::new" timeout=900 desc="PathData::new(remote, allow_mtud, Some(p), ..) starts with current_mtu <= p for every configured initial_mtu, allow_mtud and discovery on/off"
#[cfg_attr(kani, kani::proof)]
#[cfg_attr(kani, kani::unwind(8))]
#[cfg_attr(verif_replay, test)]
fn pathdata_new_respects_peer_limit() {
    let mut config = TransportConfig::default();
    let initial: u16 = vk::any();
    config.initial_mtu(initial);
    if vk::any() {
        config.mtu_discovery_config(None);
    }
    let p: u16 = vk::any();
    vk::assume(p >= 1200);
    let remote = SocketAddr::new(std::net::IpAddr::V4(std::net::Ipv4Addr::new(127, 0, 0, 1)), 4433);
    let path = PathData::new(remote, vk::any(), Some(p), 1, vk::instant(0), &config);
    assert!(path.current_mtu() <= p, "new path starts above the peer's max_udp_payload_size");
    core::mem::forget(path);
}
