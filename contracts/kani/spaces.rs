// @target quinn-proto quinn-proto/src/connection/spaces.rs
// Harnesses for packet de-duplication (C04) and ACK bookkeeping (C03); child module of connection::spaces, so private fields are visible.
use super::*;
use crate::verif_vk as vk;

/// abstract membership of the RFC 4303 style window: has `p` been recorded, or is it left of the window (treated as seen)?
fn seen(d: &Dedup, p: u64) -> bool {
    if p >= d.next {
        return false;
    }
    let dist = d.next - 1 - p; // distance from the highest recorded number
    if dist == 0 {
        true
    } else if dist > 128 {
        true
    } else {
        (d.window >> (dist - 1)) & 1 == 1
    }
}

// @harness dedup_insert_exact props=C04 tier=quick kind=proof fn="Dedup::insert" desc="insert(p) returns exactly whether p was already recorded (or is left of the window); afterwards p is recorded; nothing recorded is forgotten; numbers inside the new window other than p keep their status"
#[cfg_attr(kani, kani::proof)]
#[cfg_attr(verif_replay, test)]
fn dedup_insert_exact() {
    let mut d = Dedup { window: vk::any(), next: vk::any() };
    vk::assume(d.next <= (1u64 << 62));
    let p: u64 = vk::any();
    vk::assume(p < (1u64 << 62));
    let q: u64 = vk::any();
    let before_p = seen(&d, p);
    let before_q = seen(&d, q);
    let old_next = d.next;
    vk::vk_cover!(before_p);
    vk::vk_cover!(!before_p);
    let dup = d.insert(p);
    vk::vk_cover!(true);
    assert!(dup == before_p, "insert must report a duplicate exactly when the number was already seen");
    assert!(seen(&d, p), "after insert the number is recorded");
    assert!(d.next >= old_next && d.next > p, "next never decreases and is above every recorded number");
    assert!(!before_q || seen(&d, q), "a recorded number is never forgotten");
    // frame: a different number still inside the window keeps its status
    assert!(q == p || q >= d.next || (d.next - 1 - q) > 128 || seen(&d, q) == before_q, "insert must not mark other numbers as seen");
}
