// @target quinn-proto quinn-proto/src/connection/streams/state.rs
// C06 glue that lives in hash-map code (outside the Verus subset): bounded stand-ins on the real StreamsState with ONE remote stream.
// FxHashMap operations cost minutes each in CBMC, so these run in the thorough tier only and are never counted as proved.
use super::*;
use crate::verif_vk as vk;
use crate::connection::streams::RecvStream;

// @harness credit_once_stop_then_reset props=C06 tier=thorough kind=bounded bound="one remote unidirectional stream, one 32-byte STREAM frame, stop(), then RESET_STREAM with a symbolic final size" timeout=2400 fn="StreamsState::{received,received_reset}, RecvStream::stop" desc="connection-level credit is returned exactly once for discarded data: after receiving 32 bytes, stopping the stream and then receiving RESET_STREAM with final size F, local_max_data has grown by exactly F (not by F plus the 32 bytes already credited at stop)"
#[cfg_attr(kani, kani::proof)]
#[cfg_attr(kani, kani::unwind(40))]
#[cfg_attr(verif_replay, test)]
fn credit_once_stop_then_reset() {
    let window: u32 = 1000;
    let mut s = StreamsState::new(Side::Server, 1u32.into(), 0u32.into(), 1000, window.into(), window.into());
    let mut pending = Retransmits::default();
    let id = StreamId::new(Side::Client, Dir::Uni, 0);
    let before = s.local_max_data;
    let r = s.received(frame::Stream { id, offset: 0, fin: false, data: bytes::Bytes::from_static(&[7u8; 32]) }, 32);
    assert!(r.is_ok());
    {
        let mut rs = RecvStream { id, state: &mut s, pending: &mut pending };
        assert!(rs.stop(0u32.into()).is_ok());
    }
    let after_stop = s.local_max_data;
    assert!(after_stop == before + 32, "stop() credits the unread bytes");
    let f: u16 = vk::any();
    vk::assume(f >= 32 && (f as u32) <= window);
    let r = s.received_reset(frame::ResetStream { id, error_code: 0u32.into(), final_offset: (f as u32).into() });
    assert!(r.is_ok());
    assert!(s.local_max_data == before + f as u64, "credit for discarded data must be issued exactly once");
    core::mem::forget(s);
    core::mem::forget(pending);
}
