// Injected at the top of quinn-proto/src/lib.rs under cfg(kani): any `tracing` macro in the static call graph of a
// harness crashes the Kani 0.68 compiler (catch_unwind intrinsic).  Logging has no data flow into protocol state.
macro_rules! trace { ($($t:tt)*) => {{}}; }
macro_rules! debug { ($($t:tt)*) => {{}}; }
macro_rules! info  { ($($t:tt)*) => {{}}; }
macro_rules! warn  { ($($t:tt)*) => {{}}; }
macro_rules! error { ($($t:tt)*) => {{}}; }
macro_rules! trace_span { ($($t:tt)*) => {{ ::tracing::Span::none() }}; }
macro_rules! debug_span { ($($t:tt)*) => {{ ::tracing::Span::none() }}; }
macro_rules! info_span  { ($($t:tt)*) => {{ ::tracing::Span::none() }}; }
