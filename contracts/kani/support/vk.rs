//! Support module injected at the crate root of the scratch copy (cfg(kani) or cfg(verif_replay) only).
//! The same harness source runs (a) under Kani with symbolic inputs and (b) as a plain #[test] with the
//! repository's own toolchain on the concrete values of a Kani counterexample (`--cfg verif_replay`).
#![allow(dead_code)]

#[cfg(kani)]
pub(crate) fn any<T: kani::Arbitrary>() -> T {
    kani::any()
}
#[cfg(kani)]
pub(crate) fn assume(c: bool) {
    kani::assume(c)
}
/// reachability marker: must be SATISFIED (vacuity guard)
#[cfg(kani)]
macro_rules! vk_cover { ($($t:tt)*) => { kani::cover!($($t)*) }; }
#[cfg(not(kani))]
macro_rules! vk_cover { ($($t:tt)*) => { {} }; }
pub(crate) use vk_cover;

#[cfg(all(verif_replay, not(kani)))]
mod replay {
    use std::cell::RefCell;
    thread_local! {
        static VALS: RefCell<Option<std::collections::VecDeque<Vec<u8>>>> = const { RefCell::new(None) };
    }
    fn load() -> std::collections::VecDeque<Vec<u8>> {
        let path = std::env::var("VERIF_REPLAY_VALUES").expect("VERIF_REPLAY_VALUES not set");
        let text = std::fs::read_to_string(path).expect("cannot read replay values");
        // format: one value per line, bytes as decimal numbers separated by spaces (little endian)
        text.lines()
            .filter(|l| !l.trim().is_empty() && !l.starts_with('#'))
            .map(|l| l.split_whitespace().map(|b| b.parse::<u8>().expect("byte")).collect())
            .collect()
    }
    pub(crate) fn next(n: usize) -> Vec<u8> {
        VALS.with(|v| {
            let mut v = v.borrow_mut();
            if v.is_none() {
                *v = Some(load());
            }
            let mut b = v.as_mut().unwrap().pop_front().expect("replay: ran out of recorded values");
            assert!(b.len() <= n || b[n..].iter().all(|x| *x == 0), "replay: value wider than requested type");
            b.resize(n, 0);
            b
        })
    }
}

#[cfg(all(verif_replay, not(kani)))]
pub(crate) trait VkAny: Sized {
    fn vk_any() -> Self;
}
#[cfg(all(verif_replay, not(kani)))]
macro_rules! impl_int {
    ($($t:ty),*) => {$(
        impl VkAny for $t {
            fn vk_any() -> Self {
                let b = replay::next(core::mem::size_of::<$t>());
                let mut a = [0u8; core::mem::size_of::<$t>()];
                a.copy_from_slice(&b);
                <$t>::from_le_bytes(a)
            }
        }
    )*};
}
#[cfg(all(verif_replay, not(kani)))]
impl_int!(u8, u16, u32, u64, u128, usize, i8, i16, i32, i64, i128, isize);
#[cfg(all(verif_replay, not(kani)))]
impl VkAny for bool {
    fn vk_any() -> Self {
        replay::next(1)[0] != 0
    }
}
#[cfg(all(verif_replay, not(kani)))]
impl<const N: usize> VkAny for [u8; N] {
    fn vk_any() -> Self {
        // Kani records arrays element by element
        let mut a = [0u8; N];
        for x in a.iter_mut() {
            *x = replay::next(1)[0];
        }
        a
    }
}
#[cfg(all(verif_replay, not(kani)))]
pub(crate) fn any<T: VkAny>() -> T {
    T::vk_any()
}
/// under replay an unmet assumption means the recorded values do not belong to this harness: stop quietly
#[cfg(all(verif_replay, not(kani)))]
pub(crate) fn assume(c: bool) {
    if !c {
        println!("VERIF-REPLAY: assumption not met by the recorded values - replay void");
        std::process::exit(0);
    }
}

/// An `Instant` at a whole number of seconds.  `Instant::now()` is a clock_gettime FFI call (unsupported by Kani, and
/// nondeterministic under replay); std's unix `Instant` is `{ tv_sec: i64, tv_nsec: u32 }`.  Whole seconds only:
/// symbolic nanoseconds make `Duration` arithmetic intractable for CBMC.
pub(crate) fn instant(secs: u32) -> std::time::Instant {
    #[repr(C)]
    struct RawTs {
        secs: i64,
        nanos: u32,
    }
    const _: () = assert!(core::mem::size_of::<RawTs>() == core::mem::size_of::<std::time::Instant>());
    let base = unsafe { core::mem::transmute::<RawTs, std::time::Instant>(RawTs { secs: 1_000_000, nanos: 0 }) };
    let t = unsafe { core::mem::transmute::<RawTs, std::time::Instant>(RawTs { secs: 1_000_000 + secs as i64, nanos: 0 }) };
    #[cfg(not(kani))]
    assert!(t.duration_since(base) == core::time::Duration::from_secs(secs as u64), "Instant layout assumption broken");
    let _ = base;
    t
}
