// @target quinn-proto quinn-proto/src/token.rs
// C14: the server-side decision about an address-validation / Retry token, with the AEAD abstracted to the identity (authenticity of
// the AEAD is assumed; what is proved is everything the library itself decides once a token decrypts): payload codec round trip and
// the exact decision table of IncomingToken::from_header.
use super::*;
use crate::crypto::{self, AeadKey, CryptoError, Keys, UnsupportedVersion};
use crate::verif_vk as vk;
use crate::{TimeSource, TransportConfig, transport_parameters::TransportParameters};
use std::sync::Arc;
use std::sync::atomic::{AtomicU32, Ordering};

struct IdentityAead;
impl AeadKey for IdentityAead {
    fn seal(&self, _d: &mut Vec<u8>, _a: &[u8]) -> Result<(), CryptoError> {
        Ok(())
    }
    fn open<'a>(&self, data: &'a mut [u8], _a: &[u8]) -> Result<&'a mut [u8], CryptoError> {
        Ok(data)
    }
}
struct IdentityKey;
impl HandshakeTokenKey for IdentityKey {
    fn aead_from_hkdf(&self, _r: &[u8]) -> Box<dyn AeadKey> {
        Box::new(IdentityAead)
    }
}
struct FixedTime(u64);
impl TimeSource for FixedTime {
    fn now(&self) -> SystemTime {
        UNIX_EPOCH + Duration::from_secs(self.0)
    }
}
/// replay log mock: a fixed verdict, and it counts how often it is consulted
struct CountingLog {
    accept: bool,
    calls: AtomicU32,
}
impl TokenLog for CountingLog {
    fn check_and_insert(&self, _n: u128, _i: SystemTime, _l: Duration) -> Result<(), TokenReuseError> {
        self.calls.fetch_add(1, Ordering::Relaxed);
        if self.accept { Ok(()) } else { Err(TokenReuseError) }
    }
}
struct NoCrypto;
impl crypto::ServerConfig for NoCrypto {
    fn initial_keys(&self, _v: u32, _d: ConnectionId) -> Result<Keys, UnsupportedVersion> {
        Err(UnsupportedVersion)
    }
    fn retry_tag(&self, _v: u32, _o: ConnectionId, _p: &[u8]) -> [u8; 16] {
        [0; 16]
    }
    fn start_session(self: Arc<Self>, _v: u32, _p: &TransportParameters) -> Box<dyn crypto::Session> {
        unreachable!()
    }
}

fn any_ip() -> IpAddr {
    if vk::any() { IpAddr::V4(std::net::Ipv4Addr::from(vk::any::<[u8; 4]>())) } else { IpAddr::V6(std::net::Ipv6Addr::from(vk::any::<[u8; 16]>())) }
}

fn config(now: u64, retry_life: u64, val_life: u64, log: Arc<CountingLog>) -> ServerConfig {
    ServerConfig {
        transport: Arc::new(TransportConfig::default()),
        crypto: Arc::new(NoCrypto),
        validation_token: crate::ValidationTokenConfig { lifetime: Duration::from_secs(val_life), log, sent: 0 },
        token_key: Arc::new(IdentityKey),
        retry_token_lifetime: Duration::from_secs(retry_life),
        migration: true,
        preferred_address_v4: None,
        preferred_address_v6: None,
        max_incoming: 1,
        incoming_buffer_size: 1,
        incoming_buffer_size_total: 1,
        time_source: Arc::new(FixedTime(now)),
    }
}

/// wire image of a token as Token::encode produces it under the identity AEAD: payload followed by the 16-byte nonce
/// (the equality of this layout with Token::encode is itself checked by harness token_encode_layout)
fn put_ip(buf: &mut [u8; 64], at: &mut usize, ip: IpAddr) {
    match ip {
        IpAddr::V4(x) => {
            buf[*at] = 0;
            buf[*at + 1..*at + 5].copy_from_slice(&x.octets());
            *at += 5;
        }
        IpAddr::V6(x) => {
            buf[*at] = 1;
            buf[*at + 1..*at + 17].copy_from_slice(&x.octets());
            *at += 17;
        }
    }
}
fn retry_wire(address: SocketAddr, odcid: &[u8; 8], issued: u64, nonce: u128) -> ([u8; 64], usize) {
    let mut b = [0u8; 64];
    let mut at = 1; // b[0] = TokenType::Retry = 0
    put_ip(&mut b, &mut at, address.ip());
    b[at..at + 2].copy_from_slice(&address.port().to_be_bytes());
    at += 2;
    b[at] = 8;
    b[at + 1..at + 9].copy_from_slice(odcid);
    at += 9;
    b[at..at + 8].copy_from_slice(&issued.to_be_bytes());
    at += 8;
    b[at..at + 16].copy_from_slice(&nonce.to_le_bytes());
    (b, at + 16)
}
fn validation_wire(ip: IpAddr, issued: u64, nonce: u128) -> ([u8; 64], usize) {
    let mut b = [0u8; 64];
    b[0] = 1; // TokenType::Validation
    let mut at = 1;
    put_ip(&mut b, &mut at, ip);
    b[at..at + 8].copy_from_slice(&issued.to_be_bytes());
    at += 8;
    b[at..at + 16].copy_from_slice(&nonce.to_le_bytes());
    (b, at + 16)
}
fn any_v4() -> IpAddr {
    IpAddr::V4(std::net::Ipv4Addr::from(vk::any::<[u8; 4]>()))
}

// @harness token_retry_decision props=C14 tier=quick kind=proof timeout=900 fn="IncomingToken::from_header, Token::decode" desc="a genuine Retry token (any IPv4 issuing address and port, any original DCID, any issue time) presented from any IPv4 address/port at any time: validated iff presented from exactly the issuing address AND port and within its lifetime, then with the original DCID it carried; every other presentation is INVALID_TOKEN (Err), never 'unvalidated'; the replay log is never consulted"
#[cfg_attr(kani, kani::proof)]
#[cfg_attr(kani, kani::unwind(34))]
#[cfg_attr(verif_replay, test)]
fn token_retry_decision() {
    let now: u64 = vk::any();
    let retry_life: u64 = vk::any();
    let issued: u64 = vk::any();
    // whole-second times far from the end of the representable range (SystemTime + Duration panics on overflow)
    vk::assume(now < (1u64 << 40) && retry_life < (1u64 << 32) && issued < (1u64 << 40));
    let log = Arc::new(CountingLog { accept: vk::any(), calls: AtomicU32::new(0) });
    let cfg = config(now, retry_life, 1000, log.clone());
    let address = SocketAddr::new(any_v4(), vk::any());
    let odcid_bytes: [u8; 8] = vk::any();
    let odcid = ConnectionId::new(&odcid_bytes);
    let (wire, n) = retry_wire(address, &odcid_bytes, issued, vk::any());
    let dst = ConnectionId::new(&[9; 8]);
    let header = InitialHeader { dst_cid: dst, src_cid: ConnectionId::new(&[8; 8]), token: Bytes::copy_from_slice(&wire[..n]), number: crate::packet::PacketNumber::U8(0), version: 1 };
    let remote = SocketAddr::new(any_v4(), vk::any());
    let fresh = issued + retry_life >= now;
    vk::vk_cover!(remote == address && fresh);
    vk::vk_cover!(remote.ip() == address.ip() && remote.port() != address.port());
    match IncomingToken::from_header(&header, &cfg, remote) {
        Ok(t) => {
            assert!(remote == address, "Retry token accepted from an address other than the one it was issued to (address AND port)");
            assert!(fresh, "expired Retry token accepted");
            assert!(t.validated && t.retry_src_cid == Some(dst) && t.orig_dst_cid == odcid, "validated Retry token must carry the original DCID");
        }
        Err(_) => assert!(remote != address || !fresh, "genuine, fresh Retry token from the right address refused"),
    }
    assert!(log.calls.load(Ordering::Relaxed) == 0, "the NEW_TOKEN replay log is not for Retry tokens");
    core::mem::forget(cfg);
    core::mem::forget(header);
}

// @harness token_validation_decision props=C14 tier=quick kind=proof timeout=900 fn="IncomingToken::from_header, Token::decode" desc="a genuine NEW_TOKEN token (any IPv4 issuing address, any issue time) presented from any IPv4 address/port at any time with any replay-log verdict: validated iff same IP (port free), within its lifetime and accepted by the replay log; otherwise treated as absent (Ok, unvalidated) and never an error; the log is consulted exactly when the address and lifetime checks passed"
#[cfg_attr(kani, kani::proof)]
#[cfg_attr(kani, kani::unwind(34))]
#[cfg_attr(verif_replay, test)]
fn token_validation_decision() {
    let now: u64 = vk::any();
    let val_life: u64 = vk::any();
    let issued: u64 = vk::any();
    vk::assume(now < (1u64 << 40) && val_life < (1u64 << 32) && issued < (1u64 << 40));
    let accept: bool = vk::any();
    let log = Arc::new(CountingLog { accept, calls: AtomicU32::new(0) });
    let cfg = config(now, 15, val_life, log.clone());
    let ip = any_v4();
    let (wire, n) = validation_wire(ip, issued, vk::any());
    let dst = ConnectionId::new(&[9; 8]);
    let header = InitialHeader { dst_cid: dst, src_cid: ConnectionId::new(&[8; 8]), token: Bytes::copy_from_slice(&wire[..n]), number: crate::packet::PacketNumber::U8(0), version: 1 };
    let remote = SocketAddr::new(any_v4(), vk::any());
    let fresh = issued + val_life >= now;
    let eligible = remote.ip() == ip && fresh;
    vk::vk_cover!(eligible && accept);
    match IncomingToken::from_header(&header, &cfg, remote) {
        Ok(t) => {
            assert!(t.validated == (eligible && accept), "NEW_TOKEN token: validated iff same IP, fresh and not seen before");
            assert!(t.retry_src_cid.is_none() && t.orig_dst_cid == dst);
        }
        Err(_) => panic!("a NEW_TOKEN token must never produce INVALID_TOKEN"),
    }
    let calls = log.calls.load(Ordering::Relaxed);
    assert!(calls == if eligible { 1 } else { 0 }, "replay log consulted exactly when the address and lifetime checks passed");
    core::mem::forget(cfg);
    core::mem::forget(header);
}

// @harness token_garbage_is_absent props=C14,C03 tier=quick kind=proof timeout=900 fn="IncomingToken::from_header, Token::decode" desc="an undecodable token - shorter than nonce + type byte, or whose (decrypted) type byte is neither Retry nor Validation, or whose address family tag is unknown - is treated as absent: Ok(unvalidated), never an error, never a panic, for every content of up to 28 bytes"
#[cfg_attr(kani, kani::proof)]
#[cfg_attr(kani, kani::unwind(32))]
#[cfg_attr(verif_replay, test)]
fn token_garbage_is_absent() {
    let log = Arc::new(CountingLog { accept: true, calls: AtomicU32::new(0) });
    let cfg = config(1_000_000, 15, 1000, log.clone());
    let raw: [u8; 28] = vk::any();
    let len: usize = vk::any();
    vk::assume(len <= 28);
    // the three undecodable classes (a token that decodes to a well-formed payload under the server's key is a genuine one)
    vk::assume(len < 17 || raw[0] > 1 || (len >= 18 && raw[1] > 1));
    let dst = ConnectionId::new(&[9; 8]);
    let header = InitialHeader { dst_cid: dst, src_cid: ConnectionId::new(&[8; 8]), token: Bytes::copy_from_slice(&raw[..len]), number: crate::packet::PacketNumber::U8(0), version: 1 };
    let remote = SocketAddr::new(IpAddr::V4(std::net::Ipv4Addr::new(10, 0, 0, 1)), 4433);
    match IncomingToken::from_header(&header, &cfg, remote) {
        Ok(t) => assert!(!t.validated && t.retry_src_cid.is_none() && t.orig_dst_cid == dst, "undecodable token must be treated as absent"),
        Err(_) => panic!("undecodable token must not end the attempt"),
    }
    assert!(log.calls.load(Ordering::Relaxed) == 0);
    core::mem::forget(cfg);
    core::mem::forget(header);
}

// @harness token_trailing_bytes_is_absent props=C14,C03 tier=quick kind=proof timeout=900 fn="IncomingToken::from_header, Token::decode" desc="a genuine token (Retry or NEW_TOKEN, fresh, presented from the issuing address) whose authenticated payload carries one extra byte after the last field is undecodable: treated as absent (Ok, unvalidated), the replay log is not consulted, never an error"
#[cfg_attr(kani, kani::proof)]
#[cfg_attr(kani, kani::unwind(70))]
#[cfg_attr(verif_replay, test)]
fn token_trailing_bytes_is_absent() {
    let log = Arc::new(CountingLog { accept: true, calls: AtomicU32::new(0) });
    let cfg = config(1_000, 15, 1000, log.clone());
    let address = SocketAddr::new(IpAddr::V4(std::net::Ipv4Addr::new(192, 0, 2, 7)), 0x1234);
    let odcid_bytes = [1u8, 2, 3, 4, 5, 6, 7, 8];
    let (wire, n) = if vk::any() { retry_wire(address, &odcid_bytes, 999, 7) } else { validation_wire(address.ip(), 999, 7) };
    // payload ++ [extra] ++ nonce: the nonce is the last 16 bytes of a token
    let mut raw = [0u8; 66];
    let mut i = 0;
    while i < n - 16 {
        raw[i] = wire[i];
        i += 1;
    }
    raw[n - 16] = vk::any();
    let mut j = 0;
    while j < 16 {
        raw[n - 15 + j] = wire[n - 16 + j];
        j += 1;
    }
    let dst = ConnectionId::new(&[9; 8]);
    let header = InitialHeader { dst_cid: dst, src_cid: ConnectionId::new(&[8; 8]), token: Bytes::copy_from_slice(&raw[..n + 1]), number: crate::packet::PacketNumber::U8(0), version: 1 };
    match IncomingToken::from_header(&header, &cfg, address) {
        Ok(t) => assert!(!t.validated && t.retry_src_cid.is_none() && t.orig_dst_cid == dst, "a token with trailing bytes must be treated as absent"),
        Err(_) => panic!("a token with trailing bytes must not end the attempt"),
    }
    assert!(log.calls.load(Ordering::Relaxed) == 0);
    core::mem::forget(cfg);
    core::mem::forget(header);
}

// @harness token_encode_layout props=C14,C10 tier=quick kind=proof timeout=900 fn="Token::encode" desc="the wire layout the decision harnesses feed to from_header is exactly what Token::encode produces (identity AEAD) - checked on one Retry token (IPv4) and one NEW_TOKEN token (IPv6) with distinct field values; ties the harness-built wire images to the real encoder"
#[cfg_attr(kani, kani::proof)]
#[cfg_attr(kani, kani::unwind(70))]
#[cfg_attr(verif_replay, test)]
fn token_encode_layout() {
    let address = SocketAddr::new(IpAddr::V4(std::net::Ipv4Addr::new(192, 0, 2, 7)), 0x1234);
    let odcid_bytes = [1u8, 2, 3, 4, 5, 6, 7, 8];
    let t = Token { payload: TokenPayload::Retry { address, orig_dst_cid: ConnectionId::new(&odcid_bytes), issued: UNIX_EPOCH + Duration::from_secs(0x0102_0304_05) }, nonce: 0x0f0e_0d0c_0b0a_0908_0706_0504_0302_0100 };
    let real = t.encode(&IdentityKey);
    let (wire, n) = retry_wire(address, &odcid_bytes, 0x0102_0304_05, 0x0f0e_0d0c_0b0a_0908_0706_0504_0302_0100);
    assert!(real.len() == n);
    let mut i = 0;
    while i < n {
        assert!(real[i] == wire[i], "Retry token layout differs from Token::encode");
        i += 1;
    }
    let ip = IpAddr::V6(std::net::Ipv6Addr::new(0x2001, 0xdb8, 1, 2, 3, 4, 5, 6));
    let t = Token { payload: TokenPayload::Validation { ip, issued: UNIX_EPOCH + Duration::from_secs(77) }, nonce: 5 };
    let real = t.encode(&IdentityKey);
    let (wire, n) = validation_wire(ip, 77, 5);
    assert!(real.len() == n);
    let mut i = 0;
    while i < n {
        assert!(real[i] == wire[i], "NEW_TOKEN token layout differs from Token::encode");
        i += 1;
    }
}
