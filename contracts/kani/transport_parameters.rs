// @target quinn-proto quinn-proto/src/transport_parameters.rs
// Totality of the transport-parameter decoder on peer-supplied bytes (C03); child module of transport_parameters.
use super::*;
use crate::verif_vk as vk;

fn tp_read_case<const N: usize>() {
    let data: [u8; N] = vk::any();
    let len: usize = vk::any();
    vk::assume(len <= N);
    let server: bool = vk::any();
    let side = if server { Side::Server } else { Side::Client };
    let mut r = &data[..len];
    // max_ack_delay (id 0x0b) with an 8-byte varint value is reachable
    vk::vk_cover!(len >= 10 && data[0] == 0x0b && data[1] == 0x08 && data[2] >= 0xc0);
    let res = TransportParameters::read(side, &mut r);
    match res {
        Ok(p) => {
            // the semantic validation that read() promises (RFC 9000 section 18.2)
            assert!(p.ack_delay_exponent.into_inner() <= 20);
            assert!(p.max_ack_delay.into_inner() < (1 << 14));
            assert!(p.active_connection_id_limit.into_inner() >= 2);
            assert!(p.max_udp_payload_size.into_inner() >= 1200);
            core::mem::forget(p);
        }
        Err(_) => {}
    }
}

// @harness transport_parameters_read_total_10 props=C03 tier=thorough kind=attempt bound="byte strings of at most 10 bytes (one parameter with an 8-byte value, or up to five short ones)" timeout=1500 fn="TransportParameters::read" desc="for every byte string of 0..=10 bytes and either side: decoding the peer's transport parameters never panics (no overflow in the validation arithmetic, no read past the end); accepted parameters satisfy the range checks of RFC 9000 section 18.2"
#[cfg_attr(kani, kani::proof)]
#[cfg_attr(kani, kani::unwind(12))]
#[cfg_attr(verif_replay, test)]
fn transport_parameters_read_total_10() {
    tp_read_case::<10>();
}

// ---- PreferredAddress (transport parameter 0x0d): fixed layout, so every value and every input length that matters fits a harness ----

fn any_preferred_address() -> PreferredAddress {
    any_preferred_address_cid(None)
}

fn any_preferred_address_cid(fixed_len: Option<usize>) -> PreferredAddress {
    let v4 = if vk::any() {
        Some(SocketAddrV4::new(Ipv4Addr::from(vk::any::<[u8; 4]>()), vk::any()))
    } else {
        None
    };
    let v6 = if vk::any() {
        Some(SocketAddrV6::new(Ipv6Addr::from(vk::any::<[u8; 16]>()), vk::any(), 0, 0))
    } else {
        None
    };
    let cid_bytes: [u8; MAX_CID_SIZE] = vk::any();
    let cid_len: usize = match fixed_len {
        Some(n) => n,
        None => vk::any(),
    };
    vk::assume(cid_len <= MAX_CID_SIZE);
    PreferredAddress {
        address_v4: v4,
        address_v6: v6,
        connection_id: ConnectionId::new(&cid_bytes[..cid_len]),
        stateless_reset_token: vk::any::<[u8; RESET_TOKEN_SIZE]>().into(),
    }
}

// @harness preferred_address_roundtrip_cid8 props=C10 tier=quick kind=proof timeout=900 fn="PreferredAddress::{write,read,wire_size}, Codec for Ipv4Addr / Ipv6Addr / u16 / u8" desc="the round trip below for connection IDs of exactly 8 bytes (the length quinn issues by default); the harness over every length is in the thorough tier because its SAT query takes about 15 minutes"
#[cfg_attr(kani, kani::proof)]
#[cfg_attr(kani, kani::unwind(24))]
#[cfg_attr(verif_replay, test)]
fn preferred_address_roundtrip_cid8() {
    pa_roundtrip(any_preferred_address_cid(Some(8)));
}

// @harness preferred_address_roundtrip props=C10 tier=thorough kind=attempt bound="none (every connection-ID length 0..=20); the SAT query takes about 15 minutes alone and does not always finish next to the other thorough-tier harnesses, so it runs as an attempt under a time cap" timeout=2400 fn="PreferredAddress::{write,read,wire_size}, Codec for Ipv4Addr / Ipv6Addr / u16 / u8" desc="for every preferred address (either or both families, any addresses and ports other than the all-zero address with port 0 that encodes absence, connection IDs of 0..=20 bytes, any reset token): write produces exactly wire_size() bytes and read decodes them back to the same value, consuming all of them"
#[cfg_attr(kani, kani::proof)]
#[cfg_attr(kani, kani::unwind(24))]
#[cfg_attr(verif_replay, test)]
fn preferred_address_roundtrip() {
    pa_roundtrip(any_preferred_address());
}

fn pa_roundtrip(pa: PreferredAddress) {
    // the all-zero address with port 0 is how an absent family is encoded, and a preferred address with neither family is illegal
    vk::assume(pa.address_v4.is_some() || pa.address_v6.is_some());
    if let Some(a) = pa.address_v4 {
        vk::assume(!(a.ip().is_unspecified() && a.port() == 0));
    }
    if let Some(a) = pa.address_v6 {
        vk::assume(!(a.ip().is_unspecified() && a.port() == 0));
    }
    let mut buf = Vec::with_capacity(64);
    pa.write(&mut buf);
    assert!(buf.len() == pa.wire_size() as usize, "wire_size differs from what write produces");
    let mut r = &buf[..];
    match PreferredAddress::read(&mut r) {
        Ok(back) => {
            assert!(back == pa, "decoded preferred address differs from the encoded one");
            assert!(r.is_empty(), "decoder left bytes of the encoding unread");
        }
        Err(_) => panic!("the encoding of a legal preferred address was rejected"),
    }
    core::mem::forget(buf);
}

fn pa_read_case<const N: usize>() {
    let data: [u8; N] = vk::any();
    let len: usize = vk::any();
    vk::assume(len <= N);
    let mut r = &data[..len];
    match PreferredAddress::read(&mut r) {
        Ok(pa) => {
            let cid_len = data[24] as usize;
            assert!(cid_len <= MAX_CID_SIZE && pa.connection_id.len() == cid_len);
            assert!(len >= 41 + cid_len && r.len() == len - (41 + cid_len), "consumed a different number of bytes than the layout says");
            assert!(pa.address_v4.is_some() || pa.address_v6.is_some());
        }
        Err(_) => {}
    }
}

// @harness preferred_address_read_total_64 props=C03,C10 tier=quick kind=bounded bound="inputs of at most 64 bytes (the decoder never looks at more than 61: 4+2+16+2+1+20+16)" timeout=900 fn="PreferredAddress::read, Codec for Ipv4Addr / Ipv6Addr" desc="for every byte string of 0..=64 bytes: PreferredAddress::read never panics or reads past the end; on success it consumed exactly 41 + (connection-ID length) bytes; a string shorter than that is rejected"
#[cfg_attr(kani, kani::proof)]
#[cfg_attr(kani, kani::unwind(24))]
#[cfg_attr(verif_replay, test)]
fn preferred_address_read_total_64() {
    pa_read_case::<64>();
}

// @harness codec_ip_decode_total props=C03,C10 tier=quick kind=bounded bound="inputs of at most 18 bytes (the decoders look at 4 and 16 bytes)" timeout=600 fn="Codec for Ipv4Addr::decode, Codec for Ipv6Addr::decode" desc="for every byte string of 0..=18 bytes: decoding an IPv4 / IPv6 address fails exactly when fewer than 4 / 16 bytes are left, never panics, and consumes exactly 4 / 16 bytes with the octets in order"
#[cfg_attr(kani, kani::proof)]
#[cfg_attr(kani, kani::unwind(20))]
#[cfg_attr(verif_replay, test)]
fn codec_ip_decode_total() {
    let data: [u8; 18] = vk::any();
    let len: usize = vk::any();
    vk::assume(len <= 18);
    let mut r = &data[..len];
    if vk::any() {
        match <Ipv4Addr as crate::coding::Codec>::decode(&mut r) {
            Ok(ip) => assert!(len >= 4 && r.len() == len - 4 && ip.octets() == [data[0], data[1], data[2], data[3]]),
            Err(_) => assert!(len < 4),
        }
    } else {
        match <Ipv6Addr as crate::coding::Codec>::decode(&mut r) {
            Ok(ip) => assert!(len >= 16 && r.len() == len - 16 && ip.octets()[0] == data[0] && ip.octets()[15] == data[15]),
            Err(_) => assert!(len < 16),
        }
    }
}
