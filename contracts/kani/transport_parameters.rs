// @target quinn-proto quinn-proto/src/transport_parameters.rs
// Totality of the transport-parameter decoder on peer-supplied bytes (C03); child module of transport_parameters.
use super::*;
use crate::verif_vk as vk;

fn tp_read_case<const N: usize>() {
    let data: [u8; N] = vk::any();
    let len: usize = vk::any();
    vk::assume(len <= N);
    let server: bool = vk::any();
    let side = if server { Side::Server } else { Side::Client };
    let mut r = &data[..len];
    // max_ack_delay (id 0x0b) with an 8-byte varint value is reachable
    vk::vk_cover!(len >= 10 && data[0] == 0x0b && data[1] == 0x08 && data[2] >= 0xc0);
    let res = TransportParameters::read(side, &mut r);
    match res {
        Ok(p) => {
            // the semantic validation that read() promises (RFC 9000 section 18.2)
            assert!(p.ack_delay_exponent.into_inner() <= 20);
            assert!(p.max_ack_delay.into_inner() < (1 << 14));
            assert!(p.active_connection_id_limit.into_inner() >= 2);
            assert!(p.max_udp_payload_size.into_inner() >= 1200);
            core::mem::forget(p);
        }
        Err(_) => {}
    }
}

// @harness transport_parameters_read_total_10 props=C03 tier=thorough kind=attempt bound="byte strings of at most 10 bytes (one parameter with an 8-byte value, or up to five short ones)" timeout=1500 fn="TransportParameters::read" desc="for every byte string of 0..=10 bytes and either side: decoding the peer's transport parameters never panics (no overflow in the validation arithmetic, no read past the end); accepted parameters satisfy the range checks of RFC 9000 section 18.2"
#[cfg_attr(kani, kani::proof)]
#[cfg_attr(kani, kani::unwind(12))]
#[cfg_attr(verif_replay, test)]
fn transport_parameters_read_total_10() {
    tp_read_case::<10>();
}
