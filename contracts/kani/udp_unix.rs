// @target quinn-udp quinn-udp/src/unix.rs
// C19: control-message encoding and decoding on Linux stay inside the 96-byte control buffer for every combination of options and
// convey ECN codepoint, segment size and source address; the unsafe pointer code (ptr::write / ptr::read / CMSG_NXTHDR) is checked
// by CBMC's pointer checks on the real functions.
use super::*;
use crate::verif_vk as vk;

fn any_ecn() -> Option<EcnCodepoint> {
    match vk::any::<u8>() % 4 {
        0 => None,
        1 => Some(EcnCodepoint::Ect0),
        2 => Some(EcnCodepoint::Ect1),
        _ => Some(EcnCodepoint::Ce),
    }
}
fn any_ip() -> IpAddr {
    if vk::any() { IpAddr::V4(Ipv4Addr::from(vk::any::<[u8; 4]>())) } else { IpAddr::V6(Ipv6Addr::from(vk::any::<[u8; 16]>())) }
}

// @harness udp_prepare_msg_roundtrip props=C19 tier=quick kind=proof timeout=900 fn="prepare_msg, cmsg::Encoder::push, cmsg::Iter::next, cmsg::decode" desc="for every Transmit (ECN none/ECT0/ECT1/CE, destination v4 / v6 / v4-mapped, source address none/v4/v6, any segment size, EINVAL fallback on/off): the control messages fit the 96-byte buffer (no assert in Encoder::push fires, all pointer writes in bounds) and walking them back yields exactly the ECN codepoint, the effective segment size and the source address that were requested - each decoded with the width the send side pushed"
#[cfg_attr(kani, kani::proof)]
#[cfg_attr(kani, kani::unwind(20))]
#[cfg_attr(verif_replay, test)]
fn udp_prepare_msg_roundtrip() {
    let contents = [0u8; 32];
    let dst = SocketAddr::new(any_ip(), vk::any());
    let seg: Option<usize> = if vk::any() { Some(vk::any()) } else { None };
    if let Some(s) = seg {
        // max_gso_segments * segment_size is bounded by the 64 KiB UDP limit in UdpSocketState::send
        vk::assume(s >= 1 && s <= u16::MAX as usize);
    }
    let src_ip = if vk::any() { Some(any_ip()) } else { None };
    let ecn = any_ecn();
    let t = Transmit { destination: dst, ecn, contents: &contents, segment_size: seg, src_ip };
    let dst_addr = socket2::SockAddr::from(dst);
    let mut hdr: libc::msghdr = unsafe { mem::zeroed() };
    let mut iov: libc::iovec = unsafe { mem::zeroed() };
    let mut ctrl = cmsg::Aligned([0u8; cmsg::LEN]);
    let einval: bool = vk::any();
    prepare_msg(&t, &dst_addr, &mut hdr, &mut iov, &mut ctrl, true, einval);
    assert!(hdr.msg_controllen as usize <= cmsg::LEN, "control length beyond the control buffer");
    assert!(iov.iov_len == 32 && hdr.msg_iovlen == 1, "payload boundary");
    let is_v4 = dst.is_ipv4() || matches!(dst.ip(), IpAddr::V6(a) if a.to_ipv4_mapped().is_some());
    let mut ecn_seen: Option<libc::c_int> = None;
    let mut seg_seen: Option<u16> = None;
    let mut src_seen: Option<IpAddr> = None;
    let mut count = 0;
    if hdr.msg_controllen > 0 {
        let it = unsafe { cmsg::Iter::new(&hdr) };
        for c in it {
            count += 1;
            match (c.cmsg_level, c.cmsg_type) {
                (libc::IPPROTO_IP, libc::IP_TOS) => ecn_seen = Some(unsafe { cmsg::decode::<IpTosTy, libc::cmsghdr>(c) } as libc::c_int),
                (libc::IPPROTO_IPV6, libc::IPV6_TCLASS) => ecn_seen = Some(unsafe { cmsg::decode::<libc::c_int, libc::cmsghdr>(c) }),
                (libc::SOL_UDP, libc::UDP_SEGMENT) => seg_seen = Some(unsafe { cmsg::decode::<u16, libc::cmsghdr>(c) }),
                (libc::IPPROTO_IP, libc::IP_PKTINFO) => {
                    let p = unsafe { cmsg::decode::<libc::in_pktinfo, libc::cmsghdr>(c) };
                    src_seen = Some(IpAddr::V4(Ipv4Addr::from(p.ipi_spec_dst.s_addr.to_ne_bytes())));
                }
                (libc::IPPROTO_IPV6, libc::IPV6_PKTINFO) => {
                    let p = unsafe { cmsg::decode::<libc::in6_pktinfo, libc::cmsghdr>(c) };
                    src_seen = Some(IpAddr::V6(Ipv6Addr::from(p.ipi6_addr.s6_addr)));
                }
                _ => panic!("unexpected control message"),
            }
        }
    }
    vk::vk_cover!(count == 3);
    // ECN: conveyed unless this is the IPv4 EINVAL fallback (then no TOS message at all)
    if is_v4 && einval {
        assert!(ecn_seen.is_none());
    } else {
        assert!(ecn_seen == Some(ecn.map_or(0, |x| x as libc::c_int)), "ECN codepoint not conveyed");
        assert!(EcnCodepoint::from_bits(ecn_seen.unwrap() as u8) == ecn);
    }
    assert!(seg_seen.map(|x| x as usize) == t.effective_segment_size(), "segment size not conveyed");
    assert!(src_seen == src_ip, "source address not conveyed");
    let expected = (if is_v4 && einval { 0 } else { 1 }) + (if seg_seen.is_some() { 1 } else { 0 }) + (if src_ip.is_some() { 1 } else { 0 });
    assert!(count == expected, "unexpected number of control messages");
}

// @harness udp_effective_segment_size props=C19 tier=quick kind=proof fn="Transmit::effective_segment_size" desc="a segment size is passed to the kernel only when it actually splits the payload (size < len); otherwise a plain send"
#[cfg_attr(kani, kani::proof)]
#[cfg_attr(verif_replay, test)]
fn udp_effective_segment_size() {
    let contents = [0u8; 40];
    let len: usize = vk::any();
    vk::assume(len <= 40);
    let seg: Option<usize> = if vk::any() { Some(vk::any()) } else { None };
    let t = Transmit { destination: SocketAddr::new(IpAddr::V4(Ipv4Addr::UNSPECIFIED), 1), ecn: None, contents: &contents[..len], segment_size: seg, src_ip: None };
    let e = t.effective_segment_size();
    match seg {
        Some(s) if s < len => assert!(e == Some(s)),
        _ => assert!(e.is_none()),
    }
}

// @harness udp_recv_control_decode props=C19 tier=quick kind=proof timeout=900 fn="ControlMetadata::decode, cmsg::Iter, decode_recv" desc="a receive-side control buffer carrying any subset of (TOS as the kernel delivers it: one byte; IPv6 traffic class; IPv4/IPv6 pktinfo; UDP_GRO stride) decodes to exactly those values: ECN bits, destination address, interface index and the stride used to split a coalesced batch"
#[cfg_attr(kani, kani::proof)]
#[cfg_attr(kani, kani::unwind(20))]
#[cfg_attr(verif_replay, test)]
fn udp_recv_control_decode() {
    let mut hdr: libc::msghdr = unsafe { mem::zeroed() };
    let mut ctrl = cmsg::Aligned([0u8; cmsg::LEN]);
    hdr.msg_control = ctrl.0.as_mut_ptr() as _;
    hdr.msg_controllen = cmsg::LEN as _;
    let tos: u8 = vk::any();
    let v6: bool = vk::any();
    let with_info: bool = vk::any();
    let gro: Option<u16> = if vk::any() { Some(vk::any()) } else { None };
    let a4: [u8; 4] = vk::any();
    let a6: [u8; 16] = vk::any();
    let ifidx: u16 = vk::any();
    {
        let mut enc = unsafe { cmsg::Encoder::new(&mut hdr) };
        if v6 {
            enc.push(libc::IPPROTO_IPV6, libc::IPV6_TCLASS, tos as libc::c_int);
            if with_info {
                enc.push(libc::IPPROTO_IPV6, libc::IPV6_PKTINFO, libc::in6_pktinfo { ipi6_ifindex: ifidx as _, ipi6_addr: libc::in6_addr { s6_addr: a6 } });
            }
        } else {
            enc.push(libc::IPPROTO_IP, libc::IP_TOS, tos);
            if with_info {
                enc.push(libc::IPPROTO_IP, libc::IP_PKTINFO, libc::in_pktinfo { ipi_ifindex: ifidx as _, ipi_spec_dst: libc::in_addr { s_addr: 0 }, ipi_addr: libc::in_addr { s_addr: u32::from_ne_bytes(a4) } });
            }
        }
        if let Some(g) = gro {
            enc.push(libc::SOL_UDP, libc::UDP_GRO, g as libc::c_int);
        }
        enc.finish();
    }
    let mut meta = ControlMetadata { ecn_bits: 0, dst_ip: None, interface_index: None, stride: 1200, timestamp: None };
    let it = unsafe { cmsg::Iter::new(&hdr) };
    for c in it {
        meta.decode(c);
    }
    assert!(meta.ecn_bits == tos, "ECN bits");
    assert!(EcnCodepoint::from_bits(meta.ecn_bits).map_or(0, |x| x as u8) == tos & 0b11);
    if with_info {
        assert!(meta.dst_ip == Some(if v6 { IpAddr::V6(Ipv6Addr::from(a6)) } else { IpAddr::V4(Ipv4Addr::from(a4)) }), "destination address");
        assert!(meta.interface_index == Some(ifidx as u32));
    } else {
        assert!(meta.dst_ip.is_none());
    }
    assert!(meta.stride == gro.map_or(1200, |g| g as usize), "GRO stride splits the batch back into the original datagrams");
}
