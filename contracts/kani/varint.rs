// @target quinn-proto quinn-proto/src/varint.rs
// C10 + cross-tool link for the Verus units: the contract that shims::VarInt::{decode, size, from_u64} / write_var assume
// (spec function `vparse`: value < 2^62, 1/2/4/8 bytes consumed, result a function of exactly the consumed prefix) is proved here
// on the real VarInt code for every input.
use super::*;
use crate::verif_vk as vk;

/// reference: big-endian value of the first k bytes with the two tag bits cleared
fn reference(b: &[u8; 9]) -> (u64, usize) {
    let k = 1usize << (b[0] >> 6);
    let mut v: u64 = (b[0] & 0x3f) as u64;
    let mut i = 1;
    while i < k {
        v = (v << 8) | b[i] as u64;
        i += 1;
    }
    (v, k)
}

// @harness varint_decode_contract props=C10,C03 tier=quick kind=proof fn="VarInt::decode (Codec)" desc="for every buffer of 0..=9 bytes: decode fails exactly when the buffer is shorter than the length announced by the two tag bits (or empty), otherwise it yields the big-endian value of exactly that prefix (< 2^62), consumes exactly 1/2/4/8 bytes and ignores what follows (prefix determinism); never reads past the buffer"
#[cfg_attr(kani, kani::proof)]
#[cfg_attr(kani, kani::unwind(10))]
#[cfg_attr(verif_replay, test)]
fn varint_decode_contract() {
    let bytes: [u8; 9] = vk::any();
    let len: usize = vk::any();
    vk::assume(len <= 9);
    let mut r = &bytes[..len];
    let (want, k) = reference(&bytes);
    vk::vk_cover!(len == 9 && k == 8);
    match VarInt::decode(&mut r) {
        Ok(v) => {
            assert!(len >= k, "decoded from a buffer shorter than the announced length");
            assert!(len - r.len() == k, "consumed a number of bytes other than 1/2/4/8 as announced");
            assert!(v.into_inner() == want, "value is not the big-endian value of the consumed prefix");
            assert!(v.into_inner() < (1u64 << 62));
        }
        Err(_) => {
            assert!(len < k, "refused a buffer that holds a complete varint");
            assert!(r.len() <= len);
        }
    }
}

// @harness varint_roundtrip props=C10 tier=quick kind=proof fn="VarInt::{encode,decode,size,from_u64}" desc="for all 2^62 values: encode writes exactly size() bytes, size() is the minimal of 1/2/4/8, decode(encode(x)) == x consuming exactly those bytes; from_u64 succeeds iff x < 2^62"
#[cfg_attr(kani, kani::proof)]
#[cfg_attr(kani, kani::unwind(10))]
#[cfg_attr(verif_replay, test)]
fn varint_roundtrip() {
    let x: u64 = vk::any();
    match VarInt::from_u64(x) {
        Err(_) => assert!(x >= (1u64 << 62)),
        Ok(v) => {
            assert!(x < (1u64 << 62) && v.into_inner() == x);
            let mut buf = [0u8; 8];
            let mut w = &mut buf[..];
            v.encode(&mut w);
            let n = 8 - w.len();
            assert!(n == v.size(), "encode writes exactly size() bytes");
            let minimal = if x < (1 << 6) { 1 } else if x < (1 << 14) { 2 } else if x < (1 << 30) { 4 } else { 8 };
            assert!(n == minimal, "size() is the shortest encoding");
            let mut r = &buf[..n];
            let back = VarInt::decode(&mut r).unwrap();
            assert!(back == v && r.is_empty(), "decode(encode(x)) != x");
        }
    }
}
