//! unit: amplification -- the 3x anti-amplification predicate (exact) and the stateless-reset size / rate contract
//! props: C07
//! trusted: assume(buf.len() unchanged by writing through &mut buf[0..n]) in stateless_reset (gap in vstd's Vec IndexMut<Range> spec); Instant/Duration modelled as nanosecond counters with checked `+` and the usual order (shim); StdRng draws are 'some value in the range'; ResetToken::new opaque (16 bytes); Vec::{reserve,resize,extend_from_slice} and slice IndexMut from vstd
#![feature(allocator_api)]
#![allow(unused_imports, dead_code, non_camel_case_types, non_snake_case, unused_variables, unused_mut, unused_assignments)]
use vstd::prelude::*;
use std::sync::Arc;
verus! {
global size_of usize == 8;
pub mod shims {
use super::*;
// ---- time: nanoseconds since an arbitrary epoch; `Instant + Duration` requires no overflow (std panics on overflow) ----
#[derive(Copy, Clone)] pub struct Duration { pub d: u64 }
#[derive(Copy, Clone, PartialEq, Eq)] pub struct Instant { pub t: u64 }
impl vstd::std_specs::cmp::PartialEqSpecImpl for Instant { open spec fn obeys_eq_spec() -> bool { true } open spec fn eq_spec(&self, o: &Instant) -> bool { *self == *o } }
impl vstd::std_specs::ops::AddSpecImpl<Duration> for Instant {
    open spec fn obeys_add_spec() -> bool { true }
    open spec fn add_req(self, rhs: Duration) -> bool { self.t + rhs.d <= u64::MAX }
    open spec fn add_spec(self, rhs: Duration) -> Instant { Instant { t: (self.t + rhs.d) as u64 } }
}
impl Instant {
    /// std: None when the sum is not representable
    pub fn checked_add(&self, d: Duration) -> (r: Option<Instant>)
        ensures match r { Some(i) => i.t == self.t + d.d, None => self.t + d.d > u64::MAX }
    { match self.t.checked_add(d.d) { Some(t) => Some(Instant { t }), None => None } }
}
impl Instant {
    /// std: None when `earlier` is later than `self`
    pub fn checked_duration_since(&self, earlier: Instant) -> (r: Option<Duration>)
        ensures match r { Some(d) => d.d == self.t - earlier.t && self.t >= earlier.t, None => self.t < earlier.t }
    { if self.t >= earlier.t { Some(Duration { d: self.t - earlier.t }) } else { None } }
}
impl vstd::std_specs::cmp::PartialEqSpecImpl for Duration { open spec fn obeys_eq_spec() -> bool { true } open spec fn eq_spec(&self, o: &Duration) -> bool { self.d == o.d } }
impl PartialEq for Duration { fn eq(&self, o: &Duration) -> (r: bool) ensures r == (self.d == o.d) { self.d == o.d } }
impl vstd::std_specs::cmp::PartialOrdSpecImpl for Duration {
    open spec fn obeys_partial_cmp_spec() -> bool { true }
    open spec fn partial_cmp_spec(&self, o: &Duration) -> Option<core::cmp::Ordering> {
        if self.d < o.d { Some(core::cmp::Ordering::Less) } else if self.d == o.d { Some(core::cmp::Ordering::Equal) } else { Some(core::cmp::Ordering::Greater) }
    }
}
impl PartialOrd for Duration {
    fn partial_cmp(&self, o: &Duration) -> Option<core::cmp::Ordering> {
        if self.d < o.d { Some(core::cmp::Ordering::Less) } else if self.d == o.d { Some(core::cmp::Ordering::Equal) } else { Some(core::cmp::Ordering::Greater) }
    }
}
impl core::ops::Add<Duration> for Instant {
    type Output = Instant;
    fn add(self, rhs: Duration) -> Instant { Instant { t: self.t + rhs.d } }
}
impl vstd::std_specs::cmp::PartialOrdSpecImpl for Instant {
    open spec fn obeys_partial_cmp_spec() -> bool { true }
    open spec fn partial_cmp_spec(&self, o: &Instant) -> Option<core::cmp::Ordering> {
        if self.t < o.t { Some(core::cmp::Ordering::Less) } else if self.t == o.t { Some(core::cmp::Ordering::Equal) } else { Some(core::cmp::Ordering::Greater) }
    }
}
impl PartialOrd for Instant {
    fn partial_cmp(&self, o: &Instant) -> Option<core::cmp::Ordering> {
        if self.t < o.t { Some(core::cmp::Ordering::Less) } else if self.t == o.t { Some(core::cmp::Ordering::Equal) } else { Some(core::cmp::Ordering::Greater) }
    }
}
pub assume_specification<T, F: FnOnce(T) -> bool> [std::option::Option::<T>::is_some_and] (o: std::option::Option<T>, f: F) -> (r: bool)
    requires o.is_some() ==> call_requires(f, (o.unwrap(),)),
    ensures o.is_none() ==> !r, o.is_some() ==> call_ensures(f, (o.unwrap(),), r);
// ---- opaque field types (R8) ----
#[derive(Copy, Clone)] pub struct ConnectionId { pub len: u8, pub bytes: [u8; 20] }
#[derive(Copy, Clone)] pub struct SocketAddr { pub x: u64 }
#[derive(Copy, Clone)] pub struct IpAddr { pub x: u64 }
#[derive(Copy, Clone)] pub struct EcnCodepoint { pub x: u8 }
#[derive(Copy, Clone)] pub struct SpaceId { pub x: u8 }
#[verifier::external_body] pub struct StdRng { x: u64 }
impl StdRng {
    #[verifier::external_body]
    pub fn random_range(&mut self, r: core::ops::Range<usize>) -> (x: usize) requires r.start < r.end ensures r.start <= x < r.end { unimplemented!() }
    #[verifier::external_body]
    pub fn fill_bytes(&mut self, dst: &mut [u8]) ensures final(dst)@.len() == old(dst)@.len() { unimplemented!() }
}
#[verifier::external_body] pub struct HmacKeyObj { x: u64 }
pub struct ResetToken(pub [u8; 16]);
impl ResetToken {
    #[verifier::external_body]
    pub fn new(key: &HmacKeyObj, id: ConnectionId) -> (r: Self) { unimplemented!() }
}
impl core::ops::Deref for ResetToken {
    type Target = [u8];
    fn deref(&self) -> (r: &[u8]) ensures r@.len() == 16 { self.0.as_slice() }
}
pub struct EndpointConfig { pub reset_key: Arc<HmacKeyObj>, pub min_reset_interval: Duration }
#[verifier::external_body] pub struct ServerConfig { x: u64 }
#[verifier::external_body] pub struct ConnectionIndex { x: u64 }
#[verifier::external_body] pub struct ConnectionMeta { x: u64 }
#[verifier::external_body] pub struct IncomingBuffer { x: u64 }
#[verifier::external_body] pub struct CidGenBox { x: u64 }
#[verifier::external_body] #[verifier::reject_recursive_types(T)] pub struct Slab<T> { x: core::marker::PhantomData<T> }
#[verifier::external_body] #[derive(Copy, Clone)] pub struct RttEstimator { x: u64 }
impl RttEstimator { #[verifier::external_body] pub fn get(&self) -> (r: Duration) { unimplemented!() } }
#[verifier::external_body] pub struct ControllerBox { x: u64 }
impl ControllerBox {
    #[verifier::external_body] pub fn clone_box(&self) -> (r: ControllerBox) { unimplemented!() }
    #[verifier::external_body] pub fn window(&self) -> (r: u64) { unimplemented!() }
}
#[verifier::external_body] pub struct Pacer { x: u64 }
impl Pacer {
    #[verifier::external_body] pub fn new(smoothed_rtt: Duration, capacity: u64, mtu: u16, max_bytes_per_second: Option<u64>, now: Instant) -> (r: Self) { unimplemented!() }
    #[verifier::external_body] pub fn max_bytes_per_second(&self) -> (r: Option<u64>) { unimplemented!() }
}
#[verifier::external_body] pub struct MtuDiscovery { x: u64 }
impl Clone for MtuDiscovery { #[verifier::external_body] fn clone(&self) -> (r: Self) { unimplemented!() } }
impl MtuDiscovery { #[verifier::external_body] pub fn current_mtu(&self) -> (r: u16) { unimplemented!() } }
#[verifier::external_body] pub struct InFlight { x: u64 }
impl InFlight { #[verifier::external_body] pub fn new() -> (r: Self) { unimplemented!() } }
}
pub mod code {
use super::*; use super::shims::*;
//@ extract quinn-proto/src/lib.rs :: const RESET_TOKEN_SIZE
//@ end
//@ extract quinn-proto/src/lib.rs :: const MAX_CID_SIZE
//@ end
//@ extract quinn-proto/src/lib.rs :: struct Transmit
//@ derive
//@ end
//@ extract quinn-proto/src/endpoint.rs :: struct FourTuple
//@ derive Copy Clone
//@ end
//@ extract quinn-proto/src/endpoint.rs :: struct Endpoint
//@ replace Box<dyn ConnectionIdGenerator> => CidGenBox
//@ end

impl Endpoint {
//@ extract quinn-proto/src/endpoint.rs :: impl Endpoint::fn stateless_reset
//@ props C07 C03
//@ ret res
//@ closure 0 : Instant -> (b: bool)
        ensures b == (last.t + self.config.min_reset_interval.d > now.t)
//@ before return None #1
                // Verus quirk: at a `return` inside a guarded match arm the &mut parameters are not resolved automatically
                proof { assert(has_resolved(self)); assert(has_resolved(buf)); assert(*final(self) == *self); assert(*final(buf) == *buf); }
//@ after self.rng.fill_bytes(
        // assumed contract on a dependency: mutating a Vec through the sub-slice `&mut buf[0..n]` cannot change the Vec's length
        // (vstd's IndexMut<Range> spec for Vec does not export this fact once the borrow ends)
        proof { assume(buf@.len() == padding_len); }
//@ contract
        // no assumption on the configured interval: one that reaches past the end of Instant's range (Duration::MAX) simply never elapses
        requires old(buf)@.len() == 0,
        ensures
            match res {
                // a reset is strictly smaller than the datagram that provoked it, still looks like a short-header packet, and is recorded
                Some(t) => t.size == final(buf)@.len() && t.size < inciting_dgram_len && t.size >= 5 + RESET_TOKEN_SIZE
                    && final(self).last_stateless_reset == Some(now),
                None => final(buf)@.len() == 0 && final(self).last_stateless_reset == old(self).last_stateless_reset,
            },
            // at most one per configured interval
            (old(self).last_stateless_reset.is_some() && old(self).last_stateless_reset.unwrap().t + old(self).config.min_reset_interval.d > now.t) ==> res.is_none(),
            // nothing for a datagram that is not larger than the smallest possible reset
            inciting_dgram_len <= 5 + RESET_TOKEN_SIZE ==> res.is_none(),
            // otherwise a reset IS produced (rate limit aside)
            (inciting_dgram_len > 5 + RESET_TOKEN_SIZE && !(old(self).last_stateless_reset.is_some() && old(self).last_stateless_reset.unwrap().t + old(self).config.min_reset_interval.d > now.t)) ==> res.is_some(),
//@ end
}

//@ extract quinn-proto/src/connection/paths.rs :: struct PathData
//@ replace Box<dyn congestion::Controller> => ControllerBox
//@ end
impl PathData {
//@ extract quinn-proto/src/connection/paths.rs :: impl PathData::fn current_mtu
//@ end
//@ extract quinn-proto/src/connection/paths.rs :: impl PathData::fn from_previous
//@ ret r
//@ contract
        // a path to a new address (NAT rebinding) starts unvalidated and with no amplification credit: what was received from the old
        // address says nothing about the new one
        ensures !r.validated, r.total_recvd == 0, r.total_sent == 0, r.challenge.is_none(), !r.challenge_pending, r.generation == generation
//@ end
//@ extract quinn-proto/src/connection/paths.rs :: impl PathData::fn anti_amplification_blocked
//@ ret r
//@ contract
        requires self.total_recvd < 0x4000_0000_0000_0000, self.total_sent < 0x4000_0000_0000_0000, bytes_to_send < 0x4000_0000_0000_0000,
        // exactly the predicate of the property: blocked iff the address is unvalidated and sending would exceed 3x what was received
        ensures r == (!self.validated && 3 * self.total_recvd < self.total_sent + bytes_to_send)
//@ end
}
}
}
fn main() {}
