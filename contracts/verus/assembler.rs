//! unit: assembler -- stream reassembly (`Assembler`): every chunk handed to the application is the sender's bytes at that offset, ordered reads are gap-free
//! props: C01
//! trusted: std BinaryHeap / PeekMut contract (sequence view; PeekMut as a prophecy of the heap after the borrow; into_sorted_vec = sorted permutation); bytes::{Bytes,BytesMut} contract; btree RangeSet contract incl. `replace` (set view, counting; unit btree_range_set proves on the real code that replace + draining + drop is exactly set union, keeps the representation invariant and yields only non-empty pieces that were stored before; the counting clause and the ordering of the pieces stay assumed); `for x in &heap` iterates the enumeration (one header rewrite in ensure_ordering); hand-written Default for Assembler standing for #[derive(Default)]; machine arithmetic: allocation estimates fit usize (insert precondition)
#![feature(allocator_api)]
#![allow(unused_imports, dead_code, non_camel_case_types, non_snake_case, unused_variables, unused_mut, unused_assignments)]
use vstd::prelude::*;
use std::mem;
use std::cmp::Ordering;
use std::alloc::Allocator;
use std::ops::Range;
use std::collections::{BinaryHeap, binary_heap::PeekMut};
use vstd::std_specs::iter::IteratorSpec; use vstd::set_lib::*; use vstd::std_specs::cmp::{OrdSpec, PartialOrdSpec, PartialEqSpec};
verus! {
global size_of usize == 8;
pub mod shims {
use super::*;
#[verifier::external_body] pub struct Bytes { inner: Vec<u8> }
impl View for Bytes { type V = Seq<u8>; uninterp spec fn view(&self) -> Seq<u8>; }
impl Bytes {
    #[verifier::external_body] pub fn new() -> (r: Bytes) ensures r@ == Seq::<u8>::empty() { unimplemented!() }
    #[verifier::external_body] pub fn len(&self) -> (r: usize) ensures r == self@.len() { unimplemented!() }
    #[verifier::external_body] pub fn is_empty(&self) -> (r: bool) ensures r == (self@.len() == 0) { unimplemented!() }
    #[verifier::external_body] pub fn split_to(&mut self, at: usize) -> (r: Bytes) requires at <= old(self)@.len()
        ensures r@ == old(self)@.take(at as int), final(self)@ == old(self)@.skip(at as int) { unimplemented!() }
    /// `Buf::advance` on `Bytes`
    #[verifier::external_body] pub fn advance(&mut self, cnt: usize) requires cnt <= old(self)@.len()
        ensures final(self)@ == old(self)@.skip(cnt as int) { unimplemented!() }
}

#[verifier::external_body] pub struct BytesMut { inner: Vec<u8> }
impl View for BytesMut { type V = Seq<u8>; uninterp spec fn view(&self) -> Seq<u8>; }
impl BytesMut {
    #[verifier::external_body] pub fn with_capacity(capacity: usize) -> (r: BytesMut) ensures r@ == Seq::<u8>::empty() { unimplemented!() }
    #[verifier::external_body] pub fn len(&self) -> (r: usize) ensures r == self@.len() { unimplemented!() }
    #[verifier::external_body] pub fn is_empty(&self) -> (r: bool) ensures r == (self@.len() == 0) { unimplemented!() }
    /// `extend_from_slice(&bytes)` (the argument derefs to `&[u8]` in the real code)
    #[verifier::external_body] pub fn extend_from_slice(&mut self, extend: &Bytes) ensures final(self)@ == old(self)@ + extend@ { unimplemented!() }
    #[verifier::external_body] pub fn split(&mut self) -> (r: BytesMut) ensures r@ == old(self)@, final(self)@ == Seq::<u8>::empty() { unimplemented!() }
    #[verifier::external_body] pub fn freeze(self) -> (r: Bytes) ensures r@ == self@ { unimplemented!() }
}
pub assume_specification<T> [std::mem::replace] (dest: &mut T, src: T) -> (r: T)
    ensures r == *old(dest), *final(dest) == src;

// ---- std::collections::BinaryHeap / PeekMut: trusted contract -------------------------------------------------------------
// The heap is viewed as a sequence (some enumeration of its elements; the enumeration is ghost, not the memory layout).
#[verifier::external_type_specification]
#[verifier::external_body]
#[verifier::reject_recursive_types(T)]
#[verifier::reject_recursive_types(A)]
pub struct ExBinaryHeap<T, A: Allocator>(BinaryHeap<T, A>);
#[verifier::external_type_specification]
#[verifier::external_body]
#[verifier::reject_recursive_types(T)]
#[verifier::reject_recursive_types(A)]
pub struct ExPeekMut<'a, T: 'a + Ord, A: Allocator>(PeekMut<'a, T, A>);

pub uninterp spec fn heap_view<T, A: Allocator>(h: BinaryHeap<T, A>) -> Seq<T>;
/// the element a PeekMut currently shows (the greatest one when it was created)
pub uninterp spec fn pm_top<'a, T: Ord, A: Allocator>(p: PeekMut<'a, T, A>) -> T;
/// its position in the enumeration
pub uninterp spec fn pm_idx<'a, T: Ord, A: Allocator>(p: PeekMut<'a, T, A>) -> int;
/// the enumeration the PeekMut was created from
pub uninterp spec fn pm_base<'a, T: Ord, A: Allocator>(p: PeekMut<'a, T, A>) -> Seq<T>;
/// prophecy: the heap once the PeekMut is gone (dropped or popped)
pub uninterp spec fn pm_fut<'a, T: Ord, A: Allocator>(p: PeekMut<'a, T, A>) -> Seq<T>;

pub assume_specification<T: Ord, A: Allocator>[BinaryHeap::<T, A>::peek_mut](h: &mut BinaryHeap<T, A>) -> (r: Option<PeekMut<'_, T, A>>)
    ensures match r {
        None => heap_view(*old(h)).len() == 0 && heap_view(*final(h)) == heap_view(*old(h)),
        Some(p) => {
            &&& pm_base(p) == heap_view(*old(h))
            &&& 0 <= pm_idx(p) < pm_base(p).len()
            &&& pm_top(p) == pm_base(p)[pm_idx(p)]
            &&& (T::obeys_cmp_spec() ==> forall|i: int| 0 <= i < pm_base(p).len() ==> !((#[trigger] pm_base(p)[i]).cmp_spec(&pm_top(p)) is Greater))
            &&& heap_view(*final(h)) == pm_fut(p)
        },
    };
pub assume_specification<'a, 'b, T: Ord, A: Allocator>[<PeekMut<'a, T, A> as core::ops::Deref>::deref](p: &'b PeekMut<'a, T, A>) -> (r: &'b T)
    ensures *r == pm_top(*p);
pub assume_specification<'a, 'b, T: Ord, A: Allocator>[<PeekMut<'a, T, A> as core::ops::DerefMut>::deref_mut](p: &'b mut PeekMut<'a, T, A>) -> (r: &'b mut T)
    ensures *r == pm_top(*old(p)), pm_top(*final(p)) == *final(r),
        pm_idx(*final(p)) == pm_idx(*old(p)), pm_base(*final(p)) == pm_base(*old(p)), pm_fut(*final(p)) == pm_fut(*old(p));
pub assume_specification<'a, T: Ord, A: Allocator>[PeekMut::<'a, T, A>::pop](this: PeekMut<'a, T, A>) -> (r: T)
    ensures r == pm_top(this), pm_fut(this) == pm_base(this).remove(pm_idx(this));
/// a PeekMut that goes out of scope leaves its (possibly modified) element in the heap
#[verifier::external_body]
pub broadcast proof fn axiom_peek_mut_resolved<'a, T: Ord, A: Allocator>(p: PeekMut<'a, T, A>)
    ensures #[trigger] has_resolved(p) ==> pm_fut(p) == pm_base(p).update(pm_idx(p), pm_top(p))
{}
pub assume_specification<T: Ord, A: Allocator>[BinaryHeap::<T, A>::push](h: &mut BinaryHeap<T, A>, item: T)
    ensures heap_view(*final(h)) == heap_view(*old(h)).push(item);
pub assume_specification<T>[BinaryHeap::<T>::with_capacity](capacity: usize) -> (r: BinaryHeap<T>)
    ensures heap_view(r) == Seq::<T>::empty();
/// sum of a measure over a sequence
pub open spec fn seq_sum<T>(s: Seq<T>, f: spec_fn(T) -> nat) -> nat decreases s.len() {
    if s.len() == 0 { 0 } else { seq_sum(s.drop_last(), f) + f(s.last()) }
}
/// ascending in `Ord` order, and exactly the elements of the heap (a permutation: every additive measure is preserved)
pub assume_specification<T: Ord, A: Allocator>[BinaryHeap::<T, A>::into_sorted_vec](h: BinaryHeap<T, A>) -> (r: Vec<T, A>)
    ensures r@.len() == heap_view(h).len(),
        forall|i: int| 0 <= i < r@.len() ==> heap_view(h).contains(#[trigger] r@[i]),
        forall|j: int| 0 <= j < r@.len() ==> r@.contains(#[trigger] heap_view(h)[j]),
        forall|f: spec_fn(T) -> nat| #[trigger] seq_sum(r@, f) == seq_sum(heap_view(h), f),
        T::obeys_cmp_spec() ==> forall|i: int, j: int| #![trigger r@[i], r@[j]] 0 <= i <= j < r@.len() ==> !(r@[i].cmp_spec(&r@[j]) is Greater);
pub assume_specification<T>[<BinaryHeap<T> as Default>::default]() -> (r: BinaryHeap<T>)
    ensures heap_view(r) == Seq::<T>::empty();
pub assume_specification<T: core::default::Default> [core::mem::take::<T>] (b: &mut T) -> (r: T)
    ensures r == *old(b), call_ensures(T::default, (), *final(b));
pub assume_specification<T, A: Allocator>[BinaryHeap::<T, A>::clear](h: &mut BinaryHeap<T, A>)
    ensures heap_view(*final(h)) == Seq::<T>::empty();
pub assume_specification<T, A: Allocator>[BinaryHeap::<T, A>::len](h: &BinaryHeap<T, A>) -> (r: usize)
    ensures r == heap_view(*h).len();
pub assume_specification<T, A: Allocator>[BinaryHeap::<T, A>::is_empty](h: &BinaryHeap<T, A>) -> (r: bool)
    ensures r == (heap_view(*h).len() == 0);

/// btree RangeSet: opaque here.  `total` = how many offsets are in the set, `bound` = every member is below it.
#[verifier::external_body] pub struct RangeSet { x: u8 }
/// iterator returned by `RangeSet::replace`: yields the parts of the requested range that were already in the set, in order
#[verifier::external_body] pub struct Replace<'a> { set: &'a mut RangeSet }
impl<'a> Replace<'a> { pub uninterp spec fn left(&self) -> nat; }
impl<'a> Iterator for Replace<'a> {
    type Item = Range<u64>;
    #[verifier::external_body]
    fn next(&mut self) -> (r: Option<Range<u64>>) { unimplemented!() }
}
impl<'a> vstd::std_specs::iter::IteratorSpecImpl for Replace<'a> {
    open spec fn obeys_prophetic_iter_laws(&self) -> bool { true }
    #[verifier::prophetic] uninterp spec fn remaining(&self) -> Seq<Range<u64>>;
    #[verifier::prophetic] open spec fn will_return_none(&self) -> bool { true }
    open spec fn decrease(&self) -> Option<nat> { Some(self.left()) }
    open spec fn peek(&self, i: int) -> Option<Range<u64>> { None }
}
/// sorted, pairwise disjoint, non-empty sub-ranges of [lo, hi)
pub open spec fn valid_dups(s: Seq<Range<u64>>, lo: u64, hi: u64) -> bool {
    &&& forall|i: int| 0 <= i < s.len() ==> lo <= (#[trigger] s[i]).start < s[i].end <= hi
    &&& forall|i: int, j: int| 0 <= i < j < s.len() ==> (#[trigger] s[i]).end <= (#[trigger] s[j]).start
}
/// k lies in one of the ranges
pub open spec fn in_dups(s: Seq<Range<u64>>, k: int) -> bool { exists|i: int| 0 <= i < s.len() && (#[trigger] s[i]).start <= k < s[i].end }
/// k lies in one of the ranges from index `from` on
pub open spec fn in_dups_from(s: Seq<Range<u64>>, from: int, k: int) -> bool { exists|i: int| from <= i < s.len() && (#[trigger] s[i]).start <= k < s[i].end }
/// total length of the first n ranges
pub open spec fn dup_total(s: Seq<Range<u64>>, n: int) -> int decreases n {
    if n <= 0 { 0 } else { dup_total(s, n - 1) + (s[n - 1].end - s[n - 1].start) }
}
/// a set of offsets below `bound` has at most `bound` members
#[verifier::external_body] pub proof fn axiom_total_le_bound(rs: RangeSet) ensures rs.total() <= rs.bound() {}
impl View for RangeSet { type V = Set<int>; uninterp spec fn view(&self) -> Set<int>; }
impl RangeSet {
    /// number of offsets in the set
    pub open spec fn total(&self) -> nat { self@.len() }
    /// every member is below it
    pub uninterp spec fn bound(&self) -> nat;
    #[verifier::external_body] pub fn new() -> (r: Self) ensures r@ == Set::<int>::empty(), r.bound() == 0 { unimplemented!() }
    #[verifier::external_body] pub fn insert(&mut self, x: Range<u64>) -> (r: bool)
        ensures final(self)@ == old(self)@.union(set_int_range(x.start as int, x.end as int)),
            final(self).bound() == (if x.start < x.end && x.end > old(self).bound() { x.end as nat } else { old(self).bound() }),
    { unimplemented!() }
    /// adds `r` to the set; the iterator yields what was already there, so the set grows by |r| minus what is yielded
    #[verifier::external_body] pub fn replace(&mut self, r: Range<u64>) -> (it: Replace<'_>)
        requires r.start <= r.end
        ensures valid_dups(it.remaining(), r.start, r.end),
            final(self)@ == old(self)@.union(set_int_range(r.start as int, r.end as int)),
            // what is yielded is exactly the part of the range that was already in the set
            forall|k: int| r.start <= k < r.end ==> (old(self)@.contains(k) <==> #[trigger] in_dups_from(it.remaining(), 0, k)),
            final(self).total() == old(self).total() + (r.end - r.start) - dup_total(it.remaining(), it.remaining().len() as int),
            final(self).bound() == (if r.start < r.end && r.end > old(self).bound() { r.end as nat } else { old(self).bound() }),
    { unimplemented!() }
}

/// `for x in &heap`: every element of the enumeration once (BinaryHeap's own Iter cannot be given a spec from outside std/vstd)
#[verifier::external_body] #[verifier::reject_recursive_types(T)] pub struct HeapIter<'a, T> { it: std::collections::binary_heap::Iter<'a, T> }
impl<'a, T> HeapIter<'a, T> { pub uninterp spec fn left(&self) -> nat; }
impl<'a, T> Iterator for HeapIter<'a, T> {
    type Item = &'a T;
    #[verifier::external_body]
    fn next(&mut self) -> (r: Option<&'a T>) { self.it.next() }
}
impl<'a, T> vstd::std_specs::iter::IteratorSpecImpl for HeapIter<'a, T> {
    open spec fn obeys_prophetic_iter_laws(&self) -> bool { true }
    #[verifier::prophetic] uninterp spec fn remaining(&self) -> Seq<&'a T>;
    #[verifier::prophetic] open spec fn will_return_none(&self) -> bool { true }
    open spec fn decrease(&self) -> Option<nat> { Some(self.left()) }
    open spec fn peek(&self, i: int) -> Option<&'a T> { None }
}
#[verifier::external_body]
pub fn heap_iter<'a, T>(h: &'a BinaryHeap<T>) -> (it: HeapIter<'a, T>)
    ensures it.remaining().len() == heap_view(*h).len(), forall|i: int| 0 <= i < heap_view(*h).len() ==> *(#[trigger] it.remaining()[i]) == heap_view(*h)[i]
{ HeapIter { it: h.iter() } }

pub assume_specification[Ordering::reverse](o: Ordering) -> (r: Ordering)
    ensures r == (match o { Ordering::Less => Ordering::Greater, Ordering::Equal => Ordering::Equal, Ordering::Greater => Ordering::Less });
pub assume_specification[Ordering::then](o: Ordering, other: Ordering) -> (r: Ordering)
    ensures r == (match o { Ordering::Equal => other, _ => o });
}
pub mod code {
use super::*; use super::shims::*;

//@ extract quinn-proto/src/connection/assembler.rs :: struct Chunk
//@ derive
//@ end
//@ extract quinn-proto/src/connection/assembler.rs :: struct Buffer
//@ derive
//@ vis pub
//@ end

pub open spec fn ord_u64(a: u64, b: u64) -> Ordering { if a < b { Ordering::Less } else if a == b { Ordering::Equal } else { Ordering::Greater } }
pub open spec fn ord_rev(o: Ordering) -> Ordering { match o { Ordering::Less => Ordering::Greater, Ordering::Equal => Ordering::Equal, Ordering::Greater => Ordering::Less } }
/// the heap order: smaller offset is greater; at equal offsets the longer buffer is greater
pub open spec fn heap_order(a: &Buffer, b: &Buffer) -> Ordering {
    match ord_rev(ord_u64(a.offset, b.offset)) { Ordering::Equal => ord_u64(a.bytes@.len() as u64, b.bytes@.len() as u64), o => o }
}
impl vstd::std_specs::cmp::PartialEqSpecImpl for Buffer {
    open spec fn obeys_eq_spec() -> bool { true }
    open spec fn eq_spec(&self, o: &Buffer) -> bool { self.offset == o.offset && self.bytes@.len() == o.bytes@.len() }
}
impl vstd::std_specs::cmp::PartialOrdSpecImpl for Buffer {
    open spec fn obeys_partial_cmp_spec() -> bool { true }
    open spec fn partial_cmp_spec(&self, o: &Buffer) -> Option<Ordering> { Some(heap_order(self, o)) }
}
impl vstd::std_specs::cmp::OrdSpecImpl for Buffer {
    open spec fn obeys_cmp_spec() -> bool { true }
    open spec fn cmp_spec(&self, o: &Buffer) -> Ordering { heap_order(self, o) }
}
impl Eq for Buffer {}
impl PartialEq for Buffer {
//@ extract quinn-proto/src/connection/assembler.rs :: impl PartialEq for Buffer::fn eq
//@ end
}
impl PartialOrd for Buffer {
//@ extract quinn-proto/src/connection/assembler.rs :: impl PartialOrd for Buffer::fn partial_cmp
//@ end
}
impl Ord for Buffer {
//@ extract quinn-proto/src/connection/assembler.rs :: impl Ord for Buffer::fn cmp
//@ end
}

//@ extract quinn-proto/src/connection/assembler.rs :: struct TooManyChunks
//@ derive
//@ end
//@ extract quinn-proto/src/connection/assembler.rs :: struct IllegalOrderedRead
//@ derive
//@ end
//@ extract quinn-proto/src/connection/assembler.rs :: enum State
//@ derive
//@ vis pub
//@ end
//@ extract quinn-proto/src/connection/assembler.rs :: struct Assembler
//@ derive
//@ vis pub
//@ end

pub open spec fn sum_len(s: Seq<Buffer>) -> nat decreases s.len() {
    if s.len() == 0 { 0 } else { sum_len(s.drop_last()) + s.last().bytes@.len() }
}
pub open spec fn sum_alloc(s: Seq<Buffer>) -> nat decreases s.len() {
    if s.len() == 0 { 0 } else { sum_alloc(s.drop_last()) + s.last().allocation_size as nat }
}
pub proof fn lemma_sum_push(s: Seq<Buffer>, x: Buffer)
    ensures sum_len(s.push(x)) == sum_len(s) + x.bytes@.len(), sum_alloc(s.push(x)) == sum_alloc(s) + x.allocation_size
{ assert(s.push(x).drop_last() =~= s); }
pub proof fn lemma_sum_remove(s: Seq<Buffer>, i: int)
    requires 0 <= i < s.len()
    ensures sum_len(s.remove(i)) + s[i].bytes@.len() == sum_len(s), sum_alloc(s.remove(i)) + s[i].allocation_size == sum_alloc(s)
    decreases s.len()
{
    if i == s.len() - 1 { assert(s.remove(i) =~= s.drop_last()); }
    else { lemma_sum_remove(s.drop_last(), i); assert(s.remove(i).drop_last() =~= s.drop_last().remove(i)); assert(s.remove(i).last() == s.last()); }
}
pub proof fn lemma_sum_update(s: Seq<Buffer>, i: int, x: Buffer)
    requires 0 <= i < s.len()
    ensures sum_len(s.update(i, x)) + s[i].bytes@.len() == sum_len(s) + x.bytes@.len(),
        sum_alloc(s.update(i, x)) + s[i].allocation_size == sum_alloc(s) + x.allocation_size
    decreases s.len()
{
    if i == s.len() - 1 { assert(s.update(i, x).drop_last() =~= s.drop_last()); }
    else { lemma_sum_update(s.drop_last(), i, x); assert(s.update(i, x).drop_last() =~= s.drop_last().update(i, x)); assert(s.update(i, x).last() == s.last()); }
}
pub open spec fn len_fn() -> spec_fn(Buffer) -> nat { |b: Buffer| b.bytes@.len() }
pub proof fn lemma_sum_len_is_seq_sum(s: Seq<Buffer>)
    ensures sum_len(s) == seq_sum(s, len_fn())
    decreases s.len()
{ if s.len() > 0 { lemma_sum_len_is_seq_sum(s.drop_last()); } }
pub proof fn lemma_sum_take(s: Seq<Buffer>, i: int)
    requires 0 <= i < s.len()
    ensures sum_len(s.take(i + 1)) == sum_len(s.take(i)) + s[i].bytes@.len()
{ assert(s.take(i + 1).drop_last() =~= s.take(i)); }
pub proof fn lemma_sum_alloc_eq(s: Seq<Buffer>)
    requires forall|j: int| 0 <= j < s.len() ==> (#[trigger] s[j]).allocation_size == s[j].bytes@.len()
    ensures sum_alloc(s) == sum_len(s)
    decreases s.len()
{
    if s.len() > 0 {
        assert forall|j: int| 0 <= j < s.drop_last().len() implies (#[trigger] s.drop_last()[j]).allocation_size == s.drop_last()[j].bytes@.len() by { assert(s.drop_last()[j] == s[j]); }
        lemma_sum_alloc_eq(s.drop_last());
        assert(s[s.len() - 1].allocation_size == s[s.len() - 1].bytes@.len());
    }
}
pub proof fn lemma_disjoint_push(s: Seq<Buffer>, x: Buffer)
    requires pairwise_disjoint(s), forall|j: int| 0 <= j < s.len() ==> (#[trigger] s[j]).end() <= x.offset || x.end() <= s[j].offset
    ensures pairwise_disjoint(s.push(x))
{
    let t = s.push(x);
    assert forall|i: int, j: int| 0 <= i < t.len() && 0 <= j < t.len() && i != j implies (#[trigger] t[i]).end() <= (#[trigger] t[j]).offset || t[j].end() <= t[i].offset by {
        if i < s.len() { assert(t[i] == s[i]); } else { assert(t[i] == x); }
        if j < s.len() { assert(t[j] == s[j]); } else { assert(t[j] == x); }
    }
}
pub proof fn lemma_covers_take_mono(s: Seq<Buffer>, i: int, k: int)
    requires 0 <= i < s.len()
    ensures seq_covers(s.take(i), k) || s[i].offset <= k < s[i].end() ==> seq_covers(s.take(i + 1), k)
{
    if seq_covers(s.take(i), k) {
        let j = choose|j: int| 0 <= j < s.take(i).len() && (#[trigger] s.take(i)[j]).offset <= k < s.take(i)[j].end();
        assert(s.take(i + 1)[j] == s.take(i)[j]);
    } else if s[i].offset <= k < s[i].end() {
        assert(s.take(i + 1)[i] == s[i]);
    }
}
pub proof fn lemma_covers_push_rev(s: Seq<Buffer>, x: Buffer, k: int)
    requires seq_covers(s.push(x), k)
    ensures seq_covers(s, k) || x.offset <= k < x.end()
{
    let j = choose|j: int| 0 <= j < s.push(x).len() && (#[trigger] s.push(x)[j]).offset <= k < s.push(x)[j].end();
    if j < s.len() { assert(s.push(x)[j] == s[j]); }
}
pub proof fn lemma_covers_take(s: Seq<Buffer>, i: int, k: int)
    requires 0 <= i < s.len(), seq_covers(s.take(i + 1), k)
    ensures seq_covers(s.take(i), k) || s[i].offset <= k < s[i].end()
{
    let j = choose|j: int| 0 <= j < s.take(i + 1).len() && (#[trigger] s.take(i + 1)[j]).offset <= k < s.take(i + 1)[j].end();
    if j < i { assert(s.take(i)[j] == s.take(i + 1)[j]); }
}
pub proof fn lemma_sum_skip(s: Seq<Buffer>, j: int)
    requires 0 <= j < s.len()
    ensures sum_len(s.skip(j)) == s[j].bytes@.len() + sum_len(s.skip(j + 1))
    decreases s.len()
{
    if j == s.len() - 1 {
        assert(s.skip(j + 1) =~= Seq::<Buffer>::empty());
        assert(s.skip(j).drop_last() =~= Seq::<Buffer>::empty());
    } else {
        lemma_sum_skip(s.drop_last(), j);
        assert(s.skip(j).drop_last() =~= s.drop_last().skip(j));
        assert(s.skip(j + 1).drop_last() =~= s.drop_last().skip(j + 1));
        assert(s.skip(j).last() == s.last());
        assert(s.skip(j + 1).last() == s.last());
    }
}
pub proof fn lemma_sum_ge(s: Seq<Buffer>, i: int)
    requires 0 <= i < s.len()
    ensures sum_len(s) >= s[i].bytes@.len(), sum_alloc(s) >= s[i].allocation_size
{ lemma_sum_remove(s, i); }

pub proof fn lemma_sum_alloc_ge(s: Seq<Buffer>, end: u64)
    requires forall|j: int| 0 <= j < s.len() ==> buf_ok(#[trigger] s[j], end)
    ensures sum_alloc(s) >= sum_len(s)
    decreases s.len()
{
    if s.len() > 0 {
        assert forall|j: int| 0 <= j < s.drop_last().len() implies buf_ok(#[trigger] s.drop_last()[j], end) by { assert(s.drop_last()[j] == s[j]); }
        lemma_sum_alloc_ge(s.drop_last(), end);
        assert(buf_ok(s[s.len() - 1], end));
    }
}
pub proof fn lemma_all_push(s: Seq<Buffer>, x: Buffer, p: spec_fn(Buffer) -> bool)
    requires forall|j: int| 0 <= j < s.len() ==> p(#[trigger] s[j]), p(x)
    ensures forall|j: int| 0 <= j < s.push(x).len() ==> p(#[trigger] s.push(x)[j])
{
    assert forall|j: int| 0 <= j < s.push(x).len() implies p(#[trigger] s.push(x)[j]) by {
        if j < s.len() { assert(s.push(x)[j] == s[j]); } else { assert(s.push(x)[j] == x); }
    }
}
/// n sorted disjoint non-empty ranges inside [lo, hi) need at least n offsets
pub proof fn lemma_dups_count(s: Seq<Range<u64>>, lo: u64, hi: u64, n: int)
    requires valid_dups(s, lo, hi), 0 <= n <= s.len()
    ensures n > 0 ==> s[n - 1].end >= lo + n, n <= hi - lo || n == 0
    decreases n
{
    if n > 1 { lemma_dups_count(s, lo, hi, n - 1); assert(s[n - 2].end <= s[n - 1].start); }
}
/// no two buffers share a stream offset
pub open spec fn pairwise_disjoint(s: Seq<Buffer>) -> bool {
    forall|i: int, j: int| 0 <= i < s.len() && 0 <= j < s.len() && i != j ==> (#[trigger] s[i]).end() <= (#[trigger] s[j]).offset || s[j].end() <= s[i].offset
}
/// the stream offsets held by the first n buffers
pub open spec fn bufs_set(s: Seq<Buffer>, n: int) -> Set<int> decreases n {
    if n <= 0 { Set::empty() } else { bufs_set(s, n - 1).union(set_int_range(s[n - 1].offset as int, s[n - 1].end())) }
}
pub proof fn lemma_bufs_set_has(s: Seq<Buffer>, n: int, i: int, k: int)
    requires 0 <= i < n <= s.len(), s[i].offset <= k < s[i].end()
    ensures bufs_set(s, n).contains(k)
    decreases n
{
    if i < n - 1 { lemma_bufs_set_has(s, n - 1, i, k); }
}
pub proof fn lemma_bufs_set_contains(s: Seq<Buffer>, n: int, k: int)
    requires 0 <= n <= s.len(), bufs_set(s, n).contains(k)
    ensures exists|j: int| 0 <= j < n && (#[trigger] s[j]).offset <= k < s[j].end()
    decreases n
{
    if n > 0 {
        if bufs_set(s, n - 1).contains(k) { lemma_bufs_set_contains(s, n - 1, k); }
        else { assert(s[n - 1].offset <= k < s[n - 1].end()); }
    }
}
/// every offset held by a buffer of s is in r
pub open spec fn bufs_in(s: Seq<Buffer>, r: Set<int>) -> bool {
    forall|i: int, k: int| 0 <= i < s.len() && (#[trigger] s[i]).offset <= k < s[i].end() ==> #[trigger] r.contains(k)
}
/// no offset held by a buffer of s is in d
pub open spec fn bufs_out(s: Seq<Buffer>, d: Set<int>) -> bool {
    forall|i: int, k: int| 0 <= i < s.len() && (#[trigger] s[i]).offset <= k < s[i].end() ==> !(#[trigger] d.contains(k))
}
/// x holds a sub-range of what o holds
pub open spec fn within(x: Buffer, o: Buffer) -> bool { x.offset >= o.offset && x.end() <= o.end() }
pub proof fn lemma_unordered_remove(s: Seq<Buffer>, i: int, r: Set<int>, d: Set<int>)
    requires 0 <= i < s.len(), pairwise_disjoint(s), bufs_in(s, r), bufs_out(s, d)
    ensures pairwise_disjoint(s.remove(i)), bufs_in(s.remove(i), r),
        bufs_out(s.remove(i), d.union(set_int_range(s[i].offset as int, s[i].end()))),
{
    let t = s.remove(i);
    let d2 = d.union(set_int_range(s[i].offset as int, s[i].end()));
    assert forall|a: int, b: int| 0 <= a < t.len() && 0 <= b < t.len() && a != b implies (#[trigger] t[a]).end() <= (#[trigger] t[b]).offset || t[b].end() <= t[a].offset by {
        let a0 = if a < i { a } else { a + 1 };
        let b0 = if b < i { b } else { b + 1 };
        assert(t[a] == s[a0] && t[b] == s[b0]);
    }
    assert forall|a: int, k: int| 0 <= a < t.len() && (#[trigger] t[a]).offset <= k < t[a].end() implies #[trigger] r.contains(k) by {
        let a0 = if a < i { a } else { a + 1 };
        assert(t[a] == s[a0]);
    }
    assert forall|a: int, k: int| 0 <= a < t.len() && (#[trigger] t[a]).offset <= k < t[a].end() implies !(#[trigger] d2.contains(k)) by {
        let a0 = if a < i { a } else { a + 1 };
        assert(t[a] == s[a0]);
        assert(s[a0].end() <= s[i].offset || s[i].end() <= s[a0].offset);
        assert(!d.contains(k));
    }
}
pub proof fn lemma_unordered_update(s: Seq<Buffer>, i: int, x: Buffer, r: Set<int>, d: Set<int>)
    requires 0 <= i < s.len(), pairwise_disjoint(s), bufs_in(s, r), bufs_out(s, d), within(x, s[i]),
    ensures pairwise_disjoint(s.update(i, x)), bufs_in(s.update(i, x), r),
        bufs_out(s.update(i, x), d.union(set_int_range(s[i].offset as int, x.offset as int))),
{
    let t = s.update(i, x);
    let d2 = d.union(set_int_range(s[i].offset as int, x.offset as int));
    assert forall|a: int, b: int| 0 <= a < t.len() && 0 <= b < t.len() && a != b implies (#[trigger] t[a]).end() <= (#[trigger] t[b]).offset || t[b].end() <= t[a].offset by {
        assert(s[a].end() <= s[b].offset || s[b].end() <= s[a].offset);
        if a != i { assert(t[a] == s[a]); }
        if b != i { assert(t[b] == s[b]); }
    }
    assert forall|a: int, k: int| 0 <= a < t.len() && (#[trigger] t[a]).offset <= k < t[a].end() implies #[trigger] r.contains(k) by {
        if a != i { assert(t[a] == s[a]); } else { assert(s[i].offset <= k < s[i].end()); }
    }
    assert forall|a: int, k: int| 0 <= a < t.len() && (#[trigger] t[a]).offset <= k < t[a].end() implies !(#[trigger] d2.contains(k)) by {
        if a != i { assert(t[a] == s[a]); assert(s[a].end() <= s[i].offset || s[i].end() <= s[a].offset); assert(!d.contains(k)); }
        else { assert(s[i].offset <= k < s[i].end()); assert(!d.contains(k)); }
    }
}
pub open spec fn seq_covers(s: Seq<Buffer>, k: int) -> bool { exists|i: int| 0 <= i < s.len() && (#[trigger] s[i]).offset <= k < s[i].end() }
pub proof fn lemma_covers_push(s: Seq<Buffer>, x: Buffer, k: int)
    ensures seq_covers(s, k) ==> seq_covers(s.push(x), k), x.offset <= k < x.end() ==> seq_covers(s.push(x), k)
{
    if seq_covers(s, k) { let i = choose|i: int| 0 <= i < s.len() && (#[trigger] s[i]).offset <= k < s[i].end(); assert(s.push(x)[i] == s[i]); }
    if x.offset <= k < x.end() { assert(s.push(x)[s.len() as int] == x); }
}
/// a kept buffer is non-empty, ends at or below `end`, and its allocation estimate covers it
pub open spec fn buf_ok(b: Buffer, end: u64) -> bool {
    &&& b.bytes@.len() > 0 && b.end() <= end && b.bytes@.len() <= b.allocation_size
    // a buffer that came straight from a frame is at most one datagram payload long (machine arithmetic in try_mark_defragment)
    &&& (!b.defragmented ==> b.bytes@.len() <= 0xffff_ffff)
}
pub proof fn lemma_all_remove(s: Seq<Buffer>, i: int, p: spec_fn(Buffer) -> bool)
    requires 0 <= i < s.len(), forall|j: int| 0 <= j < s.len() ==> p(#[trigger] s[j])
    ensures forall|j: int| 0 <= j < s.remove(i).len() ==> p(#[trigger] s.remove(i)[j])
{
    assert forall|j: int| 0 <= j < s.remove(i).len() implies p(#[trigger] s.remove(i)[j]) by {
        if j < i { assert(s.remove(i)[j] == s[j]); } else { assert(s.remove(i)[j] == s[j + 1]); }
    }
}
pub proof fn lemma_all_update(s: Seq<Buffer>, i: int, x: Buffer, p: spec_fn(Buffer) -> bool)
    requires 0 <= i < s.len(), forall|j: int| 0 <= j < s.len() ==> p(#[trigger] s[j]), p(x)
    ensures forall|j: int| 0 <= j < s.update(i, x).len() ==> p(#[trigger] s.update(i, x)[j])
{
    assert forall|j: int| 0 <= j < s.update(i, x).len() implies p(#[trigger] s.update(i, x)[j]) by {
        if j == i { } else { assert(s.update(i, x)[j] == s[j]); }
    }
}
/// removing a buffer that ends at or below the read index keeps whichever buffer holds the next byte
pub proof fn lemma_holds_remove(s: Seq<Buffer>, i: int, br: u64)
    requires 0 <= i < s.len(), s[i].end() <= br || s[i].offset > br,
        exists|j: int| 0 <= j < s.len() && (#[trigger] s[j]).offset <= br < s[j].end()
    ensures exists|j: int| 0 <= j < s.remove(i).len() && (#[trigger] s.remove(i)[j]).offset <= br < s.remove(i)[j].end()
{
    let j = choose|j: int| 0 <= j < s.len() && (#[trigger] s[j]).offset <= br < s[j].end();
    if j < i { assert(s.remove(i)[j] == s[j]); } else { assert(s.remove(i)[j - 1] == s[j]); }
}


// ---- Assembler::defragment, first pass: trimming in ascending offset order -------------------------------------------------
/// what `try_mark_defragment(offset)` makes of `o`
pub open spec fn marked(f: Buffer, o: Buffer, offset: u64) -> bool {
    &&& f.trim_of(o)
    &&& f.offset == (if o.offset >= offset { o.offset } else { offset })
    &&& f.bytes@.len() == (if offset <= o.offset { o.bytes@.len() as int } else if offset - o.offset >= o.bytes@.len() { 0int } else { o.bytes@.len() - (offset - o.offset) })
    &&& f.bytes@.len() <= f.allocation_size
    &&& (f.defragmented ==> f.allocation_size == f.bytes@.len())
    &&& (!f.defragmented ==> 0 < f.bytes@.len() <= 0xffff_ffff)
}
pub open spec fn sorted_desc(b0: Seq<Buffer>) -> bool {
    forall|a: int, b: int| 0 <= a <= b < b0.len() ==> (#[trigger] b0[a]).offset >= (#[trigger] b0[b]).offset
}
pub open spec fn all_ok(b0: Seq<Buffer>, end: u64) -> bool { forall|i: int| 0 <= i < b0.len() ==> buf_ok(#[trigger] b0[i], end) }
/// lower end of the region known to be held by processed buffers
pub open spec fn lastoff(b0: Seq<Buffer>, idx: int, start: u64) -> int {
    if idx == 0 { start as int } else if b0[b0.len() - idx].offset > start { b0[b0.len() - idx].offset as int } else { start as int }
}
/// per processed buffer
pub open spec fn fin_elem(f: Buffer, o: Buffer, start: u64, offset: u64) -> bool {
    &&& f.trim_of(o) && f.offset >= start && f.end() <= offset
    &&& f.bytes@.len() <= f.allocation_size && (f.defragmented ==> f.allocation_size == f.bytes@.len())
    &&& (!f.defragmented ==> 0 < f.bytes@.len() <= 0xffff_ffff)
}
/// state of the first pass: `fin` = the processed buffers in processing (ascending offset) order, `offset` = running end
#[verifier::opaque]
pub open spec fn p1(fin: Seq<Buffer>, b0: Seq<Buffer>, start: u64, offset: u64, end: u64) -> bool {
    let n = b0.len() as int;
    let idx = fin.len() as int;
    &&& idx <= n && start <= offset && (offset <= end || offset == start)
    &&& sum_len(fin) + start <= offset
    &&& forall|i: int| 0 <= i < idx ==> fin_elem(#[trigger] fin[i], b0[n - 1 - i], start, offset)
    &&& forall|i: int, j: int| 0 <= i < j < idx ==> (#[trigger] fin[i]).end() <= (#[trigger] fin[j]).offset
    &&& sum_len(fin) <= sum_len(b0.skip(n - idx))
    // everything between the latest original's start and the running end is held by a processed buffer
    &&& forall|k: int| lastoff(b0, idx, start) <= k < offset ==> seq_covers(fin, k)
    // no offset at or above `start` that a processed original held has been lost
    &&& forall|k: int, i: int| 0 <= i < idx && k >= start && (#[trigger] b0[n - 1 - i]).offset <= k < b0[n - 1 - i].end() ==> #[trigger] seq_covers(fin, k)
}
pub proof fn lemma_p1_init(b0: Seq<Buffer>, start: u64, end: u64)
    ensures p1(Seq::<Buffer>::empty(), b0, start, start, end)
{
    reveal(p1);
    assert(b0.skip(b0.len() as int) =~= Seq::<Buffer>::empty());
}
pub proof fn lemma_p1_step(fin: Seq<Buffer>, b0: Seq<Buffer>, start: u64, offset: u64, end: u64, f: Buffer)
    requires p1(fin, b0, start, offset, end), sorted_desc(b0), all_ok(b0, end), fin.len() < b0.len(),
        marked(f, b0[b0.len() - 1 - fin.len()], offset), end <= 0x4000_0000_0000_0000, start <= 0x4000_0000_0000_0000,
    ensures f.offset + f.bytes@.len() <= 0x4000_0000_0000_0000,
        p1(fin.push(f), b0, start, (f.offset + f.bytes@.len()) as u64, end),
        sum_len(fin.push(f)) == sum_len(fin) + f.bytes@.len(),
        sum_len(fin.push(f)) + start <= f.offset + f.bytes@.len(),
{
    reveal(p1);
    let n = b0.len() as int;
    let idx = fin.len() as int;
    let o = b0[n - 1 - idx];
    let fin1 = fin.push(f);
    let offset1 = (f.offset + f.bytes@.len()) as u64;
    assert(buf_ok(o, end));
    lemma_sum_push(fin, f);
    lemma_sum_skip(b0, n - 1 - idx);
    assert forall|i: int| 0 <= i < idx + 1 implies fin_elem(#[trigger] fin1[i], b0[n - 1 - i], start, offset1) by {
        if i < idx { assert(fin1[i] == fin[i]); assert(fin_elem(fin[i], b0[n - 1 - i], start, offset)); }
    }
    assert forall|i: int, j: int| 0 <= i < j < idx + 1 implies (#[trigger] fin1[i]).end() <= (#[trigger] fin1[j]).offset by {
        assert(fin1[i] == fin[i]);
        assert(fin_elem(fin[i], b0[n - 1 - i], start, offset));
        if j < idx { assert(fin1[j] == fin[j]); }
    }
    assert forall|k: int| #![trigger seq_covers(fin1, k)] seq_covers(fin, k) implies seq_covers(fin1, k) by { lemma_covers_push(fin, f, k); }
    assert forall|k: int| lastoff(b0, idx + 1, start) <= k < offset1 implies seq_covers(fin1, k) by {
        if k < offset {
            if idx > 0 { assert(b0[n - idx].offset <= o.offset); }
            assert(seq_covers(fin, k));
        } else {
            lemma_covers_push(fin, f, k);
        }
    }
    assert forall|k: int, i: int| 0 <= i < idx + 1 && k >= start && (#[trigger] b0[n - 1 - i]).offset <= k < b0[n - 1 - i].end() implies #[trigger] seq_covers(fin1, k) by {
        if i < idx { assert(seq_covers(fin, k)); }
    }
}

pub open spec fn cons(hv: Seq<Buffer>, s: Seq<u8>) -> bool { forall|j: int| 0 <= j < hv.len() ==> (#[trigger] hv[j]).matches(s) }
/// what the second pass needs to know about the trimmed buffers
#[verifier::opaque]
pub open spec fn fin_static(fin: Seq<Buffer>, start: u64, end: u64, hv: Seq<Buffer>) -> bool {
    &&& end <= 0x4000_0000_0000_0000
    &&& forall|i: int| 0 <= i < fin.len() ==> (#[trigger] fin[i]).offset >= start && fin[i].end() <= end && fin[i].bytes@.len() <= fin[i].allocation_size
            && (fin[i].defragmented ==> fin[i].allocation_size == fin[i].bytes@.len()) && (!fin[i].defragmented ==> 0 < fin[i].bytes@.len() <= 0xffff_ffff)
    &&& forall|i: int, j: int| 0 <= i < j < fin.len() ==> (#[trigger] fin[i]).end() <= (#[trigger] fin[j]).offset
    &&& forall|s: Seq<u8>, i: int| #![trigger fin[i].matches(s)] cons(hv, s) && 0 <= i < fin.len() && fin[i].bytes@.len() > 0 ==> fin[i].matches(s)
}
pub proof fn lemma_p1_final(fin: Seq<Buffer>, b0: Seq<Buffer>, start: u64, offset: u64, end: u64, hv: Seq<Buffer>)
    requires p1(fin, b0, start, offset, end), fin.len() == b0.len(), all_ok(b0, end), start <= end, end <= 0x4000_0000_0000_0000,
        forall|i: int| 0 <= i < b0.len() ==> hv.contains(#[trigger] b0[i]),
        forall|j: int| 0 <= j < hv.len() ==> b0.contains(#[trigger] hv[j]),
    ensures fin_static(fin, start, end, hv), sum_len(fin) <= sum_len(b0),
        forall|k: int| k >= start && seq_covers(hv, k) ==> seq_covers(fin, k),
        forall|k: int| seq_covers(fin, k) ==> seq_covers(hv, k),
{
    reveal(p1); reveal(fin_static);
    let n = b0.len() as int;
    assert forall|k: int| seq_covers(fin, k) implies seq_covers(hv, k) by {
        let i = choose|i: int| 0 <= i < fin.len() && (#[trigger] fin[i]).offset <= k < fin[i].end();
        let o = b0[n - 1 - i];
        assert(fin_elem(fin[i], o, start, offset));
        assert(hv.contains(o));
        let j = choose|j: int| 0 <= j < hv.len() && hv[j] == o;
        assert(hv[j].offset <= k < hv[j].end());
    }
    assert(b0.skip(0) =~= b0);
    assert forall|i: int| 0 <= i < n implies (#[trigger] fin[i]).offset >= start && fin[i].end() <= end && fin[i].bytes@.len() <= fin[i].allocation_size
            && (fin[i].defragmented ==> fin[i].allocation_size == fin[i].bytes@.len()) && (!fin[i].defragmented ==> 0 < fin[i].bytes@.len() <= 0xffff_ffff) by {
        assert(fin_elem(fin[i], b0[n - 1 - i], start, offset));
    }
    assert forall|s: Seq<u8>, i: int| #![trigger fin[i].matches(s)] cons(hv, s) && 0 <= i < n && fin[i].bytes@.len() > 0 implies fin[i].matches(s) by {
        let o = b0[n - 1 - i];
        assert(fin_elem(fin[i], o, start, offset));
        assert(hv.contains(o));
        let j = choose|j: int| 0 <= j < hv.len() && hv[j] == o;
        assert(hv[j].matches(s));
    }
    assert forall|k: int| k >= start && seq_covers(hv, k) implies seq_covers(fin, k) by {
        let j = choose|j: int| 0 <= j < hv.len() && (#[trigger] hv[j]).offset <= k < hv[j].end();
        assert(b0.contains(hv[j]));
        let i = choose|i: int| 0 <= i < b0.len() && b0[i] == hv[j];
        assert(b0[n - 1 - (n - 1 - i)] == hv[j]);
    }
}

// ---- Assembler::defragment, second pass: rebuilding the heap, merging contiguous fragments --------------------------------
pub open spec fn heap_elem(b: Buffer, start: u64, end: u64) -> bool { buf_ok(b, end) && b.allocation_size == b.bytes@.len() && b.offset >= start }
/// state of the second pass: `h` = the rebuilt heap, (`off`, `buf`) = the merge buffer, `idx` = how many of `fin` are done
#[verifier::opaque]
pub open spec fn p2(h: Seq<Buffer>, buf: Seq<u8>, off: int, fin: Seq<Buffer>, idx: int, start: u64, end: u64, hv: Seq<Buffer>) -> bool {
    let n = fin.len() as int;
    &&& 0 <= idx <= n
    &&& forall|j: int| 0 <= j < h.len() ==> heap_elem(#[trigger] h[j], start, end)
    &&& pairwise_disjoint(h)
    &&& forall|j: int, i: int| 0 <= j < h.len() && idx <= i < n ==> (#[trigger] h[j]).end() <= (#[trigger] fin[i]).offset
    &&& forall|s: Seq<u8>, j: int| #![trigger h[j].matches(s)] cons(hv, s) && 0 <= j < h.len() ==> h[j].matches(s)
    &&& 0 <= off <= 0x4000_0000_0000_0000 && buf.len() <= 0x4000_0000_0000_0000
    &&& (buf.len() > 0 ==> off >= start && off + buf.len() <= end)
    &&& (buf.len() > 0 ==> forall|i: int| idx <= i < n ==> off + buf.len() <= (#[trigger] fin[i]).offset)
    &&& (buf.len() > 0 ==> forall|j: int| 0 <= j < h.len() ==> (#[trigger] h[j]).end() <= off || h[j].offset >= off + buf.len())
    &&& forall|s: Seq<u8>| #[trigger] cons(hv, s) && buf.len() > 0 ==> off + buf.len() <= s.len() && buf =~= s.subrange(off, off + buf.len())
    &&& sum_len(h) + buf.len() == sum_len(fin.take(idx))
    &&& forall|k: int| seq_covers(fin.take(idx), k) ==> seq_covers(h, k) || off <= k < off + buf.len()
    // and nothing else
    &&& forall|k: int| seq_covers(h, k) || off <= k < off + buf.len() ==> #[trigger] seq_covers(fin.take(idx), k)
}
/// the merge buffer has been pushed as one defragmented buffer
pub open spec fn flushed(h0: Seq<Buffer>, hn: Seq<Buffer>, off0: int, buf0: Seq<u8>) -> bool {
    hn.len() == h0.len() + 1 && hn.drop_last() =~= h0 && hn.last().offset == off0 && hn.last().bytes@ == buf0
        && hn.last().allocation_size == buf0.len() && hn.last().defragmented
}
/// one iteration of the second loop on trimmed buffer `c`
pub open spec fn step2(h0: Seq<Buffer>, buf0: Seq<u8>, off0: int, hn: Seq<Buffer>, bufn: Seq<u8>, offn: int, c: Buffer) -> bool {
    if c.defragmented {
        bufn == buf0 && offn == off0 && (if c.bytes@.len() > 0 { hn == h0.push(c) } else { hn == h0 })
    } else if c.offset != off0 + buf0.len() {
        offn == c.offset && bufn =~= c.bytes@ && (if buf0.len() > 0 { flushed(h0, hn, off0, buf0) } else { hn == h0 })
    } else {
        hn == h0 && offn == off0 && bufn =~= buf0 + c.bytes@
    }
}
pub proof fn lemma_p2_init(fin: Seq<Buffer>, start: u64, end: u64, hv: Seq<Buffer>)
    ensures p2(Seq::<Buffer>::empty(), Seq::<u8>::empty(), 0, fin, 0, start, end, hv)
{
    reveal(p2);
    assert(fin.take(0) =~= Seq::<Buffer>::empty());
}
pub proof fn lemma_p2_bounds(h: Seq<Buffer>, buf: Seq<u8>, off: int, fin: Seq<Buffer>, idx: int, start: u64, end: u64, hv: Seq<Buffer>)
    requires p2(h, buf, off, fin, idx, start, end, hv)
    ensures 0 <= off <= 0x4000_0000_0000_0000, buf.len() <= 0x4000_0000_0000_0000
{ reveal(p2); }
/// pushing buffer x (at or above everything pushed so far, below everything still to come)
pub proof fn lemma_p2_push(h: Seq<Buffer>, x: Buffer, start: u64, end: u64, hv: Seq<Buffer>)
    requires forall|j: int| 0 <= j < h.len() ==> heap_elem(#[trigger] h[j], start, end), pairwise_disjoint(h),
        forall|s: Seq<u8>, j: int| #![trigger h[j].matches(s)] cons(hv, s) && 0 <= j < h.len() ==> h[j].matches(s),
        heap_elem(x, start, end), forall|s: Seq<u8>| #[trigger] cons(hv, s) ==> x.matches(s),
        forall|j: int| 0 <= j < h.len() ==> (#[trigger] h[j]).end() <= x.offset || x.end() <= h[j].offset,
    ensures forall|j: int| 0 <= j < h.push(x).len() ==> heap_elem(#[trigger] h.push(x)[j], start, end), pairwise_disjoint(h.push(x)),
        forall|s: Seq<u8>, j: int| #![trigger h.push(x)[j].matches(s)] cons(hv, s) && 0 <= j < h.push(x).len() ==> h.push(x)[j].matches(s),
        sum_len(h.push(x)) == sum_len(h) + x.bytes@.len(),
        forall|k: int| seq_covers(h, k) || x.offset <= k < x.end() ==> #[trigger] seq_covers(h.push(x), k),
{
    let t = h.push(x);
    lemma_sum_push(h, x);
    lemma_disjoint_push(h, x);
    assert forall|j: int| 0 <= j < t.len() implies heap_elem(#[trigger] t[j], start, end) by { if j < h.len() { assert(t[j] == h[j]); } }
    assert forall|s: Seq<u8>, j: int| #![trigger t[j].matches(s)] cons(hv, s) && 0 <= j < t.len() implies t[j].matches(s) by { if j < h.len() { assert(t[j] == h[j]); } }
    assert forall|k: int| seq_covers(h, k) || x.offset <= k < x.end() implies #[trigger] seq_covers(t, k) by { lemma_covers_push(h, x, k); }
}

pub proof fn lemma_p2_pushchunk(h: Seq<Buffer>, buf: Seq<u8>, off: int, fin: Seq<Buffer>, idx: int, start: u64, end: u64, hv: Seq<Buffer>)
    requires p2(h, buf, off, fin, idx, start, end, hv), fin_static(fin, start, end, hv), 0 <= idx < fin.len(),
        fin[idx].defragmented, fin[idx].bytes@.len() > 0,
    ensures p2(h.push(fin[idx]), buf, off, fin, idx + 1, start, end, hv)
{
    reveal(p2); reveal(fin_static);
    let c = fin[idx];
    let n = fin.len() as int;
    assert(c.offset >= start && c.end() <= end);
    assert forall|s: Seq<u8>| #[trigger] cons(hv, s) implies c.matches(s) by { assert(fin[idx].matches(s)); }
    assert forall|j: int| 0 <= j < h.len() implies (#[trigger] h[j]).end() <= c.offset || c.end() <= h[j].offset by { assert(h[j].end() <= fin[idx].offset); }
    lemma_p2_push(h, c, start, end, hv);
    let t = h.push(c);
    lemma_sum_take(fin, idx);
    assert forall|j: int, i: int| 0 <= j < t.len() && idx + 1 <= i < n implies (#[trigger] t[j]).end() <= (#[trigger] fin[i]).offset by {
        if j < h.len() { assert(t[j] == h[j]); } else { assert(t[j] == c); assert(fin[idx].end() <= fin[i].offset); }
    }
    if buf.len() > 0 {
        assert(off + buf.len() <= fin[idx].offset);
        assert forall|j: int| 0 <= j < t.len() implies (#[trigger] t[j]).end() <= off || t[j].offset >= off + buf.len() by {
            if j < h.len() { assert(t[j] == h[j]); }
        }
    }
    assert forall|k: int| seq_covers(fin.take(idx + 1), k) implies seq_covers(t, k) || off <= k < off + buf.len() by {
        lemma_covers_take(fin, idx, k);
    }
    assert forall|k: int| seq_covers(t, k) || off <= k < off + buf.len() implies #[trigger] seq_covers(fin.take(idx + 1), k) by {
        if seq_covers(t, k) { lemma_covers_push_rev(h, c, k); }
        if seq_covers(h, k) || off <= k < off + buf.len() { assert(seq_covers(fin.take(idx), k)); }
        lemma_covers_take_mono(fin, idx, k);
    }
}
pub proof fn lemma_p2_skip(h: Seq<Buffer>, buf: Seq<u8>, off: int, fin: Seq<Buffer>, idx: int, start: u64, end: u64, hv: Seq<Buffer>)
    requires p2(h, buf, off, fin, idx, start, end, hv), 0 <= idx < fin.len(), fin[idx].bytes@.len() == 0,
    ensures p2(h, buf, off, fin, idx + 1, start, end, hv)
{
    reveal(p2);
    lemma_sum_take(fin, idx);
    assert forall|k: int| seq_covers(fin.take(idx + 1), k) implies seq_covers(h, k) || off <= k < off + buf.len() by {
        lemma_covers_take(fin, idx, k);
    }
    assert forall|k: int| seq_covers(h, k) || off <= k < off + buf.len() implies #[trigger] seq_covers(fin.take(idx + 1), k) by {
        assert(seq_covers(fin.take(idx), k));
        lemma_covers_take_mono(fin, idx, k);
    }
}
pub proof fn lemma_p2_flush(h: Seq<Buffer>, buf: Seq<u8>, off: int, hn: Seq<Buffer>, fin: Seq<Buffer>, idx: int, start: u64, end: u64, hv: Seq<Buffer>, offn: int)
    requires p2(h, buf, off, fin, idx, start, end, hv), buf.len() > 0, flushed(h, hn, off, buf), 0 <= offn <= 0x4000_0000_0000_0000,
    ensures p2(hn, Seq::<u8>::empty(), offn, fin, idx, start, end, hv)
{
    reveal(p2);
    let m = hn.last();
    let n = fin.len() as int;
    assert(hn =~= h.push(m));
    assert(m.end() == off + buf.len());
    assert(heap_elem(m, start, end));
    assert forall|s: Seq<u8>| #[trigger] cons(hv, s) implies m.matches(s) by { }
    lemma_p2_push(h, m, start, end, hv);
    assert forall|j: int, i: int| 0 <= j < hn.len() && idx <= i < n implies (#[trigger] hn[j]).end() <= (#[trigger] fin[i]).offset by {
        if j < h.len() { assert(hn[j] == h[j]); }
    }
    assert forall|k: int| seq_covers(fin.take(idx), k) implies seq_covers(hn, k) by { }
    assert forall|k: int| seq_covers(hn, k) implies #[trigger] seq_covers(fin.take(idx), k) by {
        lemma_covers_push_rev(h, m, k);
        if seq_covers(h, k) || off <= k < off + buf.len() { assert(seq_covers(fin.take(idx), k)); }
    }
}
pub proof fn lemma_p2_restart(h: Seq<Buffer>, off: int, fin: Seq<Buffer>, idx: int, start: u64, end: u64, hv: Seq<Buffer>)
    requires p2(h, Seq::<u8>::empty(), off, fin, idx, start, end, hv), fin_static(fin, start, end, hv), 0 <= idx < fin.len(), !fin[idx].defragmented,
    ensures p2(h, fin[idx].bytes@, fin[idx].offset as int, fin, idx + 1, start, end, hv)
{
    reveal(p2); reveal(fin_static);
    let c = fin[idx];
    let n = fin.len() as int;
    lemma_sum_take(fin, idx);
    assert forall|i: int| idx + 1 <= i < n implies c.offset + c.bytes@.len() <= (#[trigger] fin[i]).offset by { assert(fin[idx].end() <= fin[i].offset); }
    assert forall|j: int| 0 <= j < h.len() implies (#[trigger] h[j]).end() <= c.offset || h[j].offset >= c.offset + c.bytes@.len() by { assert(h[j].end() <= fin[idx].offset); }
    assert forall|s: Seq<u8>| #[trigger] cons(hv, s) implies c.offset + c.bytes@.len() <= s.len() && c.bytes@ =~= s.subrange(c.offset as int, c.offset + c.bytes@.len()) by {
        assert(fin[idx].matches(s));
    }
    assert forall|k: int| seq_covers(fin.take(idx + 1), k) implies seq_covers(h, k) || c.offset <= k < c.offset + c.bytes@.len() by {
        lemma_covers_take(fin, idx, k);
    }
    assert forall|k: int| seq_covers(h, k) || c.offset <= k < c.offset + c.bytes@.len() implies #[trigger] seq_covers(fin.take(idx + 1), k) by {
        if seq_covers(h, k) { assert(seq_covers(fin.take(idx), k)); }
        lemma_covers_take_mono(fin, idx, k);
    }
}
pub proof fn lemma_p2_extend(h: Seq<Buffer>, buf: Seq<u8>, off: int, fin: Seq<Buffer>, idx: int, start: u64, end: u64, hv: Seq<Buffer>)
    requires p2(h, buf, off, fin, idx, start, end, hv), fin_static(fin, start, end, hv), 0 <= idx < fin.len(), !fin[idx].defragmented,
        buf.len() > 0, fin[idx].offset == off + buf.len(),
    ensures p2(h, buf + fin[idx].bytes@, off, fin, idx + 1, start, end, hv)
{
    reveal(p2); reveal(fin_static);
    let c = fin[idx];
    let n = fin.len() as int;
    let b2 = buf + c.bytes@;
    lemma_sum_take(fin, idx);
    assert(off + b2.len() == c.end());
    assert forall|i: int| idx + 1 <= i < n implies off + b2.len() <= (#[trigger] fin[i]).offset by { assert(fin[idx].end() <= fin[i].offset); }
    assert forall|j: int| 0 <= j < h.len() implies (#[trigger] h[j]).end() <= off || h[j].offset >= off + b2.len() by {
        assert(h[j].end() <= fin[idx].offset);
        assert(heap_elem(h[j], start, end));
    }
    assert forall|s: Seq<u8>| #[trigger] cons(hv, s) implies off + b2.len() <= s.len() && b2 =~= s.subrange(off, off + b2.len()) by {
        assert(fin[idx].matches(s));
        assert(buf =~= s.subrange(off, off + buf.len()));
    }
    assert forall|k: int| seq_covers(fin.take(idx + 1), k) implies seq_covers(h, k) || off <= k < off + b2.len() by {
        lemma_covers_take(fin, idx, k);
    }
    assert forall|k: int| seq_covers(h, k) || off <= k < off + b2.len() implies #[trigger] seq_covers(fin.take(idx + 1), k) by {
        if seq_covers(h, k) || off <= k < off + buf.len() { assert(seq_covers(fin.take(idx), k)); }
        lemma_covers_take_mono(fin, idx, k);
    }
}
pub proof fn lemma_p2_step(h0: Seq<Buffer>, buf0: Seq<u8>, off0: int, hn: Seq<Buffer>, bufn: Seq<u8>, offn: int, fin: Seq<Buffer>, idx: int, start: u64, end: u64, hv: Seq<Buffer>)
    requires p2(h0, buf0, off0, fin, idx, start, end, hv), fin_static(fin, start, end, hv), 0 <= idx < fin.len(),
        step2(h0, buf0, off0, hn, bufn, offn, fin[idx]),
    ensures p2(hn, bufn, offn, fin, idx + 1, start, end, hv)
{
    let c = fin[idx];
    if c.defragmented {
        if c.bytes@.len() > 0 { lemma_p2_pushchunk(h0, buf0, off0, fin, idx, start, end, hv); }
        else { lemma_p2_skip(h0, buf0, off0, fin, idx, start, end, hv); }
    } else if c.offset != off0 + buf0.len() {
        assert(0 <= c.offset <= 0x4000_0000_0000_0000) by { reveal(fin_static); }
        if buf0.len() > 0 {
            lemma_p2_flush(h0, buf0, off0, hn, fin, idx, start, end, hv, c.offset as int);
            lemma_p2_restart(hn, c.offset as int, fin, idx, start, end, hv);
        } else {
            assert(buf0 =~= Seq::<u8>::empty());
            lemma_p2_restart(h0, off0, fin, idx, start, end, hv);
        }
        assert(bufn == c.bytes@);
    } else {
        if buf0.len() > 0 {
            lemma_p2_extend(h0, buf0, off0, fin, idx, start, end, hv);
            assert(bufn == buf0 + c.bytes@);
        } else {
            assert(buf0 =~= Seq::<u8>::empty());
            lemma_p2_restart(h0, off0, fin, idx, start, end, hv);
            assert(bufn == c.bytes@);
        }
    }
}
/// the rebuilt heap once every trimmed buffer is done and the merge buffer has been flushed
pub open spec fn post2(h: Seq<Buffer>, fin: Seq<Buffer>, start: u64, end: u64, hv: Seq<Buffer>) -> bool {
    &&& forall|j: int| 0 <= j < h.len() ==> heap_elem(#[trigger] h[j], start, end)
    &&& pairwise_disjoint(h)
    &&& forall|s: Seq<u8>, j: int| #![trigger h[j].matches(s)] cons(hv, s) && 0 <= j < h.len() ==> h[j].matches(s)
    &&& sum_len(h) == sum_len(fin)
    &&& forall|k: int| seq_covers(fin, k) ==> seq_covers(h, k)
    &&& forall|k: int| seq_covers(h, k) ==> seq_covers(fin, k)
}
pub proof fn lemma_p2_finish(h0: Seq<Buffer>, buf0: Seq<u8>, off0: int, hn: Seq<Buffer>, fin: Seq<Buffer>, start: u64, end: u64, hv: Seq<Buffer>)
    requires p2(h0, buf0, off0, fin, fin.len() as int, start, end, hv),
        if buf0.len() > 0 { flushed(h0, hn, off0, buf0) } else { hn == h0 },
    ensures post2(hn, fin, start, end, hv)
{
    assert(fin.take(fin.len() as int) =~= fin);
    if buf0.len() > 0 {
        lemma_p2_flush(h0, buf0, off0, hn, fin, fin.len() as int, start, end, hv, 0);
        reveal(p2);
    } else {
        reveal(p2);
    }
}

// ---- Assembler::insert in unordered mode: only offsets that were not received before are buffered ---------------------------
pub open spec fn fresh(x: Buffer, r0: Set<int>) -> bool { forall|k: int| x.offset <= k < x.end() ==> !(#[trigger] r0.contains(k)) }
/// `h` = the old buffers `base` followed by fresh pieces lying in [off0, lim), all pairwise disjoint
#[verifier::opaque]
pub open spec fn uq(h: Seq<Buffer>, base: Seq<Buffer>, r0: Set<int>, off0: int, lim: int) -> bool {
    &&& h.len() >= base.len() && forall|j: int| 0 <= j < base.len() ==> #[trigger] h[j] == base[j]
    &&& forall|j: int| base.len() <= j < h.len() ==> fresh(#[trigger] h[j], r0) && off0 <= h[j].offset && h[j].end() <= lim
    &&& pairwise_disjoint(h)
}
pub proof fn lemma_uq_init(base: Seq<Buffer>, r0: Set<int>, off0: int)
    requires pairwise_disjoint(base)
    ensures uq(base, base, r0, off0, off0)
{ reveal(uq); }
pub proof fn lemma_uq_grow(h: Seq<Buffer>, base: Seq<Buffer>, r0: Set<int>, off0: int, lim: int, lim2: int)
    requires uq(h, base, r0, off0, lim), lim <= lim2
    ensures uq(h, base, r0, off0, lim2)
{ reveal(uq); }
pub proof fn lemma_uq_push(h: Seq<Buffer>, base: Seq<Buffer>, r0: Set<int>, off0: int, lim: int, x: Buffer, lim2: int)
    requires uq(h, base, r0, off0, lim), bufs_in(base, r0), fresh(x, r0), x.bytes@.len() > 0, off0 <= lim <= x.offset, x.end() <= lim2,
        forall|j: int| 0 <= j < base.len() ==> (#[trigger] base[j]).bytes@.len() > 0,
    ensures uq(h.push(x), base, r0, off0, lim2)
{
    reveal(uq);
    let t = h.push(x);
    assert forall|j: int| 0 <= j < h.len() implies (#[trigger] h[j]).end() <= x.offset || x.end() <= h[j].offset by {
        if j < base.len() {
            assert(h[j] == base[j]);
            // an old buffer holds only received offsets, x only fresh ones: they cannot share x's first offset or the buffer's
            if !(h[j].end() <= x.offset || x.end() <= h[j].offset) {
                let k = if h[j].offset >= x.offset { h[j].offset as int } else { x.offset as int };
                assert(base[j].offset <= k < base[j].end());
                assert(r0.contains(k));
                assert(x.offset <= k < x.end());
            }
        } else {
            assert(fresh(h[j], r0) && h[j].end() <= lim);
        }
    }
    lemma_disjoint_push(h, x);
    assert forall|j: int| 0 <= j < base.len() implies #[trigger] t[j] == base[j] by { assert(t[j] == h[j]); }
    assert forall|j: int| base.len() <= j < t.len() implies fresh(#[trigger] t[j], r0) && off0 <= t[j].offset && t[j].end() <= lim2 by {
        if j < h.len() { assert(t[j] == h[j]); assert(fresh(h[j], r0) && off0 <= h[j].offset && h[j].end() <= lim); }
    }
}
pub proof fn lemma_uq_final(h: Seq<Buffer>, base: Seq<Buffer>, r0: Set<int>, off0: int, end0: int, rf: Set<int>)
    requires uq(h, base, r0, off0, end0), bufs_in(base, r0), rf =~= r0.union(set_int_range(off0, end0))
    ensures pairwise_disjoint(h), bufs_in(h, rf),
        forall|d: Set<int>| d.subset_of(r0) && #[trigger] bufs_out(base, d) ==> bufs_out(h, d) && d.subset_of(rf),
{
    reveal(uq);
    assert forall|i: int, k: int| 0 <= i < h.len() && (#[trigger] h[i]).offset <= k < h[i].end() implies #[trigger] rf.contains(k) by {
        if i < base.len() { assert(h[i] == base[i]); assert(r0.contains(k)); }
        else { assert(off0 <= h[i].offset && h[i].end() <= end0); }
    }
    assert forall|d: Set<int>| d.subset_of(r0) && #[trigger] bufs_out(base, d) implies bufs_out(h, d) && d.subset_of(rf) by {
        assert forall|i: int, k: int| 0 <= i < h.len() && (#[trigger] h[i]).offset <= k < h[i].end() implies !(#[trigger] d.contains(k)) by {
            if i < base.len() { assert(h[i] == base[i]); }
            else { assert(fresh(h[i], r0)); assert(!r0.contains(k)); }
        }
    }
}
pub proof fn lemma_gap_fresh(seq: Seq<Range<u64>>, off0: u64, end0: u64, idx: int, k: int)
    requires valid_dups(seq, off0, end0), 0 <= idx <= seq.len(), idx < seq.len() ==> k < seq[idx].start
    ensures !in_dups_from(seq, idx, k)
{
    if in_dups_from(seq, idx, k) {
        let i = choose|i: int| idx <= i < seq.len() && (#[trigger] seq[i]).start <= k < seq[i].end;
        if i > idx { assert(seq[idx].end <= seq[i].start); }
    }
}
pub proof fn lemma_from_step(seq: Seq<Range<u64>>, off0: u64, end0: u64, idx: int, k: int)
    requires valid_dups(seq, off0, end0), 0 <= idx < seq.len(), k >= seq[idx].end, in_dups_from(seq, idx, k)
    ensures in_dups_from(seq, idx + 1, k)
{
    let i = choose|i: int| idx <= i < seq.len() && (#[trigger] seq[i]).start <= k < seq[i].end;
    assert(i != idx);
}

impl Assembler {
    pub open spec fn bufs(&self) -> Seq<Buffer> { heap_view(self.data) }
    /// representation invariant: byte accounting is exact, no empty buffer is kept, nothing lies beyond `end`
    pub open spec fn wf(&self) -> bool {
        &&& self.end <= 0x4000_0000_0000_0000
        &&& self.buffered == sum_len(self.bufs())
        &&& self.allocated == sum_alloc(self.bufs())
        &&& forall|i: int| 0 <= i < self.bufs().len() ==> buf_ok(#[trigger] self.bufs()[i], self.end)
        &&& match self.state {
            State::Ordered => self.bytes_read <= self.end,
            // unordered: what has been delivered plus what is buffered never exceeds the number of distinct offsets received
            State::Unordered { recvd } => self.bytes_read + sum_len(self.bufs()) <= recvd.total() && recvd.total() <= recvd.bound() && recvd.bound() <= self.end,
        }
    }
    /// unordered mode: buffers are pairwise disjoint and hold only offsets that are counted as received
    pub open spec fn uwf(&self) -> bool {
        match self.state { State::Ordered => true, State::Unordered { recvd } => pairwise_disjoint(self.bufs()) && bufs_in(self.bufs(), recvd@) }
    }
    /// `d` = offsets the application has been given already: all counted as received, none still buffered
    pub open spec fn udinv(&self, d: Set<int>) -> bool {
        match self.state { State::Ordered => true, State::Unordered { recvd } => d.subset_of(recvd@) && bufs_out(self.bufs(), d) }
    }
    /// every buffered chunk holds the sender's bytes at its offset
    pub open spec fn consistent(&self, s: Seq<u8>) -> bool { cons(self.bufs(), s) }
    /// ordered mode: some buffer still holds the byte at the read index
    pub open spec fn holds_next(&self) -> bool {
        exists|i: int| 0 <= i < self.bufs().len() && (#[trigger] self.bufs()[i]).offset <= self.bytes_read < self.bufs()[i].end()
    }
    pub open spec fn recvd_total(&self) -> nat { match self.state { State::Unordered { recvd } => recvd.total(), _ => 0 } }
    pub open spec fn recvd_bound(&self) -> nat { match self.state { State::Unordered { recvd } => recvd.bound(), _ => 0 } }
    /// some buffer holds stream offset k
    pub open spec fn covers(&self, k: int) -> bool { seq_covers(self.bufs(), k) }
//@ extract quinn-proto/src/connection/assembler.rs :: impl Assembler::fn defragment
//@ vis pub
//@ attr #[verifier::rlimit(100)]
//@ contract
        requires old(self).wf()
        ensures final(self).wf(), final(self).state == old(self).state, final(self).end == old(self).end, final(self).bytes_read == old(self).bytes_read,
            forall|s: Seq<u8>| old(self).consistent(s) ==> final(self).consistent(s),
            // nothing that is still to be delivered is lost (ordered mode drops what lies below the read index)
            forall|k: int| old(self).covers(k) && (final(self).state is Ordered ==> k >= final(self).bytes_read) ==> final(self).covers(k),
            pairwise_disjoint(final(self).bufs()),
            // ordered mode: nothing that was already consumed stays buffered
            final(self).state is Ordered ==> forall|i: int| 0 <= i < final(self).bufs().len() ==> (#[trigger] final(self).bufs()[i]).offset >= final(self).bytes_read,
            // nothing is buffered afterwards that was not buffered before
            forall|k: int| final(self).covers(k) ==> old(self).covers(k),
            old(self).uwf() ==> final(self).uwf(),
            forall|d: Set<int>| #[trigger] old(self).udinv(d) ==> final(self).udinv(d),
//@ at-start
        let ghost hv = self.bufs();
        let ghost me0 = *self;   // (a local named `old` shadows old(..) below)
//@ after let mut buffers = old.into_sorted_vec();
        let ghost b0 = buffers@;
        let ghost n = b0.len() as int;
        let ghost mut fin: Seq<Buffer> = Seq::empty();
        proof {
            assert(all_ok(b0, self.end)) by {
                assert forall|i: int| 0 <= i < n implies buf_ok(#[trigger] b0[i], self.end) by {
                    let j = choose|j: int| 0 <= j < hv.len() && hv[j] == b0[i];
                }
            }
            // ascending in Ord order = descending offsets
            assert(sorted_desc(b0)) by {
                assert forall|a: int, b: int| 0 <= a <= b < n implies (#[trigger] b0[a]).offset >= (#[trigger] b0[b]).offset by {
                    assert(!(b0[a].cmp_spec(&b0[b]) is Greater));
                }
            }
        }
//@ after let mut offset = #0
        let ghost start = offset;
        proof { lemma_p1_init(b0, start, self.end); }
//@ loop-iter 0 it
//@ loop 0
            invariant
                it.seq().len() == n, fin.len() == it.index@, n == b0.len(),
                forall|i: int| 0 <= i < n ==> *(#[trigger] it.seq()[i]) == b0[n - 1 - i],
                forall|i: int| 0 <= i < it.index@ ==> *final(it.seq()[i]) == #[trigger] fin[i],
                all_ok(b0, self.end), sorted_desc(b0),
                self.end == me0.end, self.end <= 0x4000_0000_0000_0000, self.bytes_read == me0.bytes_read, self.state == me0.state,
                start <= 0x4000_0000_0000_0000, offset <= 0x4000_0000_0000_0000,
                p1(fin, b0, start, offset, self.end),
                self.buffered == sum_len(fin), fragmented_buffered <= self.buffered, self.buffered + start <= offset,
//@ loop-start 0
            proof {
                assert(*chunk == b0[n - 1 - it.index@]);
                assert(buf_ok(b0[n - 1 - it.index@], self.end));
            }
//@ after chunk.try_mark_defragment(offset);
            proof { lemma_p1_step(fin, b0, start, offset, self.end, *chunk); }
//@ loop-end 0
            proof { fin = fin.push(*chunk); }
//@ after for chunk in buffers.iter_mut().rev()
        proof {
            assert(fin.len() == n);
            assert forall|i: int| 0 <= i < n implies buffers@[i] == fin[n - 1 - i] by {
                let k = n - 1 - i;
                assert(fin[k] == fin[k]);
            }
            lemma_p1_final(fin, b0, start, offset, self.end, hv);
            lemma_p2_init(fin, start, self.end, hv);
        }
//@ loop-iter 1 it
//@ loop 1
            invariant
                it.seq().len() == n, fin.len() == n, forall|i: int| 0 <= i < n ==> #[trigger] it.seq()[i] == fin[i],
                self.end == me0.end, self.bytes_read == me0.bytes_read, self.state == me0.state,
                self.buffered == sum_len(fin), self.allocated == self.buffered,
                fin_static(fin, start, self.end, hv),
                p2(heap_view(self.data), buffer@, offset as int, fin, it.index@, start, self.end, hv),
//@ loop-start 1
            let ghost idx = it.index@;
            let ghost h0 = heap_view(self.data);
            let ghost buf0 = buffer@;
            let ghost off0 = offset as int;
            proof {
                assert(chunk == fin[idx]);
                lemma_p2_bounds(h0, buf0, off0, fin, idx, start, self.end, hv);
            }
//@ after self.data .push(Buffer::new_defragmented( #0
                    proof { assert(flushed(h0, heap_view(self.data), off0, buf0)); }
//@ loop-end 1
            proof {
                assert(step2(h0, buf0, off0, heap_view(self.data), buffer@, offset as int, fin[idx]));
                lemma_p2_step(h0, buf0, off0, heap_view(self.data), buffer@, offset as int, fin, idx, start, self.end, hv);
            }
//@ before if !buffer.is_empty() #0
        let ghost h0 = heap_view(self.data);
        let ghost buf0 = buffer@;
        let ghost off0 = offset as int;
//@ after self.data .push(Buffer::new_defragmented( #1
            proof { assert(flushed(h0, heap_view(self.data), off0, buf0)); }
//@ at-end
        proof {
            let hn = self.bufs();
            lemma_p2_finish(h0, buf0, off0, hn, fin, start, self.end, hv);
            assert forall|j: int| 0 <= j < hn.len() implies (#[trigger] hn[j]).allocation_size == hn[j].bytes@.len() && buf_ok(hn[j], self.end) && hn[j].offset >= start by {
                assert(heap_elem(hn[j], start, self.end));
            }
            lemma_sum_alloc_eq(hn);
            // the sorted vector is a permutation of the old heap: same total
            lemma_sum_len_is_seq_sum(b0);
            lemma_sum_len_is_seq_sum(hv);
            assert(sum_len(hn) <= sum_len(hv));
            if self.state is Unordered {
                axiom_total_le_bound(self.state->recvd);
                let rset = self.state->recvd@;
                if me0.uwf() {
                    assert forall|i: int, k: int| 0 <= i < hn.len() && (#[trigger] hn[i]).offset <= k < hn[i].end() implies #[trigger] rset.contains(k) by {
                        assert(seq_covers(hn, k));
                        assert(seq_covers(hv, k));
                        let j = choose|j: int| 0 <= j < hv.len() && (#[trigger] hv[j]).offset <= k < hv[j].end();
                    }
                }
                assert forall|d: Set<int>| #[trigger] me0.udinv(d) implies self.udinv(d) by {
                    assert forall|i: int, k: int| 0 <= i < hn.len() && (#[trigger] hn[i]).offset <= k < hn[i].end() implies !(#[trigger] d.contains(k)) by {
                        assert(seq_covers(hn, k));
                        assert(seq_covers(hv, k));
                        let j = choose|j: int| 0 <= j < hv.len() && (#[trigger] hv[j]).offset <= k < hv[j].end();
                    }
                }
            }
        }
//@ end
//@ extract quinn-proto/src/connection/assembler.rs :: impl Assembler::fn ensure_ordering
//@ ret res
//@ attr #[verifier::rlimit(60)]
//@ replace &self.data => heap_iter(&self.data)
//@ contract
        requires old(self).wf()
        ensures match res {
            Err(_) => ordered && !(old(self).state is Ordered) && *final(self) == *old(self),
            Ok(()) => {
                &&& final(self).wf()
                &&& (final(self).state is Ordered) == ordered
                &&& ((old(self).state is Ordered) == ordered ==> *final(self) == *old(self))
                &&& final(self).bytes_read == old(self).bytes_read && final(self).end == old(self).end
                // nothing appears out of nowhere: an empty buffer stays empty
                &&& (old(self).bufs().len() == 0 ==> final(self).bufs().len() == 0)
                &&& forall|s: Seq<u8>| old(self).consistent(s) ==> final(self).consistent(s)
                &&& forall|k: int| old(self).covers(k) && (old(self).state is Ordered ==> k >= old(self).bytes_read) ==> final(self).covers(k)
                // entering unordered mode: what counts as received is exactly what was consumed plus what is buffered
                &&& (old(self).state is Ordered && !ordered ==> final(self).state->recvd@ =~= set_int_range(0, old(self).bytes_read as int).union(bufs_set(final(self).bufs(), final(self).bufs().len() as int)))
                // ... the buffers are disjoint, and none of them holds an offset the ordered reads already delivered
                &&& (old(self).state is Ordered && !ordered ==> final(self).uwf() && final(self).udinv(set_int_range(0, old(self).bytes_read as int)))
            },
        }
//@ before let mut recvd = RangeSet::new();
            let ghost bs = self.bufs();
//@ after recvd.insert(0..self.bytes_read);
            proof {
                lemma_int_range(0, self.bytes_read as int);
                assert(bs.take(0) =~= Seq::<Buffer>::empty());
                assert(recvd@ =~= set_int_range(0, self.bytes_read as int));
            }
//@ after for chunk in
            proof {
                assert(bs.take(bs.len() as int) =~= bs);
                axiom_total_le_bound(recvd);
                assert forall|i: int, k: int| 0 <= i < bs.len() && (#[trigger] bs[i]).offset <= k < bs[i].end() implies #[trigger] recvd@.contains(k) by {
                    lemma_bufs_set_has(bs, bs.len() as int, i, k);
                }
            }
//@ loop-iter 0 it
//@ loop 0
                invariant
                    it.seq().len() == bs.len(), forall|i: int| 0 <= i < bs.len() ==> *(#[trigger] it.seq()[i]) == bs[i],
                    bs == self.bufs(), self.wf(), self.state is Ordered, *self == *old(self) || (old(self).bufs().len() > 0),
                    pairwise_disjoint(bs), forall|i: int| 0 <= i < bs.len() ==> (#[trigger] bs[i]).offset >= self.bytes_read,
                    recvd@ =~= set_int_range(0, self.bytes_read as int).union(bufs_set(bs, it.index@)),
                    recvd@.len() == self.bytes_read + sum_len(bs.take(it.index@)),
                    recvd.bound() <= self.end,
//@ loop-start 0
                proof {
                    let i = it.index@;
                    assert(*chunk == bs[i]);
                    assert(buf_ok(bs[i], self.end));
                    lemma_int_range(bs[i].offset as int, bs[i].end());
                    assert forall|k: int| bs[i].offset <= k < bs[i].end() implies !recvd@.contains(k) by {
                        if bufs_set(bs, i).contains(k) { lemma_bufs_set_contains(bs, i, k); }
                    }
                    lemma_set_disjoint_lens(recvd@, set_int_range(bs[i].offset as int, bs[i].end()));
                    assert(bs.take(i + 1).drop_last() =~= bs.take(i));
                }
//@ end
//@ extract quinn-proto/src/connection/assembler.rs :: impl Assembler::fn insert
//@ ret res
//@ attr #[verifier::rlimit(60)]
//@ debug-assert drop
//@ contract
        requires old(self).wf(), offset + bytes@.len() <= 0x4000_0000_0000_0000, bytes@.len() <= allocation_size, bytes@.len() <= 0xffff_ffff,
            // machine arithmetic: the allocation estimate stays within usize
            old(self).allocated + (bytes@.len() + 1) * allocation_size <= usize::MAX,
        ensures final(self).wf(), final(self).bytes_read == old(self).bytes_read,
            final(self).end == (if offset + bytes@.len() > old(self).end { (offset + bytes@.len()) as u64 } else { old(self).end }),
            (final(self).state is Ordered) == (old(self).state is Ordered),
            // data consistency: if what is inserted is the sender's data at that offset, so is everything buffered afterwards
            forall|s: Seq<u8>| old(self).consistent(s) && offset + bytes@.len() <= s.len() && bytes@ =~= s.subrange(offset as int, offset + bytes@.len())
                ==> final(self).consistent(s),
            // no loss (ordered mode): every not yet consumed offset that was buffered or has just arrived is buffered afterwards
            old(self).state is Ordered ==> forall|k: int| old(self).bytes_read <= k && (old(self).covers(k) || offset <= k < offset + bytes@.len()) ==> final(self).covers(k),
            // unordered mode: only offsets never received before are buffered, so nothing already delivered can be delivered again
            old(self).uwf() ==> final(self).uwf(),
            forall|d: Set<int>| old(self).uwf() && #[trigger] old(self).udinv(d) ==> final(self).udinv(d),
//@ at-start
        let ghost off0 = offset;
        let ghost b0 = bytes@;
        let ghost end0 = (offset + bytes@.len()) as u64;
        let ghost base = self.bufs();
        let ghost uwf0 = self.uwf() && self.state is Unordered;
        let ghost r0 = if self.state is Unordered { self.state->recvd@ } else { Set::<int>::empty() };
        proof {
            if uwf0 { lemma_uq_init(base, r0, off0 as int); }
            assert forall|j: int| 0 <= j < base.len() implies (#[trigger] base[j]).bytes@.len() > 0 by { assert(buf_ok(base[j], self.end)); }
            lemma_sum_alloc_ge(base, self.end);
            assert((b0.len() + 1) * allocation_size == b0.len() * allocation_size + allocation_size) by(nonlinear_arith);
            assert(b0.len() * allocation_size >= 0) by(nonlinear_arith);
        }
//@ loop-iter 0 it
//@ loop 0
                invariant
                    valid_dups(it.seq(), off0, end0), off0 <= offset <= end0, end0 == off0 + b0.len(), bytes@ =~= b0.skip(offset - off0),
                    it.index@ == 0 ==> offset == off0,
                    it.index@ > 0 ==> offset == it.seq()[it.index@ - 1].end,
                    self.buffered == sum_len(heap_view(self.data)), self.allocated == sum_alloc(heap_view(self.data)),
                    forall|j: int| 0 <= j < heap_view(self.data).len() ==> buf_ok(#[trigger] heap_view(self.data)[j], self.end),
                    self.end >= end0, self.end >= old(self).end, self.end <= 0x4000_0000_0000_0000, self.bytes_read == old(self).bytes_read,
                    self.end == (if end0 > old(self).end { end0 } else { old(self).end }),
                    sum_len(heap_view(self.data)) + dup_total(it.seq(), it.index@) == sum_len(base) + (offset - off0),
                    self.allocated <= old(self).allocated + it.index@ * allocation_size,
                    self.allocated + allocation_size <= usize::MAX,
                    b0.len() <= allocation_size, b0.len() <= 0xffff_ffff, old(self).allocated + (b0.len() + 1) * allocation_size <= usize::MAX,
                    forall|s: Seq<u8>| old(self).consistent(s) && end0 <= s.len() && b0 =~= s.subrange(off0 as int, end0 as int)
                        ==> (forall|j: int| 0 <= j < heap_view(self.data).len() ==> (#[trigger] heap_view(self.data)[j]).matches(s)),
                    // whatever of the not yet visited part of the range was received before lies in a later duplicate
                    forall|k: int| #![trigger r0.contains(k)] offset <= k < end0 && r0.contains(k) ==> in_dups_from(it.seq(), it.index@, k),
                    uwf0 ==> bufs_in(base, r0) && uq(heap_view(self.data), base, r0, off0 as int, offset as int),
                    forall|j: int| 0 <= j < base.len() ==> (#[trigger] base[j]).bytes@.len() > 0,
//@ loop-start 0
                let ghost h0 = heap_view(self.data);
                let ghost offset_in = offset;
                let ghost bytes_in = bytes@;
                proof {
                    lemma_sum_alloc_ge(h0, self.end);
                    lemma_dups_count(it.seq(), off0, end0, it.seq().len() as int);
                    vstd::arithmetic::mul::lemma_mul_inequality(it.index@ + 1, b0.len() as int, allocation_size as int);
                    assert((b0.len() + 1) * allocation_size == b0.len() * allocation_size + allocation_size) by(nonlinear_arith);
                    assert((it.index@ + 1) * allocation_size == it.index@ * allocation_size + allocation_size) by(nonlinear_arith);
                    assert(dup_total(it.seq(), it.index@ + 1) == dup_total(it.seq(), it.index@) + (duplicate.end - duplicate.start));
                }
//@ loop-end 0
                proof {
                    assert forall|k: int| #![trigger r0.contains(k)] offset <= k < end0 && r0.contains(k) implies in_dups_from(it.seq(), it.index@ + 1, k) by {
                        lemma_from_step(it.seq(), off0, end0, it.index@, k);
                    }
                    if uwf0 { lemma_uq_grow(heap_view(self.data), base, r0, off0 as int, (if duplicate.start > offset_in { duplicate.start as int } else { offset_in as int }), offset as int); }
                }
//@ after for duplicate in
            proof {
                assert(self.state is Unordered);
                assert(self.recvd_total() == old(self).recvd_total() + b0.len() - (sum_len(base) + (offset - off0) - sum_len(self.bufs())));
            }
//@ before if bytes.is_empty()
        proof {
            if self.state is Unordered { axiom_total_le_bound(self.state->recvd); }
            if uwf0 && bytes@.len() == 0 {
                lemma_uq_final(self.bufs(), base, r0, off0 as int, end0 as int, self.state->recvd@);
            }
        }
//@ before let buffer = Buffer::new(offset, bytes, allocation_size);
        let ghost h1 = self.bufs();
        let ghost offset1 = offset;
        proof {
            lemma_sum_alloc_ge(h1, self.end);
            assert(bytes@ =~= b0.skip(offset - off0));
        }
//@ after self.data.push(buffer); #0
        proof {
            lemma_sum_push(h1, buffer);
            lemma_all_push(h1, buffer, |b: Buffer| buf_ok(b, self.end));
            assert forall|s: Seq<u8>| old(self).consistent(s) && end0 <= s.len() && b0 =~= s.subrange(off0 as int, end0 as int) implies self.consistent(s) by {
                assert(buffer.bytes@ =~= s.subrange(offset1 as int, end0 as int));
                lemma_all_push(h1, buffer, |b: Buffer| b.matches(s));
            }
            if old(self).state is Ordered {
                assert forall|k: int| old(self).bytes_read <= k && (old(self).covers(k) || off0 <= k < end0) implies self.covers(k) by {
                    lemma_covers_push(h1, buffer, k);
                }
            }
            lemma_sum_alloc_ge(self.bufs(), self.end);
            if self.state is Unordered { axiom_total_le_bound(self.state->recvd); }
            assert(self.wf());
            if uwf0 {
                assert(fresh(buffer, r0));
                lemma_uq_push(h1, base, r0, off0 as int, offset1 as int, buffer, end0 as int);
                lemma_uq_final(self.bufs(), base, r0, off0 as int, end0 as int, self.state->recvd@);
                assert forall|d: Set<int>| #[trigger] old(self).udinv(d) implies self.udinv(d) by { assert(bufs_out(base, d)); }
            }
        }
//@ after self.data.push(buffer); #1
                    proof {
                        lemma_sum_push(h0, buffer);
                        lemma_all_push(h0, buffer, |b: Buffer| buf_ok(b, self.end));
                        assert forall|s: Seq<u8>| old(self).consistent(s) && end0 <= s.len() && b0 =~= s.subrange(off0 as int, end0 as int)
                            implies (forall|j: int| 0 <= j < heap_view(self.data).len() ==> (#[trigger] heap_view(self.data)[j]).matches(s)) by {
                            assert(buffer.bytes@ =~= s.subrange(offset_in as int, duplicate.start as int));
                            lemma_all_push(h0, buffer, |b: Buffer| b.matches(s));
                        }
                        if uwf0 {
                            assert forall|k: int| buffer.offset <= k < buffer.end() implies !(#[trigger] r0.contains(k)) by {
                                lemma_gap_fresh(it.seq(), off0, end0, it.index@, k);
                            }
                            lemma_uq_push(h0, base, r0, off0 as int, offset_in as int, buffer, duplicate.start as int);
                        }
                    }
//@ end
//@ extract quinn-proto/src/connection/assembler.rs :: impl Assembler::fn new
//@ ret r
//@ contract
        ensures r.wf(), r.state is Ordered, r.bytes_read == 0, r.end == 0, r.bufs().len() == 0
//@ end
//@ extract quinn-proto/src/connection/assembler.rs :: impl Assembler::fn reinit
//@ contract
        ensures final(self).wf(), final(self).state is Ordered, final(self).bytes_read == 0, final(self).end == 0, final(self).bufs().len() == 0
//@ end
//@ extract quinn-proto/src/connection/assembler.rs :: impl Assembler::fn bytes_read
//@ ret r
//@ contract
        ensures r == self.bytes_read
//@ end
//@ extract quinn-proto/src/connection/assembler.rs :: impl Assembler::fn clear
//@ contract
        requires old(self).wf()
        ensures final(self).wf(), final(self).bufs().len() == 0, final(self).state == old(self).state, final(self).bytes_read == old(self).bytes_read, final(self).end == old(self).end,
            final(self).uwf(), forall|d: Set<int>| #[trigger] old(self).udinv(d) ==> final(self).udinv(d),
//@ end
//@ extract quinn-proto/src/connection/assembler.rs :: impl Assembler::fn read
//@ ret r
//@ attr #[verifier::rlimit(200)]
//@ contract
        requires old(self).wf(), ordered == (old(self).state is Ordered)
        ensures final(self).wf(), final(self).state == old(self).state, final(self).end == old(self).end,
            forall|s: Seq<u8>| old(self).consistent(s) ==> final(self).consistent(s),
            old(self).bufs().len() == 0 ==> r.is_none() && final(self).bufs().len() == 0,
            final(self).bytes_read <= final(self).end,
            old(self).uwf() ==> final(self).uwf(),
            // exactly once, unordered mode: a chunk never contains an offset the application was given before
            forall|d: Set<int>| !ordered && old(self).uwf() && #[trigger] old(self).udinv(d) ==> (match r {
                Some(c) => (forall|k: int| c.offset <= k < c.offset + c.bytes@.len() ==> !d.contains(k))
                    && final(self).udinv(d.union(set_int_range(c.offset as int, c.offset + c.bytes@.len()))),
                None => final(self).udinv(d),
            }),
            match r {
                Some(c) => {
                    &&& final(self).bytes_read == old(self).bytes_read + c.bytes@.len()
                    &&& c.bytes@.len() <= max_length
                    &&& (max_length > 0 ==> c.bytes@.len() > 0)
                    &&& (ordered ==> c.offset == old(self).bytes_read)
                    &&& c.offset + c.bytes@.len() <= old(self).end
                    // what is handed out is the sender's data at that offset
                    &&& forall|s: Seq<u8>| old(self).consistent(s) ==> c.offset + c.bytes@.len() <= s.len() && c.bytes@ =~= s.subrange(c.offset as int, c.offset + c.bytes@.len())
                },
                None => {
                    &&& final(self).bytes_read == old(self).bytes_read
                    // ordered: nothing buffered holds the next byte (and nothing was discarded that did); unordered: nothing is buffered
                    &&& (ordered ==> !old(self).holds_next() && !final(self).holds_next())
                    &&& (!ordered ==> final(self).bufs().len() == 0 && old(self).bufs().len() == 0)
                },
            }
//@ at-start
        broadcast use axiom_peek_mut_resolved;
//@ loop 0
            invariant self.wf(), self.state == old(self).state, self.end == old(self).end, self.bytes_read == old(self).bytes_read,
                ordered == (self.state is Ordered),
                forall|s: Seq<u8>| old(self).consistent(s) ==> self.consistent(s),
                old(self).holds_next() ==> self.holds_next(),
                !ordered ==> self.bufs() == old(self).bufs(),
                self.bufs().len() <= old(self).bufs().len(),
            decreases self.bufs().len()
//@ loop-start 0
            broadcast use axiom_peek_mut_resolved;
            let ghost base = self.bufs();
//@ after let mut chunk = self.data.peek_mut()?;
            let ghost idx = pm_idx(chunk);
            let ghost top0 = pm_top(chunk);
            proof {
                lemma_sum_ge(base, idx);
                assert(buf_ok(base[idx], self.end));
            }
//@ before return None;
                    proof {
                        assert(base.update(idx, top0) =~= base);
                        assert forall|i: int| 0 <= i < base.len() implies (#[trigger] base[i]).offset >= top0.offset by {
                            assert(!(base[i].cmp_spec(&top0) is Greater));
                        }
                    }
//@ before Chunk::new(offset
                proof {
                    if !ordered && old(self).uwf() {
                        let rset = self.state->recvd@;
                        assert forall|x: Buffer, d: Set<int>| within(x, base[idx]) && bufs_out(base, d) implies
                            pairwise_disjoint(#[trigger] base.update(idx, x)) && bufs_in(base.update(idx, x), rset)
                            && bufs_out(base.update(idx, x), #[trigger] d.union(set_int_range(base[idx].offset as int, x.offset as int))) by {
                            lemma_unordered_update(base, idx, x, rset, d);
                        }
                    }
                    // whatever value x the peeked element ends up with, the accounting of base.update(idx, x) is known
                    assert forall|x: Buffer| sum_len(#[trigger] base.update(idx, x)) + base[idx].bytes@.len() == sum_len(base) + x.bytes@.len()
                        && sum_alloc(base.update(idx, x)) + base[idx].allocation_size == sum_alloc(base) + x.allocation_size by { lemma_sum_update(base, idx, x); }
                    assert forall|x: Buffer| buf_ok(x, self.end) implies (forall|j: int| 0 <= j < base.len() ==> buf_ok(#[trigger] base.update(idx, x)[j], self.end)) by {
                        lemma_all_update(base, idx, x, |b: Buffer| buf_ok(b, self.end));
                    }
                    assert forall|x: Buffer, s: Seq<u8>| old(self).consistent(s) && x.matches(s) implies (forall|j: int| 0 <= j < base.len() ==> (#[trigger] base.update(idx, x)[j]).matches(s)) by {
                        lemma_all_update(base, idx, x, |b: Buffer| b.matches(s));
                    }
                }
//@ after let chunk = PeekMut::pop(chunk);
                proof {
                    if !ordered && old(self).uwf() {
                        let rset = self.state->recvd@;
                        assert forall|d: Set<int>| bufs_out(base, d) implies pairwise_disjoint(base.remove(idx)) && bufs_in(base.remove(idx), rset)
                            && bufs_out(base.remove(idx), #[trigger] d.union(set_int_range(base[idx].offset as int, base[idx].end()))) by {
                            lemma_unordered_remove(base, idx, rset, d);
                        }
                    }
                    lemma_sum_remove(base, idx);
                    lemma_all_remove(base, idx, |b: Buffer| buf_ok(b, self.end));
                    assert forall|s: Seq<u8>| old(self).consistent(s) implies self.consistent(s) by {
                        lemma_all_remove(base, idx, |b: Buffer| b.matches(s));
                    }
                }
//@ before continue;
                    proof {
                        lemma_sum_remove(base, idx);
                        assert(self.bufs() == base.remove(idx));
                        lemma_all_remove(base, idx, |b: Buffer| buf_ok(b, self.end));
                        assert forall|s: Seq<u8>| old(self).consistent(s) implies self.consistent(s) by {
                            lemma_all_remove(base, idx, |b: Buffer| b.matches(s));
                        }
                        if old(self).holds_next() { lemma_holds_remove(base, idx, self.bytes_read); }
                    }
//@ end
}

/// what `#[derive(Default)]` on Assembler / State (`#[default] Ordered`) generates
impl Default for Assembler {
    fn default() -> (r: Self)
        ensures r.state is Ordered, heap_view(r.data) == Seq::<Buffer>::empty(), r.buffered == 0, r.allocated == 0, r.bytes_read == 0, r.end == 0
    { Assembler { state: State::Ordered, data: BinaryHeap::default(), buffered: 0, allocated: 0, bytes_read: 0, end: 0 } }
}
impl State {
//@ extract quinn-proto/src/connection/assembler.rs :: impl State::fn is_ordered
//@ ret r
//@ contract
        ensures r == (self is Ordered)
//@ end
}
impl Chunk {
//@ extract quinn-proto/src/connection/assembler.rs :: impl Chunk::fn new
//@ ret r
//@ contract
        ensures r.offset == offset, r.bytes == bytes
//@ end
}

impl Buffer {
    pub open spec fn end(&self) -> int { self.offset + self.bytes@.len() }
    /// the buffer holds the sender's bytes `s[offset .. offset+len]`
    pub open spec fn matches(&self, s: Seq<u8>) -> bool {
        self.end() <= s.len() && self.bytes@ =~= s.subrange(self.offset as int, self.end())
    }
//@ extract quinn-proto/src/connection/assembler.rs :: impl Buffer::fn new
//@ ret r
//@ contract
        ensures r.offset == offset, r.bytes == bytes, r.allocation_size == allocation_size, !r.defragmented
//@ end
    /// `f` is what is left of `o` after its front was cut off (or nothing at all)
    pub open spec fn trim_of(&self, o: Buffer) -> bool {
        self.bytes@.len() == 0 || (self.offset >= o.offset && self.end() == o.end() && self.bytes@ =~= o.bytes@.skip(self.offset - o.offset))
    }
//@ extract quinn-proto/src/connection/assembler.rs :: impl Buffer::fn try_mark_defragment
//@ contract
        requires old(self).bytes@.len() <= old(self).allocation_size, !old(self).defragmented ==> old(self).bytes@.len() <= 0xffff_ffff,
            old(self).offset + old(self).bytes@.len() <= u64::MAX,
        ensures final(self).trim_of(*old(self)),
            final(self).offset == (if old(self).offset >= offset { old(self).offset } else { offset }),
            final(self).bytes@.len() == (if offset <= old(self).offset { old(self).bytes@.len() as int } else if offset - old(self).offset >= old(self).bytes@.len() { 0int } else { old(self).bytes@.len() - (offset - old(self).offset) }),
            final(self).bytes@.len() <= final(self).allocation_size,
            final(self).defragmented ==> final(self).allocation_size == final(self).bytes@.len(),
            !final(self).defragmented ==> !old(self).defragmented && final(self).bytes@.len() <= 0xffff_ffff,
            old(self).defragmented ==> final(self).defragmented,
            final(self).bytes@.len() == 0 ==> final(self).defragmented,
            marked(*final(self), *old(self), offset),
//@ end
//@ extract quinn-proto/src/connection/assembler.rs :: impl Buffer::fn new_defragmented
//@ ret r
//@ contract
        ensures r.offset == offset, r.bytes == bytes, r.allocation_size == bytes@.len(), r.defragmented
//@ end
}

} // mod code
} // verus!
fn main() {}
