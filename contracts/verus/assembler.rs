//! unit: assembler -- stream reassembly (`Assembler`): every chunk handed to the application is the sender's bytes at that offset, ordered reads are gap-free
//! props: C01
//! trusted: std BinaryHeap / PeekMut contract (sequence view, PeekMut as a prophecy of the heap after the borrow); RangeSet (btree) contract incl. `replace`; Assembler::defragment and Assembler::ensure_ordering bodies (iterator adapters) are contract boundaries
#![feature(allocator_api)]
#![allow(unused_imports, dead_code, non_camel_case_types, non_snake_case, unused_variables, unused_mut, unused_assignments)]
use vstd::prelude::*;
use std::mem;
use std::cmp::Ordering;
use std::alloc::Allocator;
use std::ops::Range;
use std::collections::{BinaryHeap, binary_heap::PeekMut};
use vstd::std_specs::iter::IteratorSpec; use vstd::std_specs::cmp::{OrdSpec, PartialOrdSpec, PartialEqSpec};
verus! {
global size_of usize == 8;
pub mod shims {
use super::*;
#[verifier::external_body] pub struct Bytes { inner: Vec<u8> }
impl View for Bytes { type V = Seq<u8>; uninterp spec fn view(&self) -> Seq<u8>; }
impl Bytes {
    #[verifier::external_body] pub fn new() -> (r: Bytes) ensures r@ == Seq::<u8>::empty() { unimplemented!() }
    #[verifier::external_body] pub fn len(&self) -> (r: usize) ensures r == self@.len() { unimplemented!() }
    #[verifier::external_body] pub fn is_empty(&self) -> (r: bool) ensures r == (self@.len() == 0) { unimplemented!() }
    #[verifier::external_body] pub fn split_to(&mut self, at: usize) -> (r: Bytes) requires at <= old(self)@.len()
        ensures r@ == old(self)@.take(at as int), final(self)@ == old(self)@.skip(at as int) { unimplemented!() }
    /// `Buf::advance` on `Bytes`
    #[verifier::external_body] pub fn advance(&mut self, cnt: usize) requires cnt <= old(self)@.len()
        ensures final(self)@ == old(self)@.skip(cnt as int) { unimplemented!() }
}

// ---- std::collections::BinaryHeap / PeekMut: trusted contract -------------------------------------------------------------
// The heap is viewed as a sequence (some enumeration of its elements; the enumeration is ghost, not the memory layout).
#[verifier::external_type_specification]
#[verifier::external_body]
#[verifier::reject_recursive_types(T)]
#[verifier::reject_recursive_types(A)]
pub struct ExBinaryHeap<T, A: Allocator>(BinaryHeap<T, A>);
#[verifier::external_type_specification]
#[verifier::external_body]
#[verifier::reject_recursive_types(T)]
#[verifier::reject_recursive_types(A)]
pub struct ExPeekMut<'a, T: 'a + Ord, A: Allocator>(PeekMut<'a, T, A>);

pub uninterp spec fn heap_view<T, A: Allocator>(h: BinaryHeap<T, A>) -> Seq<T>;
/// the element a PeekMut currently shows (the greatest one when it was created)
pub uninterp spec fn pm_top<'a, T: Ord, A: Allocator>(p: PeekMut<'a, T, A>) -> T;
/// its position in the enumeration
pub uninterp spec fn pm_idx<'a, T: Ord, A: Allocator>(p: PeekMut<'a, T, A>) -> int;
/// the enumeration the PeekMut was created from
pub uninterp spec fn pm_base<'a, T: Ord, A: Allocator>(p: PeekMut<'a, T, A>) -> Seq<T>;
/// prophecy: the heap once the PeekMut is gone (dropped or popped)
pub uninterp spec fn pm_fut<'a, T: Ord, A: Allocator>(p: PeekMut<'a, T, A>) -> Seq<T>;

pub assume_specification<T: Ord, A: Allocator>[BinaryHeap::<T, A>::peek_mut](h: &mut BinaryHeap<T, A>) -> (r: Option<PeekMut<'_, T, A>>)
    ensures match r {
        None => heap_view(*old(h)).len() == 0 && heap_view(*final(h)) == heap_view(*old(h)),
        Some(p) => {
            &&& pm_base(p) == heap_view(*old(h))
            &&& 0 <= pm_idx(p) < pm_base(p).len()
            &&& pm_top(p) == pm_base(p)[pm_idx(p)]
            &&& (T::obeys_cmp_spec() ==> forall|i: int| 0 <= i < pm_base(p).len() ==> !((#[trigger] pm_base(p)[i]).cmp_spec(&pm_top(p)) is Greater))
            &&& heap_view(*final(h)) == pm_fut(p)
        },
    };
pub assume_specification<'a, 'b, T: Ord, A: Allocator>[<PeekMut<'a, T, A> as core::ops::Deref>::deref](p: &'b PeekMut<'a, T, A>) -> (r: &'b T)
    ensures *r == pm_top(*p);
pub assume_specification<'a, 'b, T: Ord, A: Allocator>[<PeekMut<'a, T, A> as core::ops::DerefMut>::deref_mut](p: &'b mut PeekMut<'a, T, A>) -> (r: &'b mut T)
    ensures *r == pm_top(*old(p)), pm_top(*final(p)) == *final(r),
        pm_idx(*final(p)) == pm_idx(*old(p)), pm_base(*final(p)) == pm_base(*old(p)), pm_fut(*final(p)) == pm_fut(*old(p));
pub assume_specification<'a, T: Ord, A: Allocator>[PeekMut::<'a, T, A>::pop](this: PeekMut<'a, T, A>) -> (r: T)
    ensures r == pm_top(this), pm_fut(this) == pm_base(this).remove(pm_idx(this));
/// a PeekMut that goes out of scope leaves its (possibly modified) element in the heap
#[verifier::external_body]
pub broadcast proof fn axiom_peek_mut_resolved<'a, T: Ord, A: Allocator>(p: PeekMut<'a, T, A>)
    ensures #[trigger] has_resolved(p) ==> pm_fut(p) == pm_base(p).update(pm_idx(p), pm_top(p))
{}
pub assume_specification<T: Ord, A: Allocator>[BinaryHeap::<T, A>::push](h: &mut BinaryHeap<T, A>, item: T)
    ensures heap_view(*final(h)) == heap_view(*old(h)).push(item);
pub assume_specification<T, A: Allocator>[BinaryHeap::<T, A>::clear](h: &mut BinaryHeap<T, A>)
    ensures heap_view(*final(h)) == Seq::<T>::empty();
pub assume_specification<T, A: Allocator>[BinaryHeap::<T, A>::len](h: &BinaryHeap<T, A>) -> (r: usize)
    ensures r == heap_view(*h).len();
pub assume_specification<T, A: Allocator>[BinaryHeap::<T, A>::is_empty](h: &BinaryHeap<T, A>) -> (r: bool)
    ensures r == (heap_view(*h).len() == 0);

/// btree RangeSet: opaque here.  `total` = how many offsets are in the set, `bound` = every member is below it.
#[verifier::external_body] pub struct RangeSet { x: u8 }
/// iterator returned by `RangeSet::replace`: yields the parts of the requested range that were already in the set, in order
#[verifier::external_body] pub struct Replace<'a> { set: &'a mut RangeSet }
impl<'a> Replace<'a> { pub uninterp spec fn left(&self) -> nat; }
impl<'a> Iterator for Replace<'a> {
    type Item = Range<u64>;
    #[verifier::external_body]
    fn next(&mut self) -> (r: Option<Range<u64>>) { unimplemented!() }
}
impl<'a> vstd::std_specs::iter::IteratorSpecImpl for Replace<'a> {
    open spec fn obeys_prophetic_iter_laws(&self) -> bool { true }
    #[verifier::prophetic] uninterp spec fn remaining(&self) -> Seq<Range<u64>>;
    #[verifier::prophetic] open spec fn will_return_none(&self) -> bool { true }
    open spec fn decrease(&self) -> Option<nat> { Some(self.left()) }
    open spec fn peek(&self, i: int) -> Option<Range<u64>> { None }
}
/// sorted, pairwise disjoint, non-empty sub-ranges of [lo, hi)
pub open spec fn valid_dups(s: Seq<Range<u64>>, lo: u64, hi: u64) -> bool {
    &&& forall|i: int| 0 <= i < s.len() ==> lo <= (#[trigger] s[i]).start < s[i].end <= hi
    &&& forall|i: int, j: int| 0 <= i < j < s.len() ==> (#[trigger] s[i]).end <= (#[trigger] s[j]).start
}
/// total length of the first n ranges
pub open spec fn dup_total(s: Seq<Range<u64>>, n: int) -> int decreases n {
    if n <= 0 { 0 } else { dup_total(s, n - 1) + (s[n - 1].end - s[n - 1].start) }
}
/// a set of offsets below `bound` has at most `bound` members
#[verifier::external_body] pub proof fn axiom_total_le_bound(rs: RangeSet) ensures rs.total() <= rs.bound() {}
impl RangeSet {
    pub uninterp spec fn total(&self) -> nat;
    pub uninterp spec fn bound(&self) -> nat;
    /// a set of offsets below `bound` has at most `bound` members
    #[verifier::external_body] pub fn new() -> (r: Self) ensures r.total() == 0, r.bound() == 0 { unimplemented!() }
    /// adds `r` to the set; the iterator yields what was already there, so the set grows by |r| minus what is yielded
    #[verifier::external_body] pub fn replace(&mut self, r: Range<u64>) -> (it: Replace<'_>)
        requires r.start <= r.end
        ensures valid_dups(it.remaining(), r.start, r.end),
            final(self).total() == old(self).total() + (r.end - r.start) - dup_total(it.remaining(), it.remaining().len() as int),
            final(self).bound() == (if r.start < r.end && r.end > old(self).bound() { r.end as nat } else { old(self).bound() }),
    { unimplemented!() }
}

pub assume_specification[Ordering::reverse](o: Ordering) -> (r: Ordering)
    ensures r == (match o { Ordering::Less => Ordering::Greater, Ordering::Equal => Ordering::Equal, Ordering::Greater => Ordering::Less });
pub assume_specification[Ordering::then](o: Ordering, other: Ordering) -> (r: Ordering)
    ensures r == (match o { Ordering::Equal => other, _ => o });
}
pub mod code {
use super::*; use super::shims::*;

//@ extract quinn-proto/src/connection/assembler.rs :: struct Chunk
//@ derive
//@ end
//@ extract quinn-proto/src/connection/assembler.rs :: struct Buffer
//@ derive
//@ vis pub
//@ end

pub open spec fn ord_u64(a: u64, b: u64) -> Ordering { if a < b { Ordering::Less } else if a == b { Ordering::Equal } else { Ordering::Greater } }
pub open spec fn ord_rev(o: Ordering) -> Ordering { match o { Ordering::Less => Ordering::Greater, Ordering::Equal => Ordering::Equal, Ordering::Greater => Ordering::Less } }
/// the heap order: smaller offset is greater; at equal offsets the longer buffer is greater
pub open spec fn heap_order(a: &Buffer, b: &Buffer) -> Ordering {
    match ord_rev(ord_u64(a.offset, b.offset)) { Ordering::Equal => ord_u64(a.bytes@.len() as u64, b.bytes@.len() as u64), o => o }
}
impl vstd::std_specs::cmp::PartialEqSpecImpl for Buffer {
    open spec fn obeys_eq_spec() -> bool { true }
    open spec fn eq_spec(&self, o: &Buffer) -> bool { self.offset == o.offset && self.bytes@.len() == o.bytes@.len() }
}
impl vstd::std_specs::cmp::PartialOrdSpecImpl for Buffer {
    open spec fn obeys_partial_cmp_spec() -> bool { true }
    open spec fn partial_cmp_spec(&self, o: &Buffer) -> Option<Ordering> { Some(heap_order(self, o)) }
}
impl vstd::std_specs::cmp::OrdSpecImpl for Buffer {
    open spec fn obeys_cmp_spec() -> bool { true }
    open spec fn cmp_spec(&self, o: &Buffer) -> Ordering { heap_order(self, o) }
}
impl Eq for Buffer {}
impl PartialEq for Buffer {
//@ extract quinn-proto/src/connection/assembler.rs :: impl PartialEq for Buffer::fn eq
//@ end
}
impl PartialOrd for Buffer {
//@ extract quinn-proto/src/connection/assembler.rs :: impl PartialOrd for Buffer::fn partial_cmp
//@ end
}
impl Ord for Buffer {
//@ extract quinn-proto/src/connection/assembler.rs :: impl Ord for Buffer::fn cmp
//@ end
}

//@ extract quinn-proto/src/connection/assembler.rs :: struct TooManyChunks
//@ derive
//@ end
//@ extract quinn-proto/src/connection/assembler.rs :: struct IllegalOrderedRead
//@ derive
//@ end
//@ extract quinn-proto/src/connection/assembler.rs :: enum State
//@ derive
//@ vis pub
//@ end
//@ extract quinn-proto/src/connection/assembler.rs :: struct Assembler
//@ derive
//@ vis pub
//@ end

pub open spec fn sum_len(s: Seq<Buffer>) -> nat decreases s.len() {
    if s.len() == 0 { 0 } else { sum_len(s.drop_last()) + s.last().bytes@.len() }
}
pub open spec fn sum_alloc(s: Seq<Buffer>) -> nat decreases s.len() {
    if s.len() == 0 { 0 } else { sum_alloc(s.drop_last()) + s.last().allocation_size as nat }
}
pub proof fn lemma_sum_push(s: Seq<Buffer>, x: Buffer)
    ensures sum_len(s.push(x)) == sum_len(s) + x.bytes@.len(), sum_alloc(s.push(x)) == sum_alloc(s) + x.allocation_size
{ assert(s.push(x).drop_last() =~= s); }
pub proof fn lemma_sum_remove(s: Seq<Buffer>, i: int)
    requires 0 <= i < s.len()
    ensures sum_len(s.remove(i)) + s[i].bytes@.len() == sum_len(s), sum_alloc(s.remove(i)) + s[i].allocation_size == sum_alloc(s)
    decreases s.len()
{
    if i == s.len() - 1 { assert(s.remove(i) =~= s.drop_last()); }
    else { lemma_sum_remove(s.drop_last(), i); assert(s.remove(i).drop_last() =~= s.drop_last().remove(i)); assert(s.remove(i).last() == s.last()); }
}
pub proof fn lemma_sum_update(s: Seq<Buffer>, i: int, x: Buffer)
    requires 0 <= i < s.len()
    ensures sum_len(s.update(i, x)) + s[i].bytes@.len() == sum_len(s) + x.bytes@.len(),
        sum_alloc(s.update(i, x)) + s[i].allocation_size == sum_alloc(s) + x.allocation_size
    decreases s.len()
{
    if i == s.len() - 1 { assert(s.update(i, x).drop_last() =~= s.drop_last()); }
    else { lemma_sum_update(s.drop_last(), i, x); assert(s.update(i, x).drop_last() =~= s.drop_last().update(i, x)); assert(s.update(i, x).last() == s.last()); }
}
pub proof fn lemma_sum_ge(s: Seq<Buffer>, i: int)
    requires 0 <= i < s.len()
    ensures sum_len(s) >= s[i].bytes@.len(), sum_alloc(s) >= s[i].allocation_size
{ lemma_sum_remove(s, i); }

pub proof fn lemma_sum_alloc_ge(s: Seq<Buffer>, end: u64)
    requires forall|j: int| 0 <= j < s.len() ==> buf_ok(#[trigger] s[j], end)
    ensures sum_alloc(s) >= sum_len(s)
    decreases s.len()
{
    if s.len() > 0 {
        assert forall|j: int| 0 <= j < s.drop_last().len() implies buf_ok(#[trigger] s.drop_last()[j], end) by { assert(s.drop_last()[j] == s[j]); }
        lemma_sum_alloc_ge(s.drop_last(), end);
        assert(buf_ok(s[s.len() - 1], end));
    }
}
pub proof fn lemma_all_push(s: Seq<Buffer>, x: Buffer, p: spec_fn(Buffer) -> bool)
    requires forall|j: int| 0 <= j < s.len() ==> p(#[trigger] s[j]), p(x)
    ensures forall|j: int| 0 <= j < s.push(x).len() ==> p(#[trigger] s.push(x)[j])
{
    assert forall|j: int| 0 <= j < s.push(x).len() implies p(#[trigger] s.push(x)[j]) by {
        if j < s.len() { assert(s.push(x)[j] == s[j]); } else { assert(s.push(x)[j] == x); }
    }
}
/// n sorted disjoint non-empty ranges inside [lo, hi) need at least n offsets
pub proof fn lemma_dups_count(s: Seq<Range<u64>>, lo: u64, hi: u64, n: int)
    requires valid_dups(s, lo, hi), 0 <= n <= s.len()
    ensures n > 0 ==> s[n - 1].end >= lo + n, n <= hi - lo || n == 0
    decreases n
{
    if n > 1 { lemma_dups_count(s, lo, hi, n - 1); assert(s[n - 2].end <= s[n - 1].start); }
}
pub open spec fn seq_covers(s: Seq<Buffer>, k: int) -> bool { exists|i: int| 0 <= i < s.len() && (#[trigger] s[i]).offset <= k < s[i].end() }
pub proof fn lemma_covers_push(s: Seq<Buffer>, x: Buffer, k: int)
    ensures seq_covers(s, k) ==> seq_covers(s.push(x), k), x.offset <= k < x.end() ==> seq_covers(s.push(x), k)
{
    if seq_covers(s, k) { let i = choose|i: int| 0 <= i < s.len() && (#[trigger] s[i]).offset <= k < s[i].end(); assert(s.push(x)[i] == s[i]); }
    if x.offset <= k < x.end() { assert(s.push(x)[s.len() as int] == x); }
}
/// a kept buffer is non-empty, ends at or below `end`, and its allocation estimate covers it
pub open spec fn buf_ok(b: Buffer, end: u64) -> bool { b.bytes@.len() > 0 && b.end() <= end && b.bytes@.len() <= b.allocation_size }
pub proof fn lemma_all_remove(s: Seq<Buffer>, i: int, p: spec_fn(Buffer) -> bool)
    requires 0 <= i < s.len(), forall|j: int| 0 <= j < s.len() ==> p(#[trigger] s[j])
    ensures forall|j: int| 0 <= j < s.remove(i).len() ==> p(#[trigger] s.remove(i)[j])
{
    assert forall|j: int| 0 <= j < s.remove(i).len() implies p(#[trigger] s.remove(i)[j]) by {
        if j < i { assert(s.remove(i)[j] == s[j]); } else { assert(s.remove(i)[j] == s[j + 1]); }
    }
}
pub proof fn lemma_all_update(s: Seq<Buffer>, i: int, x: Buffer, p: spec_fn(Buffer) -> bool)
    requires 0 <= i < s.len(), forall|j: int| 0 <= j < s.len() ==> p(#[trigger] s[j]), p(x)
    ensures forall|j: int| 0 <= j < s.update(i, x).len() ==> p(#[trigger] s.update(i, x)[j])
{
    assert forall|j: int| 0 <= j < s.update(i, x).len() implies p(#[trigger] s.update(i, x)[j]) by {
        if j == i { } else { assert(s.update(i, x)[j] == s[j]); }
    }
}
/// removing a buffer that ends at or below the read index keeps whichever buffer holds the next byte
pub proof fn lemma_holds_remove(s: Seq<Buffer>, i: int, br: u64)
    requires 0 <= i < s.len(), s[i].end() <= br || s[i].offset > br,
        exists|j: int| 0 <= j < s.len() && (#[trigger] s[j]).offset <= br < s[j].end()
    ensures exists|j: int| 0 <= j < s.remove(i).len() && (#[trigger] s.remove(i)[j]).offset <= br < s.remove(i)[j].end()
{
    let j = choose|j: int| 0 <= j < s.len() && (#[trigger] s[j]).offset <= br < s[j].end();
    if j < i { assert(s.remove(i)[j] == s[j]); } else { assert(s.remove(i)[j - 1] == s[j]); }
}

impl Assembler {
    pub open spec fn bufs(&self) -> Seq<Buffer> { heap_view(self.data) }
    /// representation invariant: byte accounting is exact, no empty buffer is kept, nothing lies beyond `end`
    pub open spec fn wf(&self) -> bool {
        &&& self.end <= 0x4000_0000_0000_0000
        &&& self.buffered == sum_len(self.bufs())
        &&& self.allocated == sum_alloc(self.bufs())
        &&& forall|i: int| 0 <= i < self.bufs().len() ==> buf_ok(#[trigger] self.bufs()[i], self.end)
        &&& match self.state {
            State::Ordered => self.bytes_read <= self.end,
            // unordered: every distinct offset received is either delivered or buffered, exactly once
            State::Unordered { recvd } => self.bytes_read + sum_len(self.bufs()) == recvd.total() && recvd.total() <= recvd.bound() && recvd.bound() <= self.end,
        }
    }
    /// every buffered chunk holds the sender's bytes at its offset
    pub open spec fn consistent(&self, s: Seq<u8>) -> bool {
        forall|i: int| 0 <= i < self.bufs().len() ==> (#[trigger] self.bufs()[i]).matches(s)
    }
    /// ordered mode: some buffer still holds the byte at the read index
    pub open spec fn holds_next(&self) -> bool {
        exists|i: int| 0 <= i < self.bufs().len() && (#[trigger] self.bufs()[i]).offset <= self.bytes_read < self.bufs()[i].end()
    }
    pub open spec fn recvd_total(&self) -> nat { match self.state { State::Unordered { recvd } => recvd.total(), _ => 0 } }
    pub open spec fn recvd_bound(&self) -> nat { match self.state { State::Unordered { recvd } => recvd.bound(), _ => 0 } }
    /// some buffer holds stream offset k
    pub open spec fn covers(&self, k: int) -> bool { seq_covers(self.bufs(), k) }
    /// Assembler::defragment: contract boundary (body uses iterator adapters outside the verifier's subset)
    #[verifier::external_body]
    pub fn defragment(&mut self)
        requires old(self).wf()
        ensures final(self).wf(), final(self).state == old(self).state, final(self).end == old(self).end, final(self).bytes_read == old(self).bytes_read,
            forall|s: Seq<u8>| old(self).consistent(s) ==> final(self).consistent(s),
            forall|k: int| old(self).covers(k) ==> final(self).covers(k),
    { unimplemented!() }
//@ extract quinn-proto/src/connection/assembler.rs :: impl Assembler::fn insert
//@ ret res
//@ attr #[verifier::rlimit(60)]
//@ debug-assert drop
//@ contract
        requires old(self).wf(), offset + bytes@.len() <= 0x4000_0000_0000_0000, bytes@.len() <= allocation_size,
            // machine arithmetic: the allocation estimate stays within usize
            old(self).allocated + (bytes@.len() + 1) * allocation_size <= usize::MAX,
        ensures final(self).wf(), final(self).bytes_read == old(self).bytes_read,
            final(self).end == (if offset + bytes@.len() > old(self).end { (offset + bytes@.len()) as u64 } else { old(self).end }),
            (final(self).state is Ordered) == (old(self).state is Ordered),
            // data consistency: if what is inserted is the sender's data at that offset, so is everything buffered afterwards
            forall|s: Seq<u8>| old(self).consistent(s) && offset + bytes@.len() <= s.len() && bytes@ =~= s.subrange(offset as int, offset + bytes@.len())
                ==> final(self).consistent(s),
            // no loss (ordered mode): every not yet consumed offset that was buffered or has just arrived is buffered afterwards
            old(self).state is Ordered ==> forall|k: int| old(self).bytes_read <= k && (old(self).covers(k) || offset <= k < offset + bytes@.len()) ==> final(self).covers(k),
//@ at-start
        let ghost off0 = offset;
        let ghost b0 = bytes@;
        let ghost end0 = (offset + bytes@.len()) as u64;
        let ghost base = self.bufs();
        proof {
            lemma_sum_alloc_ge(base, self.end);
            assert((b0.len() + 1) * allocation_size == b0.len() * allocation_size + allocation_size) by(nonlinear_arith);
            assert(b0.len() * allocation_size >= 0) by(nonlinear_arith);
        }
//@ loop-iter 0 it
//@ loop 0
                invariant
                    valid_dups(it.seq(), off0, end0), off0 <= offset <= end0, end0 == off0 + b0.len(), bytes@ =~= b0.skip(offset - off0),
                    it.index@ == 0 ==> offset == off0,
                    it.index@ > 0 ==> offset == it.seq()[it.index@ - 1].end,
                    self.buffered == sum_len(heap_view(self.data)), self.allocated == sum_alloc(heap_view(self.data)),
                    forall|j: int| 0 <= j < heap_view(self.data).len() ==> buf_ok(#[trigger] heap_view(self.data)[j], self.end),
                    self.end >= end0, self.end >= old(self).end, self.end <= 0x4000_0000_0000_0000, self.bytes_read == old(self).bytes_read,
                    self.end == (if end0 > old(self).end { end0 } else { old(self).end }),
                    sum_len(heap_view(self.data)) + dup_total(it.seq(), it.index@) == sum_len(base) + (offset - off0),
                    self.allocated <= old(self).allocated + it.index@ * allocation_size,
                    self.allocated + allocation_size <= usize::MAX,
                    b0.len() <= allocation_size, old(self).allocated + (b0.len() + 1) * allocation_size <= usize::MAX,
                    forall|s: Seq<u8>| old(self).consistent(s) && end0 <= s.len() && b0 =~= s.subrange(off0 as int, end0 as int)
                        ==> (forall|j: int| 0 <= j < heap_view(self.data).len() ==> (#[trigger] heap_view(self.data)[j]).matches(s)),
//@ loop-start 0
                let ghost h0 = heap_view(self.data);
                let ghost offset_in = offset;
                let ghost bytes_in = bytes@;
                proof {
                    lemma_sum_alloc_ge(h0, self.end);
                    lemma_dups_count(it.seq(), off0, end0, it.seq().len() as int);
                    vstd::arithmetic::mul::lemma_mul_inequality(it.index@ + 1, b0.len() as int, allocation_size as int);
                    assert((b0.len() + 1) * allocation_size == b0.len() * allocation_size + allocation_size) by(nonlinear_arith);
                    assert((it.index@ + 1) * allocation_size == it.index@ * allocation_size + allocation_size) by(nonlinear_arith);
                    assert(dup_total(it.seq(), it.index@ + 1) == dup_total(it.seq(), it.index@) + (duplicate.end - duplicate.start));
                }
//@ after for duplicate in
            proof {
                assert(self.state is Unordered);
                assert(self.recvd_total() == old(self).recvd_total() + b0.len() - (sum_len(base) + (offset - off0) - sum_len(self.bufs())));
            }
//@ before if bytes.is_empty()
        proof { if self.state is Unordered { axiom_total_le_bound(self.state->recvd); } }
//@ before let buffer = Buffer::new(offset, bytes, allocation_size);
        let ghost h1 = self.bufs();
        let ghost offset1 = offset;
        proof {
            lemma_sum_alloc_ge(h1, self.end);
            assert(bytes@ =~= b0.skip(offset - off0));
        }
//@ after self.data.push(buffer); #0
        proof {
            lemma_sum_push(h1, buffer);
            lemma_all_push(h1, buffer, |b: Buffer| buf_ok(b, self.end));
            assert forall|s: Seq<u8>| old(self).consistent(s) && end0 <= s.len() && b0 =~= s.subrange(off0 as int, end0 as int) implies self.consistent(s) by {
                assert(buffer.bytes@ =~= s.subrange(offset1 as int, end0 as int));
                lemma_all_push(h1, buffer, |b: Buffer| b.matches(s));
            }
            if old(self).state is Ordered {
                assert forall|k: int| old(self).bytes_read <= k && (old(self).covers(k) || off0 <= k < end0) implies self.covers(k) by {
                    lemma_covers_push(h1, buffer, k);
                }
            }
            lemma_sum_alloc_ge(self.bufs(), self.end);
            if self.state is Unordered { axiom_total_le_bound(self.state->recvd); }
            assert(self.wf());
        }
//@ after self.data.push(buffer); #1
                    proof {
                        lemma_sum_push(h0, buffer);
                        lemma_all_push(h0, buffer, |b: Buffer| buf_ok(b, self.end));
                        assert forall|s: Seq<u8>| old(self).consistent(s) && end0 <= s.len() && b0 =~= s.subrange(off0 as int, end0 as int)
                            implies (forall|j: int| 0 <= j < heap_view(self.data).len() ==> (#[trigger] heap_view(self.data)[j]).matches(s)) by {
                            assert(buffer.bytes@ =~= s.subrange(offset_in as int, duplicate.start as int));
                            lemma_all_push(h0, buffer, |b: Buffer| b.matches(s));
                        }
                    }
//@ end
//@ extract quinn-proto/src/connection/assembler.rs :: impl Assembler::fn read
//@ ret r
//@ attr #[verifier::rlimit(60)]
//@ contract
        requires old(self).wf(), ordered == (old(self).state is Ordered)
        ensures final(self).wf(), final(self).state == old(self).state, final(self).end == old(self).end,
            forall|s: Seq<u8>| old(self).consistent(s) ==> final(self).consistent(s),
            match r {
                Some(c) => {
                    &&& final(self).bytes_read == old(self).bytes_read + c.bytes@.len()
                    &&& c.bytes@.len() <= max_length
                    &&& (max_length > 0 ==> c.bytes@.len() > 0)
                    &&& (ordered ==> c.offset == old(self).bytes_read)
                    &&& c.offset + c.bytes@.len() <= old(self).end
                    // what is handed out is the sender's data at that offset
                    &&& forall|s: Seq<u8>| old(self).consistent(s) ==> c.offset + c.bytes@.len() <= s.len() && c.bytes@ =~= s.subrange(c.offset as int, c.offset + c.bytes@.len())
                },
                None => {
                    &&& final(self).bytes_read == old(self).bytes_read
                    // ordered: nothing buffered holds the next byte (and nothing was discarded that did); unordered: nothing is buffered
                    &&& (ordered ==> !old(self).holds_next() && !final(self).holds_next())
                    &&& (!ordered ==> final(self).bufs().len() == 0 && old(self).bufs().len() == 0)
                },
            }
//@ at-start
        broadcast use axiom_peek_mut_resolved;
//@ loop 0
            invariant self.wf(), self.state == old(self).state, self.end == old(self).end, self.bytes_read == old(self).bytes_read,
                ordered == (self.state is Ordered),
                forall|s: Seq<u8>| old(self).consistent(s) ==> self.consistent(s),
                old(self).holds_next() ==> self.holds_next(),
                !ordered ==> self.bufs() == old(self).bufs(),
            decreases self.bufs().len()
//@ loop-start 0
            broadcast use axiom_peek_mut_resolved;
            let ghost base = self.bufs();
//@ after let mut chunk = self.data.peek_mut()?;
            let ghost idx = pm_idx(chunk);
            let ghost top0 = pm_top(chunk);
            proof {
                lemma_sum_ge(base, idx);
                assert(buf_ok(base[idx], self.end));
            }
//@ before return None;
                    proof {
                        assert(base.update(idx, top0) =~= base);
                        assert forall|i: int| 0 <= i < base.len() implies (#[trigger] base[i]).offset >= top0.offset by {
                            assert(!(base[i].cmp_spec(&top0) is Greater));
                        }
                    }
//@ before Chunk::new(offset
                proof {
                    // whatever value x the peeked element ends up with, the accounting of base.update(idx, x) is known
                    assert forall|x: Buffer| sum_len(#[trigger] base.update(idx, x)) + base[idx].bytes@.len() == sum_len(base) + x.bytes@.len()
                        && sum_alloc(base.update(idx, x)) + base[idx].allocation_size == sum_alloc(base) + x.allocation_size by { lemma_sum_update(base, idx, x); }
                    assert forall|x: Buffer| buf_ok(x, self.end) implies (forall|j: int| 0 <= j < base.len() ==> buf_ok(#[trigger] base.update(idx, x)[j], self.end)) by {
                        lemma_all_update(base, idx, x, |b: Buffer| buf_ok(b, self.end));
                    }
                    assert forall|x: Buffer, s: Seq<u8>| old(self).consistent(s) && x.matches(s) implies (forall|j: int| 0 <= j < base.len() ==> (#[trigger] base.update(idx, x)[j]).matches(s)) by {
                        lemma_all_update(base, idx, x, |b: Buffer| b.matches(s));
                    }
                }
//@ after let chunk = PeekMut::pop(chunk);
                proof {
                    lemma_sum_remove(base, idx);
                    lemma_all_remove(base, idx, |b: Buffer| buf_ok(b, self.end));
                    assert forall|s: Seq<u8>| old(self).consistent(s) implies self.consistent(s) by {
                        lemma_all_remove(base, idx, |b: Buffer| b.matches(s));
                    }
                }
//@ before continue;
                    proof {
                        lemma_sum_remove(base, idx);
                        assert(self.bufs() == base.remove(idx));
                        lemma_all_remove(base, idx, |b: Buffer| buf_ok(b, self.end));
                        assert forall|s: Seq<u8>| old(self).consistent(s) implies self.consistent(s) by {
                            lemma_all_remove(base, idx, |b: Buffer| b.matches(s));
                        }
                        if old(self).holds_next() { lemma_holds_remove(base, idx, self.bytes_read); }
                    }
//@ end
}

impl Chunk {
//@ extract quinn-proto/src/connection/assembler.rs :: impl Chunk::fn new
//@ ret r
//@ contract
        ensures r.offset == offset, r.bytes == bytes
//@ end
}

impl Buffer {
    pub open spec fn end(&self) -> int { self.offset + self.bytes@.len() }
    /// the buffer holds the sender's bytes `s[offset .. offset+len]`
    pub open spec fn matches(&self, s: Seq<u8>) -> bool {
        self.end() <= s.len() && self.bytes@ =~= s.subrange(self.offset as int, self.end())
    }
//@ extract quinn-proto/src/connection/assembler.rs :: impl Buffer::fn new
//@ ret r
//@ contract
        ensures r.offset == offset, r.bytes == bytes, r.allocation_size == allocation_size, !r.defragmented
//@ end
//@ extract quinn-proto/src/connection/assembler.rs :: impl Buffer::fn new_defragmented
//@ ret r
//@ contract
        ensures r.offset == offset, r.bytes == bytes, r.allocation_size == bytes@.len(), r.defragmented
//@ end
}

} // mod code
} // verus!
fn main() {}
