//! unit: btree_range_set -- RangeSet (BTreeMap start -> end): `replace` and its iterator keep the representation invariant (stored ranges non-empty, disjoint, never touching)
//! props: C01
//! trusted: RangeSet::{pred, succ} (BTreeMap::range(..).next_back() / .next(): entry with the greatest key <= x / least key > x) as stated; vstd's BTreeMap insert/remove over a Map view; Option::filter (its closure `|&(_, end)| end >= range.start` is re-written with a named parameter: Verus accepts only variables as closure parameters); the `for _ in &mut *self {}` of Replace::drop is read as `while let Some(_) = self.next() {}` (one header rewrite)
#![feature(const_destruct)]
#![allow(unused_imports, dead_code, non_camel_case_types, non_snake_case, unused_variables, unused_mut, unused_assignments)]
use vstd::prelude::*;
use std::collections::BTreeMap;
use std::ops::Range;
use std::cmp;
use vstd::std_specs::cmp::OrdSpec;
verus! {
global size_of usize == 8;
pub mod shims {
use super::*;
pub assume_specification<T> [std::cmp::max] (a: T, b: T) -> (r: T)
    where T: std::cmp::Ord + std::marker::Destruct,
    ensures (a.cmp_spec(&b) == core::cmp::Ordering::Greater) ==> r == a, (a.cmp_spec(&b) != core::cmp::Ordering::Greater) ==> r == b;
pub uninterp spec fn range_is_empty_spec<Idx>(r: std::ops::Range<Idx>) -> bool;
#[verifier::external_body]
pub broadcast proof fn axiom_range_is_empty_u64(r: std::ops::Range<u64>)
    ensures #[trigger] range_is_empty_spec(r) == !(r.start < r.end) {}
pub assume_specification<Idx> [std::ops::Range::<Idx>::is_empty] (r: &std::ops::Range<Idx>) -> (b: bool) where Idx: std::cmp::PartialOrd + std::cmp::PartialOrd,
    ensures b == range_is_empty_spec(*r);
pub assume_specification<T, P: FnOnce(&T) -> bool> [Option::<T>::filter] (o: Option<T>, p: P) -> (r: Option<T>)
    ensures match o {
        None => r.is_none(),
        Some(x) => (r == Some(x) && call_ensures(p, (&x,), true)) || (r.is_none() && call_ensures(p, (&x,), false)),
    };
}
pub mod spec {
use super::*;
pub type M = Map<u64, u64>;
/// representation invariant: every range non-empty; distinct ranges are disjoint and not adjacent
pub open spec fn wf(m: M) -> bool {
    &&& forall|s: u64| #[trigger] m.contains_key(s) ==> s < m[s]
    &&& forall|s1: u64, s2: u64| #![trigger m.contains_key(s1), m.contains_key(s2)] m.contains_key(s1) && m.contains_key(s2) && s1 < s2 ==> m[s1] < s2
}
/// v is in the set
pub open spec fn covered(m: M, v: u64) -> bool { exists|s: u64| #[trigger] m.contains_key(s) && s <= v < m[s] }
pub open spec fn inr(x: Range<u64>, v: u64) -> bool { x.start <= v < x.end }
/// the set together with the aggregate range that is still to be inserted
pub open spec fn pending(m: M, x: Range<u64>, v: u64) -> bool { covered(m, v) || inr(x, v) }
/// every stored range ends strictly before lo, or starts strictly after hi
pub open spec fn sep(m: M, lo: u64, hi: u64) -> bool { forall|s: u64| #[trigger] m.contains_key(s) ==> m[s] < lo || s > hi }
}
pub mod code {
use super::*; use super::shims::*; use super::spec::*;
broadcast use axiom_range_is_empty_u64;
//@ extract quinn-proto/src/range_set/btree_range_set.rs :: struct RangeSet
//@ derive
//@ end
//@ extract quinn-proto/src/range_set/btree_range_set.rs :: struct Replace
//@ end
impl RangeSet {
    /// trusted contract of the private helper (BTreeMap::range((Included(0), Included(x))).next_back()): the entry with the greatest key <= x
    #[verifier::external_body]
    fn pred(&self, x: u64) -> (r: Option<(u64, u64)>)
        ensures match r {
            Some((s, e)) => self.0@.contains_key(s) && self.0@[s] == e && s <= x && forall|k: u64| self.0@.contains_key(k) && k <= x ==> k <= s,
            None => forall|k: u64| self.0@.contains_key(k) ==> k > x,
        }
    { unimplemented!() }
    /// trusted contract of the private helper (BTreeMap::range((Excluded(x), Included(u64::MAX))).next()): the entry with the least key > x
    #[verifier::external_body]
    fn succ(&self, x: u64) -> (r: Option<(u64, u64)>)
        ensures match r {
            Some((s, e)) => self.0@.contains_key(s) && self.0@[s] == e && s > x && forall|k: u64| self.0@.contains_key(k) && k > x ==> k >= s,
            None => forall|k: u64| self.0@.contains_key(k) ==> k <= x,
        }
    { unimplemented!() }
//@ extract quinn-proto/src/range_set/btree_range_set.rs :: impl RangeSet::fn insert
//@ ret res
//@ contract
        requires wf(old(self).0@)
        ensures wf(final(self).0@),
            // exactly set union
            forall|v: u64| covered(final(self).0@, v) <==> covered(old(self).0@, v) || inr(x, v),
//@ at-start
        let ghost m0 = self.0@;
        let ghost x0 = x;
//@ before return false; #1
                proof { assert forall|v: u64| inr(x0, v) implies covered(m0, v) by { assert(m0.contains_key(start) && start <= v < m0[start]); } }
//@ after self.0.remove(&start);
                proof {
                    let m1 = self.0@;
                    assert(forall|s: u64| #[trigger] m1.contains_key(s) ==> m0.contains_key(s) && m1[s] == m0[s]);
                }
//@ before while let Some((next_start, next_end)) = self.succ(x.start)
        proof {
            let m1 = self.0@;
            assert(forall|s: u64| #[trigger] m1.contains_key(s) ==> m0.contains_key(s) && m1[s] == m0[s]);
            assert forall|v: u64| pending(m1, x, v) <==> pending(m0, x0, v) by {
                if covered(m1, v) { let s = choose|s: u64| #[trigger] m1.contains_key(s) && s <= v < m1[s]; assert(m0.contains_key(s)); }
                if covered(m0, v) && !pending(m1, x, v) { let s = choose|s: u64| #[trigger] m0.contains_key(s) && s <= v < m0[s]; assert(m1.contains_key(s)); }
                if inr(x, v) && !inr(x0, v) && !covered(m0, v) { assert(m0.contains_key(x.start)); }
            }
        }
//@ loop 0
            invariant
                wf(self.0@), x.start < x.end,
                forall|s: u64| #[trigger] self.0@.contains_key(s) ==> self.0@[s] < x.start || s > x.start,
                forall|v: u64| pending(self.0@, x, v) <==> pending(m0, x0, v),
            ensures
                wf(self.0@), x.start < x.end, sep(self.0@, x.start, x.end),
                forall|v: u64| pending(self.0@, x, v) <==> pending(m0, x0, v),
            decreases self.0@.dom().len()
//@ loop-start 0
            let ghost mb = self.0@;
            let ghost xb = x;
//@ after x.end =
            proof {
                let m1 = self.0@;
                assert(forall|s: u64| #[trigger] m1.contains_key(s) ==> mb.contains_key(s) && m1[s] == mb[s]);
                assert forall|v: u64| pending(m1, x, v) <==> pending(mb, xb, v) by {
                    if covered(m1, v) { let s = choose|s: u64| #[trigger] m1.contains_key(s) && s <= v < m1[s]; assert(mb.contains_key(s)); }
                    if covered(mb, v) && !pending(m1, x, v) { let s = choose|s: u64| #[trigger] mb.contains_key(s) && s <= v < mb[s]; assert(m1.contains_key(s)); }
                    if inr(x, v) && !inr(xb, v) && !covered(mb, v) { assert(mb.contains_key(next_start)); }
                }
            }
//@ before true
        proof {
            let m1 = self.0@;
            assert forall|v: u64| covered(m1, v) <==> pending(mi, x, v) by {
                if covered(m1, v) { let s = choose|s: u64| #[trigger] m1.contains_key(s) && s <= v < m1[s]; if s != x.start { assert(mi.contains_key(s)); } }
                if covered(mi, v) { let s = choose|s: u64| #[trigger] mi.contains_key(s) && s <= v < mi[s]; assert(m1.contains_key(s)); }
                if inr(x, v) { assert(m1.contains_key(x.start)); }
            }
            assert forall|v: u64| covered(m1, v) <==> covered(m0, v) || inr(x0, v) by {
                assert(pending(mi, x, v) <==> pending(m0, x0, v));
            }
        }
//@ before self.0.insert(x.start, x.end);
        let ghost mi = self.0@;
//@ end
//@ extract quinn-proto/src/range_set/btree_range_set.rs :: impl RangeSet::fn replace
//@ ret it
//@ replace |&(_, end)| end >= range.start => |p: &(u64, u64)| -> (b: bool) ensures b == (p.1 >= range.start) { p.1 >= range.start }
//@ contract
        requires wf(old(self).0@), range.start <= range.end
        ensures it.rinv(),
            // set together with the aggregate range == old set plus the requested range
            forall|v: u64| pending(it.set.0@, it.range, v) <==> pending(old(self).0@, range, v),
//@ at-start
        let ghost m0 = self.0@;
        let ghost range0 = range;
//@ before Replace {
        proof {
            let m1 = self.0@;
            assert(forall|s: u64| #[trigger] m1.contains_key(s) ==> m0.contains_key(s) && m1[s] == m0[s]);
            assert forall|v: u64| pending(m1, range, v) <==> pending(m0, range0, v) by {
                if covered(m1, v) { let s = choose|s: u64| #[trigger] m1.contains_key(s) && s <= v < m1[s]; assert(m0.contains_key(s)); }
                if covered(m0, v) && !pending(m1, range, v) {
                    let s = choose|s: u64| #[trigger] m0.contains_key(s) && s <= v < m0[s];
                    assert(m1.contains_key(s));
                }
                if inr(range, v) && !inr(range0, v) && !covered(m0, v) {
                    // range was extended over the removed predecessor
                    assert(m0.contains_key(range.start) || m0.contains_key(range.start));
                }
            }
        }
//@ end
}
impl<'a> Replace<'a> {
    /// the set while a replacement is in progress: well formed, and every stored range either ends strictly before the aggregate
    /// range or starts strictly after its start (those are still to be visited)
    pub open spec fn rinv(&self) -> bool {
        &&& wf(self.set.0@)
        &&& self.range.start <= self.range.end
        &&& forall|s: u64| #[trigger] self.set.0@.contains_key(s) ==> self.set.0@[s] < self.range.start || s > self.range.start
        // the overlap with a predecessor, yielded first, is a non-empty part of the aggregate range
        &&& (self.pred matches Some(p) ==> p.start < p.end && self.range.start <= p.start && p.end <= self.range.end)
    }
    pub open spec fn measure(&self) -> nat { self.set.0@.dom().len() + (if self.pred.is_some() { 1nat } else { 0nat }) }
}
// `Iterator::next` is placed in an inherent impl here: a trait impl cannot carry the in-progress invariant as a precondition
impl<'a> Replace<'a> {
//@ extract quinn-proto/src/range_set/btree_range_set.rs :: impl Iterator for Replace<'_>::fn next
//@ ret r
//@ contract
        requires old(self).rinv()
        ensures final(self).rinv(),
            r.is_some() ==> final(self).measure() < old(self).measure(),
            // once it reports the end, nothing stored overlaps or touches the aggregate range
            r.is_none() ==> sep(final(self).set.0@, final(self).range.start, final(self).range.end) && final(self).pred.is_none(),
            forall|v: u64| pending(final(self).set.0@, final(self).range, v) <==> pending(old(self).set.0@, old(self).range, v),
            // what is yielded is non-empty, inside the aggregate range, and (unless it is the predecessor's overlap) was stored before
            r matches Some(d) ==> d.start < d.end && final(self).range.start <= d.start && d.end <= final(self).range.end
                && (old(self).pred.is_none() ==> forall|v: u64| inr(d, v) ==> covered(old(self).set.0@, v) && inr(old(self).range, v)),
//@ at-start
        let ghost m0 = self.set.0@;
        let ghost range0 = self.range;
//@ after self.range.end =
        proof {
            let m1 = self.set.0@;
            assert(forall|s: u64| #[trigger] m1.contains_key(s) ==> m0.contains_key(s) && m1[s] == m0[s]);
            assert forall|v: u64| pending(m1, self.range, v) <==> pending(m0, range0, v) by {
                if covered(m1, v) { let s = choose|s: u64| #[trigger] m1.contains_key(s) && s <= v < m1[s]; assert(m0.contains_key(s)); }
                if covered(m0, v) && !pending(m1, self.range, v) {
                    let s = choose|s: u64| #[trigger] m0.contains_key(s) && s <= v < m0[s];
                    assert(m1.contains_key(s));
                }
                if inr(self.range, v) && !inr(range0, v) && !covered(m0, v) { assert(m0.contains_key(next_start)); }
            }
        }
//@ end
}
impl<'a> Replace<'a> {
//@ extract quinn-proto/src/range_set/btree_range_set.rs :: impl Drop for Replace<'_>::fn drop
//@ replace for _ in &mut *self => while let Some(_x) = self.next()
//@ contract
        requires old(self).rinv()
        ensures wf(final(self).set.0@),
            // afterwards the set is exactly what was stored plus the aggregate range
            forall|v: u64| covered(final(self).set.0@, v) <==> pending(old(self).set.0@, old(self).range, v),
//@ at-end
        proof {
            let m1 = self.set.0@;
            assert forall|v: u64| covered(m1, v) <==> pending(mb, self.range, v) by {
                if covered(m1, v) { let s = choose|s: u64| #[trigger] m1.contains_key(s) && s <= v < m1[s]; if s != self.range.start { assert(mb.contains_key(s)); } }
                if covered(mb, v) { let s = choose|s: u64| #[trigger] mb.contains_key(s) && s <= v < mb[s]; assert(m1.contains_key(s)); }
                if inr(self.range, v) { assert(m1.contains_key(self.range.start)); }
            }
        }
//@ after for _ in
        let ghost mb = self.set.0@;
//@ loop 0
            invariant self.rinv(), forall|v: u64| pending(self.set.0@, self.range, v) <==> pending(old(self).set.0@, old(self).range, v),
            ensures self.rinv(), sep(self.set.0@, self.range.start, self.range.end), forall|v: u64| pending(self.set.0@, self.range, v) <==> pending(old(self).set.0@, old(self).range, v)
            decreases self.measure()
//@ end
}
}
}
fn main() {}
