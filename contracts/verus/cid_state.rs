//! unit: cid_state -- CidState, the connection's view of the connection IDs it has issued: which are still active, what retire_prior_to to announce, when another CID may be issued
//! props: C09
//! trusted: FxHashSet<u64> as a finite set (insert / remove / contains / len); `<range>.any(|seq| self.active_seq.contains(&seq))` (only the `.any(closure)` call is routed through a shim trait over Range / RangeInclusive; the range expression stays the repository's) and `ids.iter().for_each(|frame| { insert })` are routed through shims with the obvious meaning (closures that capture `self`; rule R16); Instant as a nanosecond counter; VecDeque from vstd
#![feature(allocator_api)]
#![allow(unused_imports, dead_code, non_camel_case_types, non_snake_case, unused_variables, unused_mut, unused_assignments)]
use vstd::prelude::*;
use std::collections::VecDeque;
use std::alloc::Allocator;
verus! {
global size_of usize == 8;
pub mod shims {
use super::*;
#[derive(Copy, Clone)] pub struct Duration { pub d: u64 }
#[derive(Copy, Clone, PartialEq, Eq)] pub struct Instant { pub t: u64 }
impl vstd::std_specs::cmp::PartialEqSpecImpl for Instant { open spec fn obeys_eq_spec() -> bool { true } open spec fn eq_spec(&self, o: &Instant) -> bool { *self == *o } }
impl Instant {
    pub fn checked_add(&self, d: Duration) -> (r: Option<Instant>)
        ensures match r { Some(i) => i.t == self.t + d.d, None => self.t + d.d > u64::MAX }
    { match self.t.checked_add(d.d) { Some(t) => Some(Instant { t }), None => None } }
}
#[derive(Copy, Clone, PartialEq, Eq)] pub enum Code { PROTOCOL_VIOLATION }
pub struct TransportError { pub code: Code }
impl TransportError {
    pub fn PROTOCOL_VIOLATION(_r: &'static str) -> (r: Self) ensures r.code == Code::PROTOCOL_VIOLATION { TransportError { code: Code::PROTOCOL_VIOLATION } }
}
pub assume_specification<T, A: Allocator> [VecDeque::<T, A>::back_mut] (v: &mut VecDeque<T, A>) -> (r: Option<&mut T>)
    ensures match r {
        Some(x) => old(v)@.len() > 0 && *x == old(v)@[old(v)@.len() - 1] && final(v)@ == old(v)@.update(old(v)@.len() - 1, *final(x)),
        None => old(v)@.len() == 0 && final(v)@ == old(v)@,
    };
/// a locally issued connection ID as far as CidState reads it
pub struct IssuedCid { pub sequence: u64 }
#[verifier::external_body] #[verifier::reject_recursive_types(T)] pub struct FxHashSet<T> { x: core::marker::PhantomData<T> }
impl View for FxHashSet<u64> { type V = Set<u64>; uninterp spec fn view(&self) -> Set<u64>; }
impl FxHashSet<u64> {
    #[verifier::external_body] pub fn insert(&mut self, x: u64) -> (r: bool) ensures final(self)@ == old(self)@.insert(x), r == !old(self)@.contains(x) { unimplemented!() }
    #[verifier::external_body] pub fn remove(&mut self, x: &u64) -> (r: bool) ensures final(self)@ == old(self)@.remove(*x), r == old(self)@.contains(*x) { unimplemented!() }
    #[verifier::external_body] pub fn contains(&self, x: &u64) -> (r: bool) ensures r == self@.contains(*x) { unimplemented!() }
    #[verifier::external_body] pub fn len(&self) -> (r: usize) ensures r == self@.len() { unimplemented!() }
}
impl Default for FxHashSet<u64> { #[verifier::external_body] fn default() -> (r: Self) ensures r@ == Set::<u64>::empty() { unimplemented!() } }
/// some sequence number in [a, b) is in the set
pub open spec fn any_in(s: Set<u64>, a: int, b: int) -> bool { exists|k: u64| a <= k < b && #[trigger] s.contains(k) }
/// `range.any(|seq| set.contains(&seq))` for the two range forms; the bounds come from the range expression in the repository text
pub trait AnyActive: Sized {
    spec fn lo(&self) -> int;
    spec fn hi(&self) -> int;
    fn any_active(self, s: &FxHashSet<u64>) -> (r: bool) ensures r == any_in(s@, self.lo(), self.hi());
}
impl AnyActive for core::ops::Range<u64> {
    open spec fn lo(&self) -> int { self.start as int }
    open spec fn hi(&self) -> int { self.end as int }
    #[verifier::external_body] fn any_active(self, s: &FxHashSet<u64>) -> (r: bool) { unimplemented!() }
}
impl AnyActive for core::ops::RangeInclusive<u64> {
    open spec fn lo(&self) -> int { self@.start as int }
    open spec fn hi(&self) -> int { self@.end as int + 1 }
    #[verifier::external_body] fn any_active(self, s: &FxHashSet<u64>) -> (r: bool) { unimplemented!() }
}
/// `ids.iter().for_each(|frame| { set.insert(frame.sequence); })`
#[verifier::external_body] pub fn insert_all(s: &mut FxHashSet<u64>, ids: &[IssuedCid])
    ensures forall|k: u64| final(s)@.contains(k) <==> old(s)@.contains(k) || exists|i: int| 0 <= i < ids@.len() && (#[trigger] ids@[i]).sequence == k
{ unimplemented!() }
}
pub mod code {
use super::*; use super::shims::*;
//@ extract quinn-proto/src/connection/cid_state.rs :: struct CidTimestamp
//@ derive Copy Clone
//@ vis pub
//@ end
//@ extract quinn-proto/src/connection/cid_state.rs :: struct CidState
//@ vis pub
//@ end
impl CidState {
    /// representation invariant: the two retire markers are ordered and never beyond what has been issued
    pub open spec fn wf(&self) -> bool {
        &&& self.prev_retire_seq <= self.retire_seq
        // expiry batches are queued in increasing sequence order, all at or above what is already being retired
        &&& forall|i: int| 0 <= i < self.retire_timestamp@.len() ==> self.retire_seq <= (#[trigger] self.retire_timestamp@[i]).sequence < u64::MAX
        &&& forall|i: int, j: int| 0 <= i < j < self.retire_timestamp@.len() ==> (#[trigger] self.retire_timestamp@[i]).sequence < (#[trigger] self.retire_timestamp@[j]).sequence
    }
//@ extract quinn-proto/src/connection/cid_state.rs :: impl CidState::fn new
//@ ret r
//@ loop-iter 0 it0
//@ loop 0
            invariant forall|k: u64| active_seq@.contains(k) <==> k < it0.index@, it0.seq().len() == issued, forall|i: int| 0 <= i < issued ==> #[trigger] it0.seq()[i] == i,
//@ loop-iter 1 it1
//@ loop 1
            invariant this.wf(), this.retire_seq == 0, this.prev_retire_seq == 0, this.issued == issued, this.cid_len == cid_len, this.active_seq == active_seq,
                it1.seq().len() == issued, forall|i: int| 0 <= i < issued ==> #[trigger] it1.seq()[i] == i,
                this.retire_timestamp@.len() > 0 ==> this.retire_timestamp@[this.retire_timestamp@.len() - 1].sequence < it1.index@,
//@ contract
        ensures r.wf(), r.retire_seq == 0, r.prev_retire_seq == 0, r.issued == issued, r.cid_len == cid_len,
            // the handshake CIDs 0..issued start out active
            forall|k: u64| r.active_seq@.contains(k) <==> k < issued,
//@ end
//@ extract quinn-proto/src/connection/cid_state.rs :: impl CidState::fn on_cid_timeout
//@ ret r
//@ replace .any(|seq| self.active_seq.contains(&seq)) => .any_active(&self.active_seq)
//@ closure 1 : CidTimestamp -> (n: u64)
        requires seq.sequence < u64::MAX
        ensures n == seq.sequence + 1
//@ contract
        requires old(self).wf(),
        ensures final(self).wf(), final(self).active_seq == old(self).active_seq, final(self).issued == old(self).issued,
            // the announced retire_prior_to moves only when the peer has retired everything asked for before, and only to the next expiry batch
            final(self).retire_seq == (if !any_in(old(self).active_seq@, old(self).prev_retire_seq as int, old(self).retire_seq as int) && old(self).retire_timestamp@.len() > 0
                { (old(self).retire_timestamp@[0].sequence + 1) as u64 } else { old(self).retire_seq }),
            final(self).retire_seq >= old(self).retire_seq,
            final(self).prev_retire_seq == (if any_in(old(self).active_seq@, old(self).prev_retire_seq as int, old(self).retire_seq as int) { old(self).prev_retire_seq } else { old(self).retire_seq }),
            // the expired batch leaves the queue either way
            final(self).retire_timestamp@ == (if old(self).retire_timestamp@.len() > 0 { old(self).retire_timestamp@.subrange(1, old(self).retire_timestamp@.len() as int) } else { old(self).retire_timestamp@ }),
            // a new CID is pushed exactly when one of the CIDs the new retire_prior_to covers (and the old one did not) is still active:
            // otherwise the peer has nothing left to retire and an extra CID would exceed its limit
            r == any_in(final(self).active_seq@, old(self).retire_seq as int, final(self).retire_seq as int),
//@ end
//@ extract quinn-proto/src/connection/cid_state.rs :: impl CidState::fn on_cid_retirement
//@ props C09 C03
//@ ret res
//@ contract
        ensures match res {
            // a retired CID leaves the active set; another may be issued exactly while the peer holds fewer than its limit.
            // `issued` is a count: the sequence numbers sent so far are 0..issued, and RFC 9000 19.16 makes any larger one a PROTOCOL_VIOLATION
            Ok(b) => old(self).cid_len != 0 && sequence < old(self).issued && final(self).active_seq@ == old(self).active_seq@.remove(sequence)
                && b == (limit > final(self).active_seq@.len()),
            Err(e) => e.code == Code::PROTOCOL_VIOLATION && (old(self).cid_len == 0 || sequence >= old(self).issued) && final(self).active_seq == old(self).active_seq,
        },
        final(self).retire_seq == old(self).retire_seq, final(self).prev_retire_seq == old(self).prev_retire_seq, final(self).issued == old(self).issued,
//@ end
//@ extract quinn-proto/src/connection/cid_state.rs :: impl CidState::fn track_lifetime
//@ debug-assert drop
//@ contract
        requires old(self).wf(), old(self).retire_seq <= new_cid_seq < u64::MAX,
            // sequence numbers are handed out in increasing order (the real code debug-asserts it)
            old(self).retire_timestamp@.len() > 0 ==> new_cid_seq > old(self).retire_timestamp@[old(self).retire_timestamp@.len() - 1].sequence,
        ensures final(self).wf(), final(self).active_seq == old(self).active_seq, final(self).issued == old(self).issued, final(self).retire_seq == old(self).retire_seq,
            final(self).prev_retire_seq == old(self).prev_retire_seq, final(self).cid_len == old(self).cid_len,
            // the queue records the new sequence number under its expiry time: merged into the last batch when the time is the same, a new batch otherwise
            ({ let q0 = old(self).retire_timestamp@; let q1 = final(self).retire_timestamp@;
               match old(self).cid_lifetime {
                   Some(l) if now.t + l.d <= u64::MAX => {
                       let at = Instant { t: (now.t + l.d) as u64 };
                       if q0.len() > 0 && q0[q0.len() - 1].timestamp == at { q1 == q0.update(q0.len() - 1, CidTimestamp { sequence: new_cid_seq, timestamp: at }) }
                       else { q1 == q0.push(CidTimestamp { sequence: new_cid_seq, timestamp: at }) }
                   }
                   _ => q1 == q0,
               } }),
//@ end
//@ extract quinn-proto/src/connection/cid_state.rs :: impl CidState::fn new_cids
//@ replace ws:ids.iter().for_each(|frame| { self.active_seq.insert(frame.sequence); }); => insert_all(&mut self.active_seq, ids);
//@ contract
        requires old(self).issued + ids@.len() <= u64::MAX, old(self).wf(),
            ids@.len() > 0 ==> old(self).retire_seq <= ids@[ids@.len() - 1].sequence < u64::MAX
                && (old(self).retire_timestamp@.len() > 0 ==> ids@[ids@.len() - 1].sequence > old(self).retire_timestamp@[old(self).retire_timestamp@.len() - 1].sequence),
        ensures final(self).wf(), final(self).issued == old(self).issued + ids@.len(),
            // exactly the newly issued sequence numbers become active
            forall|k: u64| final(self).active_seq@.contains(k) <==> old(self).active_seq@.contains(k) || exists|i: int| 0 <= i < ids@.len() && (#[trigger] ids@[i]).sequence == k,
            final(self).retire_seq == old(self).retire_seq, final(self).prev_retire_seq == old(self).prev_retire_seq,
//@ end
//@ extract quinn-proto/src/connection/cid_state.rs :: impl CidState::fn retire_prior_to
//@ ret r
//@ contract
        ensures r == self.retire_seq
//@ end
//@ extract quinn-proto/src/connection/cid_state.rs :: impl CidState::fn cid_len
//@ ret r
//@ contract
        ensures r == self.cid_len
//@ end
}
}
}
fn main() {}
