//! unit: datagrams -- DatagramState: FIFO queues with exact byte accounting; oldest dropped first; stored payloads never altered
//! props: C16 C06
//! cross-unit: shims::datagram_encode (Datagram::encode appends exactly enc(d) of length size(true)) is the contract boundary to unit frame_encode
//! trusted: Default impl of DatagramState written out (R7)
#![feature(allocator_api)]
#![allow(unused_imports, dead_code, non_camel_case_types, non_snake_case, unused_variables, unused_mut, unused_assignments)]
use vstd::prelude::*;
use std::collections::VecDeque;
verus! {
global size_of usize == 8;
pub mod shims {
use super::*;
#[verifier::external_body]
pub struct Bytes { inner: Vec<u8> }
impl View for Bytes { type V = Seq<u8>; uninterp spec fn view(&self) -> Seq<u8>; }
impl Bytes {
    #[verifier::external_body]
    pub fn len(&self) -> (r: usize) ensures r == self@.len() { unimplemented!() }
}
pub enum Code { PROTOCOL_VIOLATION }
pub struct TransportError { pub code: Code }
impl TransportError {
    pub fn PROTOCOL_VIOLATION(_reason: &'static str) -> (r: Self) ensures r.code == Code::PROTOCOL_VIOLATION { TransportError { code: Code::PROTOCOL_VIOLATION } }
}
#[derive(Debug)] pub struct VarIntBoundsExceeded;
#[derive(Copy, Clone)] pub struct VarInt(pub u64);
pub open spec fn varint_size(x: u64) -> nat { if x < 0x40 { 1 } else if x < 0x4000 { 2 } else if x < 0x4000_0000 { 4 } else { 8 } }
impl VarInt {
    /// contract boundary: proved on the real VarInt by Kani (harness varint_from_u64_size)
    #[verifier::external_body]
    pub fn from_u64(x: u64) -> (r: Result<Self, VarIntBoundsExceeded>)
        ensures x < 0x4000_0000_0000_0000 ==> (r is Ok && r->Ok_0.0 == x), x >= 0x4000_0000_0000_0000 ==> r is Err { unimplemented!() }
    #[verifier::external_body]
    pub const fn size(self) -> (r: usize) requires self.0 < 0x4000_0000_0000_0000 ensures r == varint_size(self.0) { unimplemented!() }
}
}
pub mod spec {
use super::*; use super::shims::*; use super::code::*;
pub open spec fn total(s: Seq<Datagram>) -> nat decreases s.len() {
    if s.len() == 0 { 0 } else { s[0].data@.len() + total(s.skip(1)) }
}
pub broadcast proof fn lemma_total_push(s: Seq<Datagram>, d: Datagram)
    ensures #[trigger] total(s.push(d)) == total(s) + d.data@.len()
    decreases s.len()
{
    if s.len() == 0 {
        assert(s.push(d).skip(1) =~= Seq::<Datagram>::empty());
        assert(total(Seq::<Datagram>::empty()) == 0);
        assert(s.push(d)[0] == d);
        assert(total(s) == 0);
    } else {
        assert(s.push(d).skip(1) =~= s.skip(1).push(d));
        lemma_total_push(s.skip(1), d);
        assert(s.push(d)[0] == s[0]);
    }
}
pub broadcast proof fn lemma_total_skip1(s: Seq<Datagram>)
    requires s.len() > 0
    ensures #[trigger] total(s.skip(1)) == total(s) - s[0].data@.len()
{}
pub broadcast group group_total { lemma_total_push, lemma_total_skip1 }
pub proof fn lemma_total_push_front(s: Seq<Datagram>, d: Datagram)
    ensures total(seq![d] + s) == total(s) + d.data@.len()
{
    assert((seq![d] + s).skip(1) =~= s);
    assert((seq![d] + s)[0] == d);
}
/// wire image of a DATAGRAM frame (uninterpreted here; pinned down in unit frame_encode)
pub uninterp spec fn enc_datagram(d: Datagram, length: bool) -> Seq<u8>;
pub open spec fn spec_size(d: Datagram, length: bool) -> nat {
    1 + (if length { varint_size(d.data@.len() as u64) } else { 0 }) + d.data@.len()
}
}
pub mod code {
use super::*; use super::shims::*; use super::spec::*;
broadcast use group_total;

//@ extract quinn-proto/src/frame.rs :: struct Datagram
//@ derive
//@ end
impl Datagram {
//@ extract quinn-proto/src/frame.rs :: impl Datagram::fn size
//@ ret r
//@ contract
        requires self.data@.len() < 0x4000_0000_0000_0000
        ensures r == spec_size(*self, length)
//@ end
    /// contract boundary (see header): appends exactly the wire image, whose length is size(length)
    #[verifier::external_body]
    pub fn encode(&self, length: bool, out: &mut Vec<u8>)
        requires self.data@.len() < 0x4000_0000_0000_0000
        ensures final(out)@ == old(out)@ + enc_datagram(*self, length), enc_datagram(*self, length).len() == spec_size(*self, length)
    { unimplemented!() }
}

//@ extract quinn-proto/src/connection/datagrams.rs :: struct DatagramState
//@ derive
//@ end

/// what the peer is told: `config.datagram_receive_buffer_size.map(|x| x.min(u16::MAX.into()) as u16)`
pub open spec fn advertised(window: usize) -> int { if window < 0xffff { window as int } else { 0xffff } }
impl DatagramState {
    pub open spec fn wf(&self) -> bool {
        &&& self.recv_buffered == total(self.incoming@)
        &&& self.outgoing_total == total(self.outgoing@)
    }

//@ extract quinn-proto/src/connection/datagrams.rs :: impl DatagramState::fn received
//@ ret res
//@ contract
        requires old(self).wf(), old(self).recv_buffered + datagram.data@.len() <= usize::MAX, datagram.data@.len() < 0x4000_0000_0000_0000,
        ensures
            final(self).wf(),
            final(self).outgoing@ == old(self).outgoing@, final(self).outgoing_total == old(self).outgoing_total,
            match res {
                Ok(was_empty) => {
                    // RFC 9221 section 3: the advertised max_datagram_frame_size (the receive buffer size capped at u16::MAX, see
                    // TransportParameters::new) limits the whole frame, which is at least one type byte larger than its payload
                    &&& window.is_some() && 1 + datagram.data@.len() <= advertised(window.unwrap())
                    &&& final(self).recv_buffered <= window.unwrap()
                    &&& was_empty == (old(self).recv_buffered == 0)
                    // oldest dropped first, nothing else touched, new one at the back
                    &&& final(self).incoming@.len() <= old(self).incoming@.len() + 1
                    &&& ({ let k = old(self).incoming@.len() + 1 - final(self).incoming@.len();
                            final(self).incoming@ =~= old(self).incoming@.skip(k).push(datagram)
                            // minimal: dropping one fewer would not have fit
                            && (k > 0 ==> total(old(self).incoming@.skip(k - 1)) + datagram.data@.len() > window.unwrap()) })
                },
                Err(e) => {
                    &&& e.code == Code::PROTOCOL_VIOLATION
                    &&& (window.is_none() || 1 + datagram.data@.len() > advertised(window.unwrap()))
                    &&& final(self).incoming@ == old(self).incoming@
                },
            },
//@ loop 0
            invariant
                self.wf(),
                self.outgoing@ == old(self).outgoing@, self.outgoing_total == old(self).outgoing_total,
                datagram.data@.len() <= window, self.recv_buffered <= old(self).recv_buffered, old(self).recv_buffered + datagram.data@.len() <= usize::MAX,
                self.incoming@.len() <= old(self).incoming@.len(),
                self.incoming@ =~= old(self).incoming@.skip(old(self).incoming@.len() - self.incoming@.len()),
                old(self).incoming@.len() - self.incoming@.len() > 0 ==> total(old(self).incoming@.skip(old(self).incoming@.len() - self.incoming@.len() - 1)) + datagram.data@.len() > window,
            decreases self.incoming@.len()
//@ end

//@ extract quinn-proto/src/connection/datagrams.rs :: impl DatagramState::fn make_space_for
//@ props C16
//@ contract
        requires old(self).wf(),
        ensures
            final(self).wf(),
            final(self).incoming@ == old(self).incoming@, final(self).recv_buffered == old(self).recv_buffered,
            final(self).outgoing@.len() <= old(self).outgoing@.len(),
            // a suffix of the queue survives: the oldest are dropped first and nothing is altered
            ({ let k = old(self).outgoing@.len() - final(self).outgoing@.len();
               final(self).outgoing@ =~= old(self).outgoing@.skip(k)
               // minimal: dropping one fewer would not have made room
               && (k > 0 ==> total(old(self).outgoing@.skip(k - 1)) + datagram_len > send_buffer_size) }),
            // afterwards there is room, or the queue is empty
            final(self).outgoing_total + datagram_len <= send_buffer_size || final(self).outgoing@.len() == 0,
//@ loop 0
            invariant
                self.wf(),
                self.incoming@ == old(self).incoming@, self.recv_buffered == old(self).recv_buffered,
                self.outgoing@.len() <= old(self).outgoing@.len(),
                self.outgoing@ =~= old(self).outgoing@.skip(old(self).outgoing@.len() - self.outgoing@.len()),
                old(self).outgoing@.len() - self.outgoing@.len() > 0 ==> total(old(self).outgoing@.skip(old(self).outgoing@.len() - self.outgoing@.len() - 1)) + datagram_len > send_buffer_size,
            ensures
                self.wf(),
                self.incoming@ == old(self).incoming@, self.recv_buffered == old(self).recv_buffered,
                self.outgoing@.len() <= old(self).outgoing@.len(),
                self.outgoing@ =~= old(self).outgoing@.skip(old(self).outgoing@.len() - self.outgoing@.len()),
                old(self).outgoing@.len() - self.outgoing@.len() > 0 ==> total(old(self).outgoing@.skip(old(self).outgoing@.len() - self.outgoing@.len() - 1)) + datagram_len > send_buffer_size,
                self.outgoing_total + datagram_len <= send_buffer_size || self.outgoing@.len() == 0,
            decreases self.outgoing@.len()
//@ end

//@ extract quinn-proto/src/connection/datagrams.rs :: impl DatagramState::fn drop_oversized
//@ props C16
//@ ret r
//@ retain-loop 0 : Datagram
            invariant
                self.incoming@ == old(self).incoming@, self.recv_buffered == old(self).recv_buffered,
                self.outgoing@.len() <= old(self).outgoing@.len(),
                self.outgoing@ =~= old(self).outgoing@.skip(old(self).outgoing@.len() - self.outgoing@.len()),
                vkept@ =~= old(self).outgoing@.take(old(self).outgoing@.len() - self.outgoing@.len()).filter(|d: Datagram| d.data@.len() < max_payload),
                self.outgoing_total == total(vkept@) + total(self.outgoing@),
                dropped_any == (vkept@.len() + self.outgoing@.len() < old(self).outgoing@.len()),
            ensures
                self.outgoing@.len() == 0,
            decreases self.outgoing@.len()
//@ after let result =
            proof {
                let s = old(self).outgoing@;
                let k = s.len() - self.outgoing@.len() - 1;
                assert(s.take(k + 1).drop_last() =~= s.take(k));
                assert(s.take(k + 1).last() == vitem);
                reveal(Seq::filter);
            }
//@ before dropped_any #0
        proof { assert(old(self).outgoing@.take(old(self).outgoing@.len() as int) =~= old(self).outgoing@); assert(total(Seq::<Datagram>::empty()) == 0); }
//@ contract
        requires old(self).wf(),
        ensures
            final(self).wf(), final(self).incoming@ == old(self).incoming@, final(self).recv_buffered == old(self).recv_buffered,
            // exactly the datagrams that no longer fit are dropped, the others keep their order and content, and the byte count follows
            final(self).outgoing@ =~= old(self).outgoing@.filter(|d: Datagram| d.data@.len() < max_payload),
            r == (final(self).outgoing@.len() < old(self).outgoing@.len()),
//@ end

//@ extract quinn-proto/src/connection/datagrams.rs :: impl DatagramState::fn has_send_buffer_space
//@ props C16
//@ ret r
//@ contract
        ensures r == (self.outgoing_total + datagram_len <= send_buffer_size)
//@ end

//@ extract quinn-proto/src/connection/datagrams.rs :: impl DatagramState::fn write
//@ props C16
//@ ret r
//@ contract
        requires old(self).wf(), forall|i: int| 0 <= i < old(self).outgoing@.len() ==> (#[trigger] old(self).outgoing@[i]).data@.len() < 0x4000_0000_0000_0000,
            old(buf)@.len() <= 0x7fff_ffff_ffff_ffff, // Rust allocation limit (isize::MAX bytes)
        ensures
            final(self).wf(),
            final(self).incoming@ == old(self).incoming@, final(self).recv_buffered == old(self).recv_buffered,
            // a frame is written iff there is a datagram and its encoding fits within max_size
            r == (old(self).outgoing@.len() > 0 && old(buf)@.len() + spec_size(old(self).outgoing@[0], true) <= max_size),
            r ==> final(self).outgoing@ =~= old(self).outgoing@.skip(1)
                && final(buf)@ == old(buf)@ + enc_datagram(old(self).outgoing@[0], true)
                && final(buf)@.len() <= max_size,
            !r ==> final(self).outgoing@ =~= old(self).outgoing@ && final(buf)@ == old(buf)@,
//@ before if buf.len() + datagram.size(true)
        proof { lemma_total_push_front(self.outgoing@, datagram); assert(old(self).outgoing@ =~= seq![datagram] + self.outgoing@); }
//@ end

//@ extract quinn-proto/src/connection/datagrams.rs :: impl DatagramState::fn recv
//@ ret r
//@ contract
        requires old(self).wf(),
        ensures
            final(self).wf(),
            final(self).outgoing@ == old(self).outgoing@,
            final(self).outgoing_total == old(self).outgoing_total,
            match r {
                Some(x) => old(self).incoming@.len() > 0 && x@ == old(self).incoming@[0].data@ && final(self).incoming@ == old(self).incoming@.skip(1),
                None => old(self).incoming@.len() == 0 && final(self).incoming@ == old(self).incoming@,
            },
//@ end
}
}
}
fn main() {}
