//! unit: frame_codec -- frame encoders against wire-image spec functions, and the frame decoder's functional contract for the same frame types: decoding an encoding yields the original frame and leaves the rest
//! props: C10
//! variants: a b
//! cross-tool: shims venc/vparse axioms (vparse(venc(x) + t) == (x, |venc(x)|), 1 <= |venc(x)| <= 8) are proved on the real VarInt by Kani (varint_roundtrip, varint_decode_contract); big-endian fixed-width codecs of bytes::{Buf,BufMut} assumed inverse
//! cross-tool: shims::VarInt::decode (spec `vparse`: value < 2^62, 1..=8 bytes consumed, prefix-deterministic) is proved on the real VarInt::decode by Kani (harness varint_decode_contract)
//! trusted: bytes::{Buf for Bytes and &[u8], Bytes::split_to/clear/is_empty, mem::take} as sequence operations; ConnectionId::new, ResetToken::from opaque
#![allow(unused_imports, dead_code, non_camel_case_types, non_snake_case, unused_variables, unused_mut, unused_assignments, non_upper_case_globals)]
use vstd::prelude::*;
use std::mem;
use std::ops::{Range, RangeInclusive};
verus! {
global size_of usize == 8;
pub mod shims {
use super::*;
pub const MAX_CID_SIZE: usize = 20;
pub const RESET_TOKEN_SIZE: usize = 16;
/// uninterpreted varint parser: Some((value, bytes consumed)) or None; its axioms are discharged by Kani on the real VarInt::decode
pub uninterp spec fn vparse(s: Seq<u8>) -> Option<(u64, nat)>;
#[verifier::external_body]
pub broadcast proof fn axiom_vparse_bounds(s: Seq<u8>)
    ensures match #[trigger] vparse(s) { Some((v, k)) => v < 0x4000_0000_0000_0000 && 1 <= k <= 8 && k <= s.len(), None => true } {}
/// prefix determinism: parsing depends only on the bytes consumed
#[verifier::external_body]
pub proof fn axiom_vparse_prefix(s: Seq<u8>, t: Seq<u8>)
    requires vparse(s).is_some(), t.len() >= vparse(s).unwrap().1, t.take(vparse(s).unwrap().1 as int) == s.take(vparse(s).unwrap().1 as int)
    ensures vparse(t) == vparse(s) {}
/// wire image of a variable-length integer (uninterpreted; pinned by the axioms below, which Kani proves on the real VarInt)
pub uninterp spec fn venc(x: u64) -> Seq<u8>;
#[verifier::external_body]
pub broadcast proof fn axiom_venc(x: u64, t: Seq<u8>)
    requires x < 0x4000_0000_0000_0000
    ensures 1 <= venc(x).len() <= 8,
        vparse(#[trigger] (venc(x) + t)) == Some((x, venc(x).len())),
        (venc(x) + t).skip(venc(x).len() as int) == t {}
/// big-endian fixed-width images (bytes::Buf::get_uN / BufMut::put_uN are assumed to be inverse to each other)
#[verifier::external_body]
pub broadcast proof fn axiom_venc_len(x: u64)
    requires x < 0x4000_0000_0000_0000
    ensures #[trigger] venc(x).len() == (if x < 0x40 { 1int } else if x < 0x4000 { 2int } else if x < 0x4000_0000 { 4int } else { 8int }) {}
pub uninterp spec fn benc64(x: u64) -> Seq<u8>;
pub uninterp spec fn bdec64(s: Seq<u8>) -> u64;
#[verifier::external_body]
pub broadcast proof fn axiom_benc64(x: u64, t: Seq<u8>)
    ensures benc64(x).len() == 8, bdec64(#[trigger] (benc64(x) + t)) == x, (benc64(x) + t).skip(8) == t {}
/// (a + t).take(|a|) == a and (a + t).skip(|a|) == t (triggered only by an actual take / skip of a concatenation)
pub broadcast proof fn lemma_add_take(a: Seq<u8>, t: Seq<u8>, n: int)
    requires n == a.len()
    ensures #[trigger] (a + t).take(n) == a
{ assert((a + t).take(n) =~= a); }
pub broadcast proof fn lemma_add_skip(a: Seq<u8>, t: Seq<u8>, n: int)
    requires n == a.len()
    ensures #[trigger] (a + t).skip(n) == t
{ assert((a + t).skip(n) =~= t); }
pub trait BufMut {
    spec fn wview(&self) -> Seq<u8>;
    fn put_u8(&mut self, n: u8) ensures final(self).wview() == old(self).wview().push(n);
    fn put_u64(&mut self, n: u64) ensures final(self).wview() == old(self).wview() + benc64(n);
    fn put_slice(&mut self, src: &[u8]) ensures final(self).wview() == old(self).wview() + src@;
}
impl BufMut for Vec<u8> {
    open spec fn wview(&self) -> Seq<u8> { self@ }
    #[verifier::external_body] fn put_u8(&mut self, n: u8) { unimplemented!() }
    #[verifier::external_body] fn put_u64(&mut self, n: u64) { unimplemented!() }
    #[verifier::external_body] fn put_slice(&mut self, src: &[u8]) { unimplemented!() }
}
pub trait Buf {
    spec fn bview(&self) -> Seq<u8>;
    fn remaining(&self) -> (r: usize) ensures r == self.bview().len();
    fn has_remaining(&self) -> (r: bool) ensures r == (self.bview().len() > 0);
    fn get_u8(&mut self) -> (r: u8) requires old(self).bview().len() >= 1 ensures final(self).bview() == old(self).bview().skip(1), r == old(self).bview()[0];
    fn get_u16(&mut self) -> (r: u16) requires old(self).bview().len() >= 2 ensures final(self).bview() == old(self).bview().skip(2);
    fn get_u32(&mut self) -> (r: u32) requires old(self).bview().len() >= 4 ensures final(self).bview() == old(self).bview().skip(4);
    fn get_u64(&mut self) -> (r: u64) requires old(self).bview().len() >= 8 ensures final(self).bview() == old(self).bview().skip(8), r == bdec64(old(self).bview());
    fn copy_to_slice(&mut self, dst: &mut [u8]) requires old(self).bview().len() >= old(dst)@.len() ensures final(self).bview() == old(self).bview().skip(old(dst)@.len() as int), final(dst)@.len() == old(dst)@.len();
}
#[verifier::external_body]
pub struct Bytes { inner: Vec<u8> }
impl View for Bytes { type V = Seq<u8>; uninterp spec fn view(&self) -> Seq<u8>; }
impl Buf for Bytes {
    open spec fn bview(&self) -> Seq<u8> { self@ }
    #[verifier::external_body] fn remaining(&self) -> (r: usize) { unimplemented!() }
    #[verifier::external_body] fn has_remaining(&self) -> (r: bool) { unimplemented!() }
    #[verifier::external_body] fn get_u8(&mut self) -> (r: u8) { unimplemented!() }
    #[verifier::external_body] fn get_u16(&mut self) -> (r: u16) { unimplemented!() }
    #[verifier::external_body] fn get_u32(&mut self) -> (r: u32) { unimplemented!() }
    #[verifier::external_body] fn get_u64(&mut self) -> (r: u64) { unimplemented!() }
    #[verifier::external_body] fn copy_to_slice(&mut self, dst: &mut [u8]) { unimplemented!() }
}
impl<'a> Buf for &'a [u8] {
    open spec fn bview(&self) -> Seq<u8> { (*self)@ }
    #[verifier::external_body] fn remaining(&self) -> (r: usize) { unimplemented!() }
    #[verifier::external_body] fn has_remaining(&self) -> (r: bool) { unimplemented!() }
    #[verifier::external_body] fn get_u8(&mut self) -> (r: u8) { unimplemented!() }
    #[verifier::external_body] fn get_u16(&mut self) -> (r: u16) { unimplemented!() }
    #[verifier::external_body] fn get_u32(&mut self) -> (r: u32) { unimplemented!() }
    #[verifier::external_body] fn get_u64(&mut self) -> (r: u64) { unimplemented!() }
    #[verifier::external_body] fn copy_to_slice(&mut self, dst: &mut [u8]) { unimplemented!() }
}
impl Bytes {
    #[verifier::external_body]
    pub fn split_to(&mut self, at: usize) -> (r: Bytes) requires at <= old(self)@.len() ensures r@ == old(self)@.take(at as int), final(self)@ == old(self)@.skip(at as int) { unimplemented!() }
    #[verifier::external_body]
    pub fn clear(&mut self) ensures final(self)@.len() == 0 { unimplemented!() }
    #[verifier::external_body]
    pub fn is_empty(&self) -> (r: bool) ensures r == (self@.len() == 0) { unimplemented!() }
}
impl core::ops::Deref for Bytes {
    type Target = [u8];
    #[verifier::external_body]
    fn deref(&self) -> (r: &[u8]) ensures r@ == self@ { unimplemented!() }
}
impl core::default::Default for Bytes {
    #[verifier::external_body]
    fn default() -> (r: Bytes) ensures r@.len() == 0 { unimplemented!() }
}
pub assume_specification<T: core::default::Default> [core::mem::take::<T>] (b: &mut T) -> (r: T)
    ensures r == *old(b), call_ensures(T::default, (), *final(b));
#[derive(Copy, Clone)] pub struct ConnectionId { pub len: u8, pub bytes: [u8; 20] }
impl ConnectionId {
    #[verifier::external_body]
    pub fn new(bytes: &[u8]) -> (r: Self) requires bytes@.len() <= 20 { unimplemented!() }
}
pub struct ResetToken(pub [u8; 16]);
impl vstd::std_specs::convert::FromSpecImpl<[u8; 16]> for ResetToken {
    open spec fn obeys_from_spec() -> bool { false }
    open spec fn from_spec(v: [u8; 16]) -> Self { ResetToken(v) }
}
impl From<[u8; 16]> for ResetToken { fn from(x: [u8; 16]) -> Self { Self(x) } }
#[derive(Copy, Clone)] pub enum Dir { Bi = 0, Uni = 1 }
#[derive(Copy, Clone, PartialEq, Eq)] pub enum TECode { PROTOCOL_VIOLATION }
pub struct TransportError { pub code: TECode }
impl TransportError {
    pub fn PROTOCOL_VIOLATION(_r: &'static str) -> (r: Self) ensures r.code == TECode::PROTOCOL_VIOLATION { TransportError { code: TECode::PROTOCOL_VIOLATION } }
}
}
pub mod coding {
use super::*; use super::shims::*;
broadcast use axiom_vparse_bounds;
//@ extract quinn-proto/src/coding.rs :: struct UnexpectedEnd
//@ derive Debug Copy Clone
//@ end

pub type Result<T> = ::std::result::Result<T, UnexpectedEnd>;
#[derive(Debug)] pub struct VarIntBoundsExceeded;
#[derive(Copy, Clone, PartialEq, Eq)]
pub struct VarInt(pub u64);
impl vstd::std_specs::cmp::PartialEqSpecImpl for VarInt { open spec fn obeys_eq_spec() -> bool { true } open spec fn eq_spec(&self, o: &VarInt) -> bool { *self == *o } }
impl VarInt {
    pub const fn into_inner(self) -> (r: u64) ensures r == self.0 { self.0 }
    /// the other constructors of the real type (so that code using them is decided rather than rejected)
    pub const fn from_u32(x: u32) -> (r: Self) ensures r.0 == x as u64 { Self(x as u64) }
    /// contract boundaries, proved on the real VarInt by Kani (varint_roundtrip)
    #[verifier::external_body]
    pub fn from_u64(x: u64) -> (r: ::std::result::Result<Self, VarIntBoundsExceeded>)
        ensures x < 0x4000_0000_0000_0000 ==> (r is Ok && r->Ok_0.0 == x), x >= 0x4000_0000_0000_0000 ==> r is Err { unimplemented!() }
    #[verifier::external_body]
    pub const fn size(self) -> (r: usize) requires self.0 < 0x4000_0000_0000_0000 ensures r == venc(self.0).len() { unimplemented!() }
}
pub trait Codec: Sized {
    /// what decoding yields as a function of the input: Some((value, bytes consumed)) or None
    spec fn dec(s: Seq<u8>) -> Option<(Self, nat)>;
    /// wire image
    spec fn enc(&self) -> Seq<u8>;
    /// value is encodable (e.g. < 2^62)
    spec fn wf(&self) -> bool;
//@ extract quinn-proto/src/coding.rs :: trait Codec::fn decode
//@ ret r
//@ contract
        ensures match r {
            Ok(v) => Self::dec(old(buf).bview()) == Some((v, (old(buf).bview().len() - final(buf).bview().len()) as nat))
                     && final(buf).bview() == old(buf).bview().skip(Self::dec(old(buf).bview()).unwrap().1 as int)
                     && 1 <= Self::dec(old(buf).bview()).unwrap().1 <= old(buf).bview().len(),
            Err(_) => Self::dec(old(buf).bview()).is_none() && final(buf).bview().len() <= old(buf).bview().len(),
        }
//@ end
//@ extract quinn-proto/src/coding.rs :: trait Codec::fn encode
//@ contract
        requires self.wf() ensures final(buf).wview() == old(buf).wview() + self.enc()
//@ end
}
impl Codec for u8 {
    open spec fn dec(s: Seq<u8>) -> Option<(Self, nat)> { if s.len() >= 1 { Some((s[0], 1)) } else { None } }
    open spec fn enc(&self) -> Seq<u8> { seq![*self] }
    open spec fn wf(&self) -> bool { true }
//@ extract quinn-proto/src/coding.rs :: impl Codec for u8::fn decode
//@ end
//@ extract quinn-proto/src/coding.rs :: impl Codec for u8::fn encode
//@ at-end
        proof { assert(old(buf).wview().push(*self) =~= old(buf).wview() + seq![*self]); }
//@ end
}
impl Codec for u64 {
    open spec fn dec(s: Seq<u8>) -> Option<(Self, nat)> { if s.len() >= 8 { Some((bdec64(s), 8)) } else { None } }
    open spec fn enc(&self) -> Seq<u8> { benc64(*self) }
    open spec fn wf(&self) -> bool { true }
//@ extract quinn-proto/src/coding.rs :: impl Codec for u64::fn decode
//@ end
//@ extract quinn-proto/src/coding.rs :: impl Codec for u64::fn encode
//@ end
}
impl Codec for VarInt {
    open spec fn dec(s: Seq<u8>) -> Option<(Self, nat)> { match vparse(s) { Some((v, k)) => Some((VarInt(v), k)), None => None } }
    open spec fn enc(&self) -> Seq<u8> { venc(self.0) }
    open spec fn wf(&self) -> bool { self.0 < 0x4000_0000_0000_0000 }
    /// contract boundary (cross-tool link): the real bodies are proved against exactly these contracts by Kani
    #[verifier::external_body]
    fn decode<B: Buf>(r: &mut B) -> (res: Result<Self>) { unimplemented!() }
    #[verifier::external_body]
    fn encode<B: BufMut>(&self, w: &mut B) { unimplemented!() }
}
pub(crate) trait BufExt {
    spec fn xv(&self) -> Seq<u8>;
//@ extract quinn-proto/src/coding.rs :: trait BufExt::fn get
//@ rename-generic T U
//@ ret r
//@ contract
        ensures match r {
            Ok(v) => U::dec(old(self).xv()) == Some((v, (old(self).xv().len() - final(self).xv().len()) as nat))
                     && final(self).xv() == old(self).xv().skip(U::dec(old(self).xv()).unwrap().1 as int)
                     && final(self).xv().len() < old(self).xv().len(),
            Err(_) => U::dec(old(self).xv()).is_none() && final(self).xv().len() <= old(self).xv().len(),
        }
//@ end
//@ extract quinn-proto/src/coding.rs :: trait BufExt::fn get_var
//@ ret r
//@ contract
        ensures match r {
            Ok(v) => vparse(old(self).xv()) == Some((v, (old(self).xv().len() - final(self).xv().len()) as nat))
                     && final(self).xv() == old(self).xv().skip(vparse(old(self).xv()).unwrap().1 as int),
            Err(_) => vparse(old(self).xv()).is_none() && final(self).xv().len() <= old(self).xv().len(),
        }
//@ end
}
impl<T: Buf> BufExt for T {
    open spec fn xv(&self) -> Seq<u8> { self.bview() }
//@ extract quinn-proto/src/coding.rs :: impl BufExt for T::fn get
//@ end
//@ extract quinn-proto/src/coding.rs :: impl BufExt for T::fn get_var
//@ end
}
pub(crate) trait BufMutExt {
    spec fn wv(&self) -> Seq<u8>;
//@ extract quinn-proto/src/coding.rs :: trait BufMutExt::fn write
//@ rename-generic T U
//@ contract
        requires x.wf() ensures final(self).wv() == old(self).wv() + x.enc()
//@ end
//@ extract quinn-proto/src/coding.rs :: trait BufMutExt::fn write_var
//@ contract
        requires x < 0x4000_0000_0000_0000 ensures final(self).wv() == old(self).wv() + venc(x)
//@ end
}
impl<T: BufMut> BufMutExt for T {
    open spec fn wv(&self) -> Seq<u8> { self.wview() }
//@ extract quinn-proto/src/coding.rs :: impl BufMutExt for T::fn write
//@ end
//@ extract quinn-proto/src/coding.rs :: impl BufMutExt for T::fn write_var
//@ end
}
}
pub mod spec {
use super::*; use super::shims::*;
broadcast use axiom_vparse_bounds;
/// model of the scan loop: bytes consumed by `n` (gap, block) pairs starting with running minimum `cur`, or None if it would fail
pub open spec fn scan_pairs(data: Seq<u8>, cur: u64, n: nat) -> Option<nat>
    decreases n
{
    if n == 0 { Some(0) } else {
        match vparse(data) {
            None => None,
            Some((gap, k1)) => if gap + 2 > cur { None } else {
                let r1 = data.skip(k1 as int);
                match vparse(r1) {
                    None => None,
                    Some((block, k2)) => if block > cur - gap - 2 { None } else {
                        match scan_pairs(r1.skip(k2 as int), (cur - gap - 2 - block) as u64, (n - 1) as nat) {
                            None => None,
                            Some(c) => Some(k1 + k2 + c),
                        }
                    }
                }
            }
        }
    }
}
pub open spec fn ack_valid(d: Seq<u8>, largest: u64) -> bool
    decreases d.len(), 1int
{
    if d.len() == 0 { true } else {
        match vparse(d) {
            None => false,
            Some((block, k1)) => block <= largest && 1 <= k1 <= d.len() && gap_valid(d.skip(k1 as int), (largest - block) as u64),
        }
    }
}
pub open spec fn gap_valid(r: Seq<u8>, cur: u64) -> bool
    decreases r.len(), 0int
{
    match vparse(r) {
        None => r.len() == 0,
        Some((gap, k2)) => 1 <= k2 <= r.len() && gap + 2 <= cur && ack_valid(r.skip(k2 as int), (cur - gap - 2) as u64),
    }
}
pub proof fn lemma_vparse_take(s: Seq<u8>, c: int)
    requires vparse(s).is_some(), vparse(s).unwrap().1 <= c <= s.len()
    ensures vparse(s.take(c)) == vparse(s)
{
    let k = vparse(s).unwrap().1 as int;
    assert(s.take(c).take(k) =~= s.take(k));
    axiom_vparse_prefix(s, s.take(c));
}
pub proof fn lemma_pairs_valid(data: Seq<u8>, cur: u64, n: nat, c: nat)
    requires scan_pairs(data, cur, n) == Some(c)
    ensures c <= data.len(), gap_valid(data.take(c as int), cur)
    decreases n
{
    if n == 0 {
        assert(data.take(0) =~= Seq::<u8>::empty());
        assert(vparse(Seq::<u8>::empty()).is_none());
    } else {
        let (gap, k1) = vparse(data).unwrap();
        let r1 = data.skip(k1 as int);
        let (block, k2) = vparse(r1).unwrap();
        let cur2 = (cur - gap - 2 - block) as u64;
        let r2 = r1.skip(k2 as int);
        let c2 = scan_pairs(r2, cur2, (n - 1) as nat).unwrap();
        lemma_pairs_valid(r2, cur2, (n - 1) as nat, c2);
        assert(c == k1 + k2 + c2);
        let d = data.take(c as int);
        lemma_vparse_take(data, c as int);
        // after the gap
        assert(d.skip(k1 as int) =~= r1.take((k2 + c2) as int));
        lemma_vparse_take(r1, (k2 + c2) as int);
        assert(r1.take((k2 + c2) as int).skip(k2 as int) =~= r2.take(c2 as int));
        assert(ack_valid(r1.take((k2 + c2) as int), (cur - gap - 2) as u64));
    }
}
pub proof fn lemma_scan_valid(data: Seq<u8>, largest: u64, n: nat, k: nat)
    requires scan_spec(data, largest, n) == Some(k)
    ensures k <= data.len(), ack_valid(data.take(k as int), largest)
{
    let (first, k0) = vparse(data).unwrap();
    let r0 = data.skip(k0 as int);
    let c = scan_pairs(r0, (largest - first) as u64, n).unwrap();
    lemma_pairs_valid(r0, (largest - first) as u64, n, c);
    lemma_vparse_take(data, k as int);
    assert(data.take(k as int).skip(k0 as int) =~= r0.take(c as int));
}
pub open spec fn scan_spec(data: Seq<u8>, largest: u64, n: nat) -> Option<nat> {
    match vparse(data) {
        None => None,
        Some((first, k0)) => if first > largest { None } else {
            match scan_pairs(data.skip(k0 as int), (largest - first) as u64, n) { None => None, Some(c) => Some(k0 + c) }
        }
    }
}
}
pub mod frame {
use super::*; use super::shims::*; use super::coding::{self, Codec, BufExt, BufMutExt, VarInt, UnexpectedEnd}; use super::spec::*;
broadcast use {axiom_vparse_bounds, axiom_venc, axiom_venc_len, axiom_benc64, lemma_add_take, lemma_add_skip};
//@ extract quinn-proto/src/frame.rs :: struct FrameType
//@ end
//@ extract quinn-proto/src/lib.rs :: struct StreamId
//@ end
//@ extract quinn-proto/src/transport_error.rs :: struct Code
//@ end
pub type TransportErrorCode = Code;
//@ extract quinn-proto/src/frame.rs :: struct StreamInfo
//@ derive Copy Clone
//@ end
//@ extract quinn-proto/src/frame.rs :: struct DatagramInfo
//@ derive Debug Copy Clone
//@ end
//@ extract quinn-proto/src/frame.rs :: const STREAM_TYS
//@ exec-const {name}@.start == {0}, {name}@.end == {1}, !{name}@.exhausted
//@ end
//@ extract quinn-proto/src/frame.rs :: const DATAGRAM_TYS
//@ exec-const {name}@.start == {0}, {name}@.end == {1}, !{name}@.exhausted
//@ end
//@ extract quinn-proto/src/frame.rs :: enum Frame
//@ derive
//@ end
//@ extract quinn-proto/src/frame.rs :: enum Close
//@ derive
//@ end
//@ extract quinn-proto/src/frame.rs :: enum IterErr
//@ derive
//@ end
//@ extract quinn-proto/src/frame.rs :: struct ConnectionClose
//@ derive
//@ end
//@ extract quinn-proto/src/frame.rs :: struct ApplicationClose
//@ derive
//@ end
//@ extract quinn-proto/src/frame.rs :: struct Ack
//@ derive
//@ end
//@ extract quinn-proto/src/frame.rs :: struct EcnCounts
//@ derive
//@ end
//@ extract quinn-proto/src/frame.rs :: struct Stream
//@ derive
//@ end
//@ extract quinn-proto/src/frame.rs :: struct Crypto
//@ derive
//@ end
//@ extract quinn-proto/src/frame.rs :: struct NewToken
//@ derive
//@ end
//@ extract quinn-proto/src/frame.rs :: struct ResetStream
//@ derive
//@ end
//@ extract quinn-proto/src/frame.rs :: struct StopSending
//@ derive
//@ end
//@ extract quinn-proto/src/frame.rs :: struct NewConnectionId
//@ derive
//@ end
//@ extract quinn-proto/src/frame.rs :: struct Datagram
//@ derive
//@ end
//@ extract quinn-proto/src/frame.rs :: struct AckFrequency
//@ derive
//@ end
//@ extract quinn-proto/src/frame.rs :: struct Iter
//@ derive
//@ end
//@ extract quinn-proto/src/frame.rs :: struct InvalidFrame
//@ derive
//@ end
//@ extract quinn-proto/src/frame.rs :: struct AckIter
//@ derive
//@ end

impl vstd::std_specs::cmp::PartialEqSpecImpl for FrameType { open spec fn obeys_eq_spec() -> bool { true } open spec fn eq_spec(&self, other: &FrameType) -> bool { *self == *other } }
impl FrameType {
//@ expand-consts quinn-proto/src/frame.rs :: macro frame_types :: pub const {name}: FrameType = FrameType({val});
//@ extract quinn-proto/src/frame.rs :: impl FrameType::fn stream
//@ ret r
//@ contract
        ensures r.is_some() == (0x08 <= self.0 <= 0x0f), r.is_some() ==> r.unwrap().0 == self.0 as u8
//@ end
//@ extract quinn-proto/src/frame.rs :: impl FrameType::fn datagram
//@ ret r
//@ contract
        ensures r.is_some() == (0x30 <= self.0 <= 0x31), r.is_some() ==> r.unwrap().0 == self.0 as u8
//@ end
}
impl coding::Codec for FrameType {
    open spec fn dec(s: Seq<u8>) -> Option<(Self, nat)> { match vparse(s) { Some((v, k)) => Some((FrameType(v), k)), None => None } }
    open spec fn enc(&self) -> Seq<u8> { venc(self.0) }
    open spec fn wf(&self) -> bool { self.0 < 0x4000_0000_0000_0000 }
//@ extract quinn-proto/src/frame.rs :: impl coding::Codec for FrameType::fn encode
//@ end
//@ extract quinn-proto/src/frame.rs :: impl coding::Codec for FrameType::fn decode
//@ end
}
impl coding::Codec for StreamId {
    open spec fn dec(s: Seq<u8>) -> Option<(Self, nat)> { match vparse(s) { Some((v, k)) => Some((StreamId(v), k)), None => None } }
    open spec fn enc(&self) -> Seq<u8> { venc(self.0) }
    open spec fn wf(&self) -> bool { self.0 < 0x4000_0000_0000_0000 }
//@ extract quinn-proto/src/lib.rs :: impl coding::Codec for StreamId::fn encode
//@ replace bytes::BufMut => BufMut
//@ end
//@ extract quinn-proto/src/lib.rs :: impl coding::Codec for StreamId::fn decode
//@ replace bytes::Buf => Buf
//@ replace VarInt::decode(buf).map(|x| Self(x.into_inner())) => (match VarInt::decode(buf) { Ok(x) => Ok(Self(x.into_inner())), Err(e) => Err(e) })
//@ end
}
impl coding::Codec for Code {
    open spec fn dec(s: Seq<u8>) -> Option<(Self, nat)> { match vparse(s) { Some((v, k)) => Some((Code(v), k)), None => None } }
    open spec fn enc(&self) -> Seq<u8> { venc(self.0) }
    open spec fn wf(&self) -> bool { self.0 < 0x4000_0000_0000_0000 }
//@ extract quinn-proto/src/transport_error.rs :: impl coding::Codec for Code::fn encode
//@ end
//@ extract quinn-proto/src/transport_error.rs :: impl coding::Codec for Code::fn decode
//@ end
}
impl StreamInfo {
//@ extract quinn-proto/src/frame.rs :: impl StreamInfo::fn fin
//@ ret r
//@ contract
        ensures r == (self.0 & 0x01 != 0)
//@ end
//@ extract quinn-proto/src/frame.rs :: impl StreamInfo::fn len
//@ ret r
//@ contract
        ensures r == (self.0 & 0x02 != 0)
//@ end
//@ extract quinn-proto/src/frame.rs :: impl StreamInfo::fn off
//@ ret r
//@ contract
        ensures r == (self.0 & 0x04 != 0)
//@ end
}
impl DatagramInfo {
//@ extract quinn-proto/src/frame.rs :: impl DatagramInfo::fn len
//@ ret r
//@ contract
        ensures r == (self.0 & 0x01 != 0)
//@ end
}
impl vstd::std_specs::convert::FromSpecImpl<UnexpectedEnd> for IterErr {
    open spec fn obeys_from_spec() -> bool { false }
    open spec fn from_spec(v: UnexpectedEnd) -> Self { IterErr::UnexpectedEnd }
}
impl From<UnexpectedEnd> for IterErr {
//@ extract quinn-proto/src/frame.rs :: impl From<UnexpectedEnd> for IterErr::fn from
//@ end
}
impl IterErr {
//@ extract quinn-proto/src/frame.rs :: impl IterErr::fn reason
//@ end
}

// ---- wire images (prepend style: the image followed by `t`), one per frame type with an encoder or a fixed layout ----
pub open spec fn ok62(x: u64) -> bool { x < 0x4000_0000_0000_0000 }
pub open spec fn pv(x: u64, t: Seq<u8>) -> Seq<u8> { venc(x) + t }
pub open spec fn e() -> Seq<u8> { Seq::<u8>::empty() }
pub open spec fn enc_reset_stream(id: u64, code: u64, fo: u64, t: Seq<u8>) -> Seq<u8> { pv(0x04, pv(id, pv(code, pv(fo, t)))) }
pub open spec fn enc_stop_sending(id: u64, code: u64, t: Seq<u8>) -> Seq<u8> { pv(0x05, pv(id, pv(code, t))) }
/// (a + b) + t == a + (b + t) for the images above: an encoding followed by more bytes is the prepend form with that tail
pub proof fn lemma_reset_stream_append(id: u64, code: u64, fo: u64, t: Seq<u8>)
    ensures enc_reset_stream(id, code, fo, e()) + t =~= enc_reset_stream(id, code, fo, t) {}
pub proof fn lemma_stop_sending_append(id: u64, code: u64, t: Seq<u8>)
    ensures enc_stop_sending(id, code, e()) + t =~= enc_stop_sending(id, code, t) {}

pub open spec fn enc_ack_frequency(a: u64, b: u64, c: u64, d: u64, t: Seq<u8>) -> Seq<u8> { pv(0xaf, pv(a, pv(b, pv(c, pv(d, t))))) }
pub proof fn lemma_ack_frequency_append(a: u64, b: u64, c: u64, d: u64, t: Seq<u8>)
    ensures enc_ack_frequency(a, b, c, d, e()) + t =~= enc_ack_frequency(a, b, c, d, t) {}
/// frames that consist of a type and one or two variable-length integers (RFC 9000 section 19; encoded inline by the library)
pub open spec fn enc_ty1(ty: u64, a: u64, t: Seq<u8>) -> Seq<u8> { pv(ty, pv(a, t)) }
pub open spec fn enc_new_cid_head(sq: u64, rpt: u64, n: u8, body: Seq<u8>) -> Seq<u8> { pv(0x18, pv(sq, pv(rpt, seq![n] + body))) }
pub open spec fn enc_ty2(ty: u64, a: u64, b: u64, t: Seq<u8>) -> Seq<u8> { pv(ty, pv(a, pv(b, t))) }
//@ only a
impl AckFrequency {
//@ extract quinn-proto/src/frame.rs :: impl AckFrequency::fn encode
//@ contract
        requires ok62(self.sequence.0), ok62(self.ack_eliciting_threshold.0), ok62(self.request_max_ack_delay.0), ok62(self.reordering_threshold.0)
        ensures final(buf).wview() =~= old(buf).wview() + enc_ack_frequency(self.sequence.0, self.ack_eliciting_threshold.0, self.request_max_ack_delay.0, self.reordering_threshold.0, e())
//@ end
}
//@ endonly
pub open spec fn enc_crypto(off: u64, data: Seq<u8>, t: Seq<u8>) -> Seq<u8> { pv(0x06, pv(off, pv(data.len() as u64, data + t))) }
pub open spec fn enc_new_token(tok: Seq<u8>, t: Seq<u8>) -> Seq<u8> { pv(0x07, pv(tok.len() as u64, tok + t)) }
pub proof fn lemma_crypto_append(off: u64, data: Seq<u8>, t: Seq<u8>) ensures enc_crypto(off, data, e()) + t =~= enc_crypto(off, data, t) {}
pub proof fn lemma_new_token_append(tok: Seq<u8>, t: Seq<u8>) ensures enc_new_token(tok, e()) + t =~= enc_new_token(tok, t) {}
//@ only a
impl Crypto {
//@ extract quinn-proto/src/frame.rs :: impl Crypto::fn encode
//@ contract
        requires ok62(self.offset), self.data@.len() < 0x4000_0000_0000_0000
        ensures final(out).wview() =~= old(out).wview() + enc_crypto(self.offset, self.data@, e())
//@ end
}
//@ endonly
//@ only a
impl NewToken {
//@ extract quinn-proto/src/frame.rs :: impl NewToken::fn encode
//@ contract
        requires self.token@.len() < 0x4000_0000_0000_0000
        ensures final(out).wview() =~= old(out).wview() + enc_new_token(self.token@, e())
//@ end
//@ extract quinn-proto/src/frame.rs :: impl NewToken::fn size
//@ ret r
//@ contract
        requires self.token@.len() < 0x4000_0000_0000_0000
        // the reported size is the encoded size
        ensures r == enc_new_token(self.token@, e()).len()
//@ end
}
//@ endonly
pub open spec fn enc_datagram_len(data: Seq<u8>, t: Seq<u8>) -> Seq<u8> { pv(0x31, pv(data.len() as u64, data + t)) }
/// without a length field the datagram extends to the end of the packet
pub open spec fn enc_datagram_nolen(data: Seq<u8>) -> Seq<u8> { pv(0x30, data) }
pub proof fn lemma_datagram_append(data: Seq<u8>, t: Seq<u8>) ensures enc_datagram_len(data, e()) + t =~= enc_datagram_len(data, t) {}
pub assume_specification<Idx> [std::ops::RangeInclusive::<Idx>::start] (r: &std::ops::RangeInclusive<Idx>) -> (s: &Idx)
    ensures *s == r@.start;
pub assume_specification [<u64 as core::convert::From<bool>>::from] (b: bool) -> (r: u64)
    ensures r == (if b { 1u64 } else { 0u64 });
//@ only a
impl Datagram {
//@ extract quinn-proto/src/frame.rs :: impl Datagram::fn encode
//@ contract
        requires self.data@.len() < 0x4000_0000_0000_0000
        ensures final(out)@ =~= old(out)@ + (if length { enc_datagram_len(self.data@, e()) } else { enc_datagram_nolen(self.data@) })
//@ at-start
        proof { assert(0x30u64 | 1u64 == 0x31u64) by (bit_vector); assert(0x30u64 | 0u64 == 0x30u64) by (bit_vector); }
//@ end
//@ extract quinn-proto/src/frame.rs :: impl Datagram::fn size
//@ ret r
//@ contract
        requires self.data@.len() < 0x4000_0000_0000_0000
        ensures r == (if length { enc_datagram_len(self.data@, e()).len() } else { enc_datagram_nolen(self.data@).len() })
//@ end
}
//@ endonly
/// STREAM type byte: 0x08 plus the OFF (4), LEN (2) and FIN (1) bits
pub open spec fn sty(o: bool, l: bool, f: bool) -> u64 { (0x08 + (if o { 4int } else { 0int }) + (if l { 2int } else { 0int }) + (if f { 1int } else { 0int })) as u64 }
/// STREAM frame: type, id, [offset], then either a length-prefixed payload followed by `t`, or (no LEN bit) the payload up to the end of the packet
pub open spec fn enc_stream(o: bool, l: bool, f: bool, id: u64, off: u64, data: Seq<u8>, t: Seq<u8>) -> Seq<u8> {
    let rest = if l { pv(data.len() as u64, data + t) } else { data };
    pv(sty(o, l, f), pv(id, if o { pv(off, rest) } else { rest }))
}
/// what StreamMeta::encode writes: everything up to (not including) the payload
pub open spec fn enc_stream_meta(o: bool, l: bool, f: bool, id: u64, off: u64, len: u64) -> Seq<u8> {
    let rest = if l { pv(len, e()) } else { e() };
    pv(sty(o, l, f), pv(id, if o { pv(off, rest) } else { rest }))
}
pub proof fn lemma_stream_meta_then_data(o: bool, l: bool, f: bool, id: u64, off: u64, data: Seq<u8>, t: Seq<u8>)
    requires !l ==> t.len() == 0
    ensures enc_stream_meta(o, l, f, id, off, data.len() as u64) + data + t =~= enc_stream(o, l, f, id, off, data, t) {}
//@ extract quinn-proto/src/frame.rs :: struct StreamMeta
//@ derive
//@ end
//@ only a
impl StreamMeta {
//@ extract quinn-proto/src/frame.rs :: impl StreamMeta::fn encode
//@ contract
        requires ok62(self.id.0), self.offsets.start <= self.offsets.end, ok62(self.offsets.end)
        ensures final(out).wview() =~= old(out).wview() + enc_stream_meta(self.offsets.start != 0, length, self.fin, self.id.0, self.offsets.start, (self.offsets.end - self.offsets.start) as u64)
//@ at-start
        proof {
            assert(0x08u64 | 0x04u64 == 0x0cu64) by (bit_vector); assert(0x08u64 | 0x02u64 == 0x0au64) by (bit_vector); assert(0x0cu64 | 0x02u64 == 0x0eu64) by (bit_vector);
            assert(0x08u64 | 0x01u64 == 0x09u64) by (bit_vector); assert(0x0au64 | 0x01u64 == 0x0bu64) by (bit_vector); assert(0x0cu64 | 0x01u64 == 0x0du64) by (bit_vector); assert(0x0eu64 | 0x01u64 == 0x0fu64) by (bit_vector);
        }
//@ end
}
//@ endonly
/// CONNECTION_CLOSE (0x1c): error code, offending frame type (0 = none), length-prefixed reason; APPLICATION_CLOSE (0x1d): error code, reason
pub open spec fn enc_conn_close(code: u64, ty: u64, reason: Seq<u8>, t: Seq<u8>) -> Seq<u8> { pv(0x1c, pv(code, pv(ty, pv(reason.len() as u64, reason + t)))) }
pub open spec fn enc_app_close(code: u64, reason: Seq<u8>, t: Seq<u8>) -> Seq<u8> { pv(0x1d, pv(code, pv(reason.len() as u64, reason + t))) }
pub proof fn lemma_conn_close_append(code: u64, ty: u64, reason: Seq<u8>, t: Seq<u8>) ensures enc_conn_close(code, ty, reason, e()) + t =~= enc_conn_close(code, ty, reason, t) {}
pub proof fn lemma_app_close_append(code: u64, reason: Seq<u8>, t: Seq<u8>) ensures enc_app_close(code, reason, e()) + t =~= enc_app_close(code, reason, t) {}
pub assume_specification<T, U, F: FnOnce(T) -> U> [std::option::Option::<T>::map_or] (o: std::option::Option<T>, default: U, f: F) -> (r: U)
    requires o.is_some() ==> call_requires(f, (o.unwrap(),)),
    ensures o.is_none() ==> r == default, o.is_some() ==> call_ensures(f, (o.unwrap(),), r);
//@ only a
impl ConnectionClose {
//@ extract quinn-proto/src/frame.rs :: impl ConnectionClose::fn encode
//@ props C10 C13 C03
//@ closure 0 : FrameType -> (v: u64)
        ensures v == x.0
//@ contract
        requires ok62(self.error_code.0), self.frame_type.is_some() ==> ok62(self.frame_type.unwrap().0), self.reason@.len() < 0x4000_0000_0000_0000,
            // the caller leaves at least SIZE_BOUND bytes (checked before the call in Connection::poll_transmit)
            max_len >= 1 + 8 + 8 + 8,
        ensures
            // what is written is a well-formed CONNECTION_CLOSE whose reason is a prefix of the given one ...
            ({ let ty = if self.frame_type.is_some() { self.frame_type.unwrap().0 } else { 0 };
               let room = max_len - 3 - venc(ty).len() - venc(self.reason@.len() as u64).len();
               let n = if self.reason@.len() <= room { self.reason@.len() as int } else { room };
               final(out).wview() =~= old(out).wview() + enc_conn_close(self.error_code.0, ty, self.reason@.take(n), e()) }),
            // ... and (for the library's own transport error codes, which fit 2 bytes) never more than max_len bytes
            self.error_code.0 < 0x4000 ==> final(out).wview().len() <= old(out).wview().len() + max_len,
//@ end
}
//@ endonly
//@ only a
impl ApplicationClose {
//@ extract quinn-proto/src/frame.rs :: impl ApplicationClose::fn encode
//@ props C10 C13 C03
//@ contract
        requires ok62(self.error_code.0), self.reason@.len() < 0x4000_0000_0000_0000,
            max_len >= 1 + 8 + 8,
        ensures
            exists|n: int| 0 <= n <= self.reason@.len() && #[trigger] final(out).wview() =~= old(out).wview() + enc_app_close(self.error_code.0, self.reason@.take(n), e()),
            // never more than the space the caller has left in the packet, whatever error code the application chose
            final(out).wview().len() <= old(out).wview().len() + max_len,
//@ end
}
//@ endonly
//@ only a
impl ResetStream {
//@ extract quinn-proto/src/frame.rs :: impl ResetStream::fn encode
//@ contract
        requires ok62(self.id.0), ok62(self.error_code.0), ok62(self.final_offset.0)
        ensures final(out).wview() =~= old(out).wview() + enc_reset_stream(self.id.0, self.error_code.0, self.final_offset.0, e())
//@ end
}
//@ endonly
//@ only a
impl StopSending {
//@ extract quinn-proto/src/frame.rs :: impl StopSending::fn encode
//@ contract
        requires ok62(self.id.0), ok62(self.error_code.0)
        ensures final(out).wview() =~= old(out).wview() + enc_stop_sending(self.id.0, self.error_code.0, e())
//@ end
}
//@ endonly
impl Iter {
//@ extract quinn-proto/src/frame.rs :: impl Iter::fn new
//@ ret r
//@ contract
        ensures match r {
            Ok(it) => payload@.len() > 0 && it.bytes@ == payload@ && it.last_ty.is_none(),
            // "An endpoint MUST treat receipt of a packet containing no frames as a connection error of type PROTOCOL_VIOLATION"
            Err(e) => payload@.len() == 0 && e.code == TECode::PROTOCOL_VIOLATION,
        }
//@ end
//@ extract quinn-proto/src/frame.rs :: impl Iter::fn take_len
//@ ret r
//@ contract
        ensures final(self).bytes@.len() <= old(self).bytes@.len(), final(self).last_ty == old(self).last_ty,
            r.is_ok() ==> final(self).bytes@.len() < old(self).bytes@.len() && r.unwrap()@.len() < old(self).bytes@.len(),
            // functional: a length prefix, then exactly that many bytes
            match r {
                Ok(b) => vparse(old(self).bytes@).is_some() && ({ let (len, k) = vparse(old(self).bytes@).unwrap();
                    len as nat + k <= old(self).bytes@.len() && b@ == old(self).bytes@.skip(k as int).take(len as int) && final(self).bytes@ == old(self).bytes@.skip(k as int).skip(len as int) }),
                Err(_) => vparse(old(self).bytes@).is_none() || vparse(old(self).bytes@).unwrap().0 as nat + vparse(old(self).bytes@).unwrap().1 > old(self).bytes@.len(),
            }
//@ end
//@ extract quinn-proto/src/frame.rs :: impl Iter::fn try_next
//@ attr #[verifier::rlimit(80)]
//@ ret r
//@ at-start
        proof {
            // the flag bits of the DATAGRAM / STREAM type bytes (bit-vector facts about constants)
            assert(0x30u8 & 0x01u8 == 0u8) by (bit_vector);
            assert(0x31u8 & 0x01u8 == 1u8) by (bit_vector);
            assert(0x08u8 & 0x04u8 == 0u8 && 0x08u8 & 0x02u8 == 0u8 && 0x08u8 & 0x01u8 == 0u8) by (bit_vector);
            assert(0x09u8 & 0x04u8 == 0u8 && 0x09u8 & 0x02u8 == 0u8 && 0x09u8 & 0x01u8 == 1u8) by (bit_vector);
            assert(0x0au8 & 0x04u8 == 0u8 && 0x0au8 & 0x02u8 == 2u8 && 0x0au8 & 0x01u8 == 0u8) by (bit_vector);
            assert(0x0bu8 & 0x04u8 == 0u8 && 0x0bu8 & 0x02u8 == 2u8 && 0x0bu8 & 0x01u8 == 1u8) by (bit_vector);
            assert(0x0cu8 & 0x04u8 == 4u8 && 0x0cu8 & 0x02u8 == 0u8 && 0x0cu8 & 0x01u8 == 0u8) by (bit_vector);
            assert(0x0du8 & 0x04u8 == 4u8 && 0x0du8 & 0x02u8 == 0u8 && 0x0du8 & 0x01u8 == 1u8) by (bit_vector);
            assert(0x0eu8 & 0x04u8 == 4u8 && 0x0eu8 & 0x02u8 == 2u8 && 0x0eu8 & 0x01u8 == 0u8) by (bit_vector);
            assert(0x0fu8 & 0x04u8 == 4u8 && 0x0fu8 & 0x02u8 == 2u8 && 0x0fu8 & 0x01u8 == 1u8) by (bit_vector);
        }
//@ contract
        ensures
            // total for any buffer content and length (no panic, no overflow, no read past the end): implicit in every obligation of the body;
            // never grows the buffer, and every decoded frame consumed at least one byte, so the caller's loop terminates
            final(self).bytes@.len() <= old(self).bytes@.len(),
            r.is_ok() ==> final(self).bytes@.len() < old(self).bytes@.len() || old(self).bytes@.len() == 0,
            r.is_ok() ==> final(self).last_ty.is_some(),
//@ only a
            // ---- functional clauses: decoding a wire image yields the frame it encodes and leaves exactly the tail ----
            forall|id: u64, code: u64, fo: u64, t: Seq<u8>| ok62(id) && ok62(code) && ok62(fo) && old(self).bytes@ == #[trigger] enc_reset_stream(id, code, fo, t)
                ==> (r matches Ok(Frame::ResetStream(f)) && f.id.0 == id && f.error_code.0 == code && f.final_offset.0 == fo) && final(self).bytes@ == t,
            forall|a: u64, b: u64, c: u64, d: u64, t: Seq<u8>| ok62(a) && ok62(b) && ok62(c) && ok62(d) && old(self).bytes@ == #[trigger] enc_ack_frequency(a, b, c, d, t)
                ==> (r matches Ok(Frame::AckFrequency(f)) && f.sequence.0 == a && f.ack_eliciting_threshold.0 == b && f.request_max_ack_delay.0 == c && f.reordering_threshold.0 == d) && final(self).bytes@ == t,
            // type-only frames
            forall|t: Seq<u8>| old(self).bytes@ == #[trigger] pv(0x00, t) ==> (r matches Ok(Frame::Padding)) && final(self).bytes@ == t,
            forall|t: Seq<u8>| old(self).bytes@ == #[trigger] pv(0x01, t) ==> (r matches Ok(Frame::Ping)) && final(self).bytes@ == t,
            forall|t: Seq<u8>| old(self).bytes@ == #[trigger] pv(0x1e, t) ==> (r matches Ok(Frame::HandshakeDone)) && final(self).bytes@ == t,
            forall|t: Seq<u8>| old(self).bytes@ == #[trigger] pv(0x1f, t) ==> (r matches Ok(Frame::ImmediateAck)) && final(self).bytes@ == t,
            // type + one varint
            forall|a: u64, t: Seq<u8>| ok62(a) && old(self).bytes@ == #[trigger] enc_ty1(0x10, a, t) ==> (r matches Ok(Frame::MaxData(v)) && v.0 == a) && final(self).bytes@ == t,
            forall|a: u64, t: Seq<u8>| ok62(a) && old(self).bytes@ == #[trigger] enc_ty1(0x12, a, t) ==> (r matches Ok(Frame::MaxStreams { dir, count }) && dir is Bi && count == a) && final(self).bytes@ == t,
            forall|a: u64, t: Seq<u8>| ok62(a) && old(self).bytes@ == #[trigger] enc_ty1(0x13, a, t) ==> (r matches Ok(Frame::MaxStreams { dir, count }) && dir is Uni && count == a) && final(self).bytes@ == t,
            forall|a: u64, t: Seq<u8>| ok62(a) && old(self).bytes@ == #[trigger] enc_ty1(0x14, a, t) ==> (r matches Ok(Frame::DataBlocked { offset }) && offset == a) && final(self).bytes@ == t,
            forall|a: u64, t: Seq<u8>| ok62(a) && old(self).bytes@ == #[trigger] enc_ty1(0x16, a, t) ==> (r matches Ok(Frame::StreamsBlocked { dir, limit }) && dir is Bi && limit == a) && final(self).bytes@ == t,
            forall|a: u64, t: Seq<u8>| ok62(a) && old(self).bytes@ == #[trigger] enc_ty1(0x17, a, t) ==> (r matches Ok(Frame::StreamsBlocked { dir, limit }) && dir is Uni && limit == a) && final(self).bytes@ == t,
            forall|a: u64, t: Seq<u8>| ok62(a) && old(self).bytes@ == #[trigger] enc_ty1(0x19, a, t) ==> (r matches Ok(Frame::RetireConnectionId { sequence }) && sequence == a) && final(self).bytes@ == t,
            // type + two varints
            forall|a: u64, b: u64, t: Seq<u8>| ok62(a) && ok62(b) && old(self).bytes@ == #[trigger] enc_ty2(0x11, a, b, t) ==> (r matches Ok(Frame::MaxStreamData { id, offset }) && id.0 == a && offset == b) && final(self).bytes@ == t,
            forall|a: u64, b: u64, t: Seq<u8>| ok62(a) && ok62(b) && old(self).bytes@ == #[trigger] enc_ty2(0x15, a, b, t) ==> (r matches Ok(Frame::StreamDataBlocked { id, offset }) && id.0 == a && offset == b) && final(self).bytes@ == t,
            // PATH_CHALLENGE / PATH_RESPONSE: type + 8 bytes big endian
            forall|x: u64, t: Seq<u8>| old(self).bytes@ == #[trigger] pv(0x1a, benc64(x) + t) ==> (r matches Ok(Frame::PathChallenge(v)) && v == x) && final(self).bytes@ == t,
            forall|x: u64, t: Seq<u8>| old(self).bytes@ == #[trigger] pv(0x1b, benc64(x) + t) ==> (r matches Ok(Frame::PathResponse(v)) && v == x) && final(self).bytes@ == t,
            forall|id: u64, code: u64, t: Seq<u8>| ok62(id) && ok62(code) && old(self).bytes@ == #[trigger] enc_stop_sending(id, code, t)
                ==> (r matches Ok(Frame::StopSending(f)) && f.id.0 == id && f.error_code.0 == code) && final(self).bytes@ == t,
            // NEW_CONNECTION_ID: every well-formed image (retire_prior_to <= sequence, 1..=20 CID bytes, 16 token bytes) is accepted, with its numbers,
            // and exactly the frame is consumed (the CID / token bytes themselves go through opaque constructors)
            forall|sq: u64, rpt: u64, n: u8, body: Seq<u8>| ok62(sq) && ok62(rpt) && rpt <= sq && 1 <= n <= 20 && body.len() >= n + 16
                && old(self).bytes@ == #[trigger] enc_new_cid_head(sq, rpt, n, body)
                ==> (r matches Ok(Frame::NewConnectionId(f)) && f.sequence == sq && f.retire_prior_to == rpt) && final(self).bytes@ == body.skip(n + 16),
//@ endonly
//@ only b
            // length-prefixed payloads: the payload comes back byte-identical
            forall|off: u64, data: Seq<u8>, t: Seq<u8>| ok62(off) && data.len() < 0x4000_0000_0000_0000 && old(self).bytes@ == #[trigger] enc_crypto(off, data, t)
                ==> (r matches Ok(Frame::Crypto(c)) && c.offset == off && c.data@ == data) && final(self).bytes@ == t,
            forall|tok: Seq<u8>, t: Seq<u8>| tok.len() < 0x4000_0000_0000_0000 && old(self).bytes@ == #[trigger] enc_new_token(tok, t)
                ==> (r matches Ok(Frame::NewToken(c)) && c.token@ == tok) && final(self).bytes@ == t,
            forall|data: Seq<u8>, t: Seq<u8>| data.len() < 0x4000_0000_0000_0000 && old(self).bytes@ == #[trigger] enc_datagram_len(data, t)
                ==> (r matches Ok(Frame::Datagram(c)) && c.data@ == data) && final(self).bytes@ == t,
            forall|data: Seq<u8>| old(self).bytes@ == #[trigger] enc_datagram_nolen(data)
                ==> (r matches Ok(Frame::Datagram(c)) && c.data@ == data) && final(self).bytes@.len() == 0,
            // STREAM frames, all eight type bytes (one clause per type byte keeps each query small)
            forall|id: u64, data: Seq<u8>| ok62(id) && old(self).bytes@ == #[trigger] enc_stream(false, false, false, id, 0, data, e())
                ==> (r matches Ok(Frame::Stream(st)) && st.id.0 == id && st.offset == 0 && st.fin == false && st.data@ == data) && final(self).bytes@.len() == 0,
            forall|id: u64, data: Seq<u8>| ok62(id) && old(self).bytes@ == #[trigger] enc_stream(false, false, true, id, 0, data, e())
                ==> (r matches Ok(Frame::Stream(st)) && st.id.0 == id && st.offset == 0 && st.fin == true && st.data@ == data) && final(self).bytes@.len() == 0,
            forall|id: u64, data: Seq<u8>, t: Seq<u8>| ok62(id) && data.len() < 0x4000_0000_0000_0000 && old(self).bytes@ == #[trigger] enc_stream(false, true, false, id, 0, data, t)
                ==> (r matches Ok(Frame::Stream(st)) && st.id.0 == id && st.offset == 0 && st.fin == false && st.data@ == data) && final(self).bytes@ == t,
            forall|id: u64, data: Seq<u8>, t: Seq<u8>| ok62(id) && data.len() < 0x4000_0000_0000_0000 && old(self).bytes@ == #[trigger] enc_stream(false, true, true, id, 0, data, t)
                ==> (r matches Ok(Frame::Stream(st)) && st.id.0 == id && st.offset == 0 && st.fin == true && st.data@ == data) && final(self).bytes@ == t,
            forall|id: u64, off: u64, data: Seq<u8>| ok62(id) && ok62(off) && old(self).bytes@ == #[trigger] enc_stream(true, false, false, id, off, data, e())
                ==> (r matches Ok(Frame::Stream(st)) && st.id.0 == id && st.offset == off && st.fin == false && st.data@ == data) && final(self).bytes@.len() == 0,
            forall|id: u64, off: u64, data: Seq<u8>| ok62(id) && ok62(off) && old(self).bytes@ == #[trigger] enc_stream(true, false, true, id, off, data, e())
                ==> (r matches Ok(Frame::Stream(st)) && st.id.0 == id && st.offset == off && st.fin == true && st.data@ == data) && final(self).bytes@.len() == 0,
            forall|id: u64, off: u64, data: Seq<u8>, t: Seq<u8>| ok62(id) && ok62(off) && data.len() < 0x4000_0000_0000_0000 && old(self).bytes@ == #[trigger] enc_stream(true, true, false, id, off, data, t)
                ==> (r matches Ok(Frame::Stream(st)) && st.id.0 == id && st.offset == off && st.fin == false && st.data@ == data) && final(self).bytes@ == t,
            forall|id: u64, off: u64, data: Seq<u8>, t: Seq<u8>| ok62(id) && ok62(off) && data.len() < 0x4000_0000_0000_0000 && old(self).bytes@ == #[trigger] enc_stream(true, true, true, id, off, data, t)
                ==> (r matches Ok(Frame::Stream(st)) && st.id.0 == id && st.offset == off && st.fin == true && st.data@ == data) && final(self).bytes@ == t,
            // CONNECTION_CLOSE / APPLICATION_CLOSE
            forall|code: u64, ty: u64, reason: Seq<u8>, t: Seq<u8>| ok62(code) && ok62(ty) && reason.len() < 0x4000_0000_0000_0000 && old(self).bytes@ == #[trigger] enc_conn_close(code, ty, reason, t)
                ==> (r matches Ok(Frame::Close(Close::Connection(c))) && c.error_code.0 == code && (if ty == 0 { c.frame_type.is_none() } else { c.frame_type == Some(FrameType(ty)) }) && c.reason@ == reason) && final(self).bytes@ == t,
            forall|code: u64, reason: Seq<u8>, t: Seq<u8>| ok62(code) && reason.len() < 0x4000_0000_0000_0000 && old(self).bytes@ == #[trigger] enc_app_close(code, reason, t)
                ==> (r matches Ok(Frame::Close(Close::Application(c))) && c.error_code.0 == code && c.reason@ == reason) && final(self).bytes@ == t,
//@ endonly
//@ end
//@ extract quinn-proto/src/frame.rs :: impl Iter::fn take_remaining
//@ ret r
//@ contract
        ensures r@ == old(self).bytes@, final(self).bytes@.len() == 0, final(self).last_ty == old(self).last_ty
//@ end
}
impl Iter {
    // `impl Iterator for Iter` in /repo; inherent here because Verus cannot attach `requires`/ghost views to the std trait
//@ extract quinn-proto/src/frame.rs :: impl Iterator for Iter::fn next
//@ vis pub
//@ replace Option<Self::Item> => Option<Result<Frame, InvalidFrame>>
//@ ret r
//@ contract
        ensures
            // None exactly at the end of the payload
            r.is_none() == (old(self).bytes@.len() == 0),
            // progress: every item consumed at least one byte; after a malformed frame nothing is left, so iteration stops
            r.is_some() ==> final(self).bytes@.len() < old(self).bytes@.len(),
            (r.is_some() && r.unwrap().is_err()) ==> final(self).bytes@.len() == 0,
//@ end
}
//@ extract quinn-proto/src/frame.rs :: fn scan_ack_blocks
//@ ret res
//@ contract
        ensures match res { Ok(k) => scan_spec(buf@, largest, n as nat) == Some(k as nat) && k <= buf@.len() && ack_valid(buf@.take(k as int), largest), Err(_) => true }
//@ at-start
        let ghost buf0 = buf@;
//@ before for _ in
        let ghost k0 = (buf0.len() - buf@.len()) as nat;
        let ghost rest0 = buf@;
        let ghost small0 = smallest;
//@ loop-iter 0 it
//@ loop 0
        invariant
            buf@.len() <= rest0.len(), rest0.len() <= total_len, total_len == buf0.len(),
            // what the whole loop computes == what has been consumed + what the rest of the loop computes
            scan_pairs(rest0, small0, n as nat) == (match scan_pairs(buf@, smallest, (n - it.index@) as nat) { None => None::<nat>, Some(c) => Some((rest0.len() - buf@.len() + c) as nat) }),
//@ before Ok(total_len - buf.remaining())
        proof { lemma_scan_valid(buf0, largest, n as nat, (total_len - buf@.len()) as nat); }
//@ end

impl<'a> AckIter<'a> {
//@ extract quinn-proto/src/frame.rs :: impl AckIter<'a>::fn new
//@ ret r
//@ contract
        ensures r.largest == largest, r.data@ == data@
//@ end
//@ extract quinn-proto/src/frame.rs :: impl Iterator for AckIter<'_>::fn next
//@ vis pub
//@ ret r
//@ contract
        requires ack_valid(old(self).data@, old(self).largest),
        ensures
            ack_valid(final(self).data@, final(self).largest),
            match r {
                Some(rg) => old(self).data@.len() > 0 && final(self).data@.len() < old(self).data@.len()
                    && rg@.start <= rg@.end && rg@.end == old(self).largest
                    && (final(self).data@.len() > 0 ==> final(self).largest + 2 <= rg@.start),
                None => old(self).data@.len() == 0 && final(self).data@.len() == 0,
            },
//@ end
}
}
}
fn main() {}
