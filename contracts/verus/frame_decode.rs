//! unit: frame_decode -- frame::Iter and the ACK-range scanner/iterator: total for input of any length, error classes, ACK ranges well formed
//! props: C03 C10
//! cross-tool: shims::VarInt::decode (spec `vparse`: value < 2^62, 1..=8 bytes consumed, prefix-deterministic) is proved on the real VarInt::decode by Kani (harness varint_decode_contract)
//! trusted: bytes::{Buf for Bytes and &[u8], Bytes::split_to/clear/is_empty, mem::take} as sequence operations; ConnectionId::new, ResetToken::from opaque
#![allow(unused_imports, dead_code, non_camel_case_types, non_snake_case, unused_variables, unused_mut, unused_assignments, non_upper_case_globals)]
use vstd::prelude::*;
use std::mem;
use std::ops::RangeInclusive;
verus! {
global size_of usize == 8;
pub mod shims {
use super::*;
pub const MAX_CID_SIZE: usize = 20;
pub const RESET_TOKEN_SIZE: usize = 16;
/// uninterpreted varint parser: Some((value, bytes consumed)) or None; its axioms are discharged by Kani on the real VarInt::decode
pub uninterp spec fn vparse(s: Seq<u8>) -> Option<(u64, nat)>;
#[verifier::external_body]
pub broadcast proof fn axiom_vparse_bounds(s: Seq<u8>)
    ensures match #[trigger] vparse(s) { Some((v, k)) => v < 0x4000_0000_0000_0000 && 1 <= k <= 8 && k <= s.len(), None => true } {}
/// prefix determinism: parsing depends only on the bytes consumed
#[verifier::external_body]
pub proof fn axiom_vparse_prefix(s: Seq<u8>, t: Seq<u8>)
    requires vparse(s).is_some(), t.len() >= vparse(s).unwrap().1, t.take(vparse(s).unwrap().1 as int) == s.take(vparse(s).unwrap().1 as int)
    ensures vparse(t) == vparse(s) {}
pub trait Buf {
    spec fn bview(&self) -> Seq<u8>;
    fn remaining(&self) -> (r: usize) ensures r == self.bview().len();
    fn has_remaining(&self) -> (r: bool) ensures r == (self.bview().len() > 0);
    fn get_u8(&mut self) -> (r: u8) requires old(self).bview().len() >= 1 ensures final(self).bview() == old(self).bview().skip(1), r == old(self).bview()[0];
    fn get_u16(&mut self) -> (r: u16) requires old(self).bview().len() >= 2 ensures final(self).bview() == old(self).bview().skip(2);
    fn get_u32(&mut self) -> (r: u32) requires old(self).bview().len() >= 4 ensures final(self).bview() == old(self).bview().skip(4);
    fn get_u64(&mut self) -> (r: u64) requires old(self).bview().len() >= 8 ensures final(self).bview() == old(self).bview().skip(8);
    fn copy_to_slice(&mut self, dst: &mut [u8]) requires old(self).bview().len() >= old(dst)@.len() ensures final(self).bview() == old(self).bview().skip(old(dst)@.len() as int), final(dst)@.len() == old(dst)@.len();
}
#[verifier::external_body]
pub struct Bytes { inner: Vec<u8> }
impl View for Bytes { type V = Seq<u8>; uninterp spec fn view(&self) -> Seq<u8>; }
impl Buf for Bytes {
    open spec fn bview(&self) -> Seq<u8> { self@ }
    #[verifier::external_body] fn remaining(&self) -> (r: usize) { unimplemented!() }
    #[verifier::external_body] fn has_remaining(&self) -> (r: bool) { unimplemented!() }
    #[verifier::external_body] fn get_u8(&mut self) -> (r: u8) { unimplemented!() }
    #[verifier::external_body] fn get_u16(&mut self) -> (r: u16) { unimplemented!() }
    #[verifier::external_body] fn get_u32(&mut self) -> (r: u32) { unimplemented!() }
    #[verifier::external_body] fn get_u64(&mut self) -> (r: u64) { unimplemented!() }
    #[verifier::external_body] fn copy_to_slice(&mut self, dst: &mut [u8]) { unimplemented!() }
}
impl<'a> Buf for &'a [u8] {
    open spec fn bview(&self) -> Seq<u8> { (*self)@ }
    #[verifier::external_body] fn remaining(&self) -> (r: usize) { unimplemented!() }
    #[verifier::external_body] fn has_remaining(&self) -> (r: bool) { unimplemented!() }
    #[verifier::external_body] fn get_u8(&mut self) -> (r: u8) { unimplemented!() }
    #[verifier::external_body] fn get_u16(&mut self) -> (r: u16) { unimplemented!() }
    #[verifier::external_body] fn get_u32(&mut self) -> (r: u32) { unimplemented!() }
    #[verifier::external_body] fn get_u64(&mut self) -> (r: u64) { unimplemented!() }
    #[verifier::external_body] fn copy_to_slice(&mut self, dst: &mut [u8]) { unimplemented!() }
}
impl Bytes {
    #[verifier::external_body]
    pub fn split_to(&mut self, at: usize) -> (r: Bytes) requires at <= old(self)@.len() ensures r@ == old(self)@.take(at as int), final(self)@ == old(self)@.skip(at as int) { unimplemented!() }
    #[verifier::external_body]
    pub fn clear(&mut self) ensures final(self)@.len() == 0 { unimplemented!() }
    #[verifier::external_body]
    pub fn is_empty(&self) -> (r: bool) ensures r == (self@.len() == 0) { unimplemented!() }
}
impl core::ops::Deref for Bytes {
    type Target = [u8];
    #[verifier::external_body]
    fn deref(&self) -> (r: &[u8]) ensures r@ == self@ { unimplemented!() }
}
impl core::default::Default for Bytes {
    #[verifier::external_body]
    fn default() -> (r: Bytes) ensures r@.len() == 0 { unimplemented!() }
}
pub assume_specification<T: core::default::Default> [core::mem::take::<T>] (b: &mut T) -> (r: T)
    ensures r == *old(b), call_ensures(T::default, (), *final(b));
#[derive(Copy, Clone)] pub struct ConnectionId { pub len: u8, pub bytes: [u8; 20] }
impl ConnectionId {
    #[verifier::external_body]
    pub fn new(bytes: &[u8]) -> (r: Self) requires bytes@.len() <= 20 { unimplemented!() }
}
pub struct ResetToken(pub [u8; 16]);
impl vstd::std_specs::convert::FromSpecImpl<[u8; 16]> for ResetToken {
    open spec fn obeys_from_spec() -> bool { false }
    open spec fn from_spec(v: [u8; 16]) -> Self { ResetToken(v) }
}
impl From<[u8; 16]> for ResetToken { fn from(x: [u8; 16]) -> Self { Self(x) } }
#[derive(Copy, Clone)] pub enum Dir { Bi = 0, Uni = 1 }
#[derive(Copy, Clone, PartialEq, Eq)] pub enum TECode { PROTOCOL_VIOLATION }
pub struct TransportError { pub code: TECode }
impl TransportError {
    pub fn PROTOCOL_VIOLATION(_r: &'static str) -> (r: Self) ensures r.code == TECode::PROTOCOL_VIOLATION { TransportError { code: TECode::PROTOCOL_VIOLATION } }
}
}
pub mod coding {
use super::*; use super::shims::*;
//@ extract quinn-proto/src/coding.rs :: struct UnexpectedEnd
//@ derive Debug Copy Clone
//@ end

pub type Result<T> = ::std::result::Result<T, UnexpectedEnd>;
#[derive(Copy, Clone, PartialEq, Eq)]
pub struct VarInt(pub u64);
impl vstd::std_specs::cmp::PartialEqSpecImpl for VarInt { open spec fn obeys_eq_spec() -> bool { true } open spec fn eq_spec(&self, o: &VarInt) -> bool { *self == *o } }
impl VarInt {
    pub const fn into_inner(self) -> (r: u64) ensures r == self.0 { self.0 }
}
pub trait Codec: Sized {
    /// what a successful decode yields, as a function of the input (uninterpreted per type except where stated)
//@ extract quinn-proto/src/coding.rs :: trait Codec::fn decode
//@ ret r
//@ contract
        ensures final(buf).bview().len() <= old(buf).bview().len(),
            r.is_ok() ==> final(buf).bview().len() < old(buf).bview().len()
//@ end
}
impl Codec for u8 {
//@ extract quinn-proto/src/coding.rs :: impl Codec for u8::fn decode
//@ end
}
impl Codec for u16 {
//@ extract quinn-proto/src/coding.rs :: impl Codec for u16::fn decode
//@ end
}
impl Codec for u32 {
//@ extract quinn-proto/src/coding.rs :: impl Codec for u32::fn decode
//@ end
}
impl Codec for u64 {
//@ extract quinn-proto/src/coding.rs :: impl Codec for u64::fn decode
//@ end
}
impl Codec for VarInt {
    /// contract boundary (cross-tool link): the real body is proved against exactly this contract by Kani
    #[verifier::external_body]
    fn decode<B: Buf>(r: &mut B) -> (res: Result<Self>)
        ensures match res {
            Ok(v) => vparse(old(r).bview()) == Some((v.0, (old(r).bview().len() - final(r).bview().len()) as nat))
                     && final(r).bview() == old(r).bview().skip(vparse(old(r).bview()).unwrap().1 as int),
            Err(_) => vparse(old(r).bview()).is_none() && final(r).bview().len() <= old(r).bview().len(),
        }
    { unimplemented!() }
}
pub(crate) trait BufExt {
    spec fn xv(&self) -> Seq<u8>;
//@ extract quinn-proto/src/coding.rs :: trait BufExt::fn get
//@ rename-generic T U
//@ ret r
//@ contract
        ensures final(self).xv().len() <= old(self).xv().len(), r.is_ok() ==> final(self).xv().len() < old(self).xv().len()
//@ end
//@ extract quinn-proto/src/coding.rs :: trait BufExt::fn get_var
//@ ret r
//@ contract
        ensures match r {
            Ok(v) => vparse(old(self).xv()) == Some((v, (old(self).xv().len() - final(self).xv().len()) as nat))
                     && final(self).xv() == old(self).xv().skip(vparse(old(self).xv()).unwrap().1 as int),
            Err(_) => vparse(old(self).xv()).is_none() && final(self).xv().len() <= old(self).xv().len(),
        }
//@ end
}
impl<T: Buf> BufExt for T {
    open spec fn xv(&self) -> Seq<u8> { self.bview() }
//@ extract quinn-proto/src/coding.rs :: impl BufExt for T::fn get
//@ end
//@ extract quinn-proto/src/coding.rs :: impl BufExt for T::fn get_var
//@ end
}
}
pub mod spec {
use super::*; use super::shims::*;
broadcast use axiom_vparse_bounds;
/// model of the scan loop: bytes consumed by `n` (gap, block) pairs starting with running minimum `cur`, or None if it would fail
pub open spec fn scan_pairs(data: Seq<u8>, cur: u64, n: nat) -> Option<nat>
    decreases n
{
    if n == 0 { Some(0) } else {
        match vparse(data) {
            None => None,
            Some((gap, k1)) => if gap + 2 > cur { None } else {
                let r1 = data.skip(k1 as int);
                match vparse(r1) {
                    None => None,
                    Some((block, k2)) => if block > cur - gap - 2 { None } else {
                        match scan_pairs(r1.skip(k2 as int), (cur - gap - 2 - block) as u64, (n - 1) as nat) {
                            None => None,
                            Some(c) => Some(k1 + k2 + c),
                        }
                    }
                }
            }
        }
    }
}
pub open spec fn ack_valid(d: Seq<u8>, largest: u64) -> bool
    decreases d.len(), 1int
{
    if d.len() == 0 { true } else {
        match vparse(d) {
            None => false,
            Some((block, k1)) => block <= largest && 1 <= k1 <= d.len() && gap_valid(d.skip(k1 as int), (largest - block) as u64),
        }
    }
}
pub open spec fn gap_valid(r: Seq<u8>, cur: u64) -> bool
    decreases r.len(), 0int
{
    match vparse(r) {
        None => r.len() == 0,
        Some((gap, k2)) => 1 <= k2 <= r.len() && gap + 2 <= cur && ack_valid(r.skip(k2 as int), (cur - gap - 2) as u64),
    }
}
pub proof fn lemma_vparse_take(s: Seq<u8>, c: int)
    requires vparse(s).is_some(), vparse(s).unwrap().1 <= c <= s.len()
    ensures vparse(s.take(c)) == vparse(s)
{
    let k = vparse(s).unwrap().1 as int;
    assert(s.take(c).take(k) =~= s.take(k));
    axiom_vparse_prefix(s, s.take(c));
}
pub proof fn lemma_pairs_valid(data: Seq<u8>, cur: u64, n: nat, c: nat)
    requires scan_pairs(data, cur, n) == Some(c)
    ensures c <= data.len(), gap_valid(data.take(c as int), cur)
    decreases n
{
    if n == 0 {
        assert(data.take(0) =~= Seq::<u8>::empty());
        assert(vparse(Seq::<u8>::empty()).is_none());
    } else {
        let (gap, k1) = vparse(data).unwrap();
        let r1 = data.skip(k1 as int);
        let (block, k2) = vparse(r1).unwrap();
        let cur2 = (cur - gap - 2 - block) as u64;
        let r2 = r1.skip(k2 as int);
        let c2 = scan_pairs(r2, cur2, (n - 1) as nat).unwrap();
        lemma_pairs_valid(r2, cur2, (n - 1) as nat, c2);
        assert(c == k1 + k2 + c2);
        let d = data.take(c as int);
        lemma_vparse_take(data, c as int);
        // after the gap
        assert(d.skip(k1 as int) =~= r1.take((k2 + c2) as int));
        lemma_vparse_take(r1, (k2 + c2) as int);
        assert(r1.take((k2 + c2) as int).skip(k2 as int) =~= r2.take(c2 as int));
        assert(ack_valid(r1.take((k2 + c2) as int), (cur - gap - 2) as u64));
    }
}
pub proof fn lemma_scan_valid(data: Seq<u8>, largest: u64, n: nat, k: nat)
    requires scan_spec(data, largest, n) == Some(k)
    ensures k <= data.len(), ack_valid(data.take(k as int), largest)
{
    let (first, k0) = vparse(data).unwrap();
    let r0 = data.skip(k0 as int);
    let c = scan_pairs(r0, (largest - first) as u64, n).unwrap();
    lemma_pairs_valid(r0, (largest - first) as u64, n, c);
    lemma_vparse_take(data, k as int);
    assert(data.take(k as int).skip(k0 as int) =~= r0.take(c as int));
}
pub open spec fn scan_spec(data: Seq<u8>, largest: u64, n: nat) -> Option<nat> {
    match vparse(data) {
        None => None,
        Some((first, k0)) => if first > largest { None } else {
            match scan_pairs(data.skip(k0 as int), (largest - first) as u64, n) { None => None, Some(c) => Some(k0 + c) }
        }
    }
}
}
pub mod frame {
use super::*; use super::shims::*; use super::coding::{self, Codec, BufExt, VarInt, UnexpectedEnd}; use super::spec::*;
broadcast use axiom_vparse_bounds;
//@ extract quinn-proto/src/frame.rs :: struct FrameType
//@ end
//@ extract quinn-proto/src/lib.rs :: struct StreamId
//@ end
//@ extract quinn-proto/src/transport_error.rs :: struct Code
//@ end
pub type TransportErrorCode = Code;
//@ extract quinn-proto/src/frame.rs :: struct StreamInfo
//@ derive Copy Clone
//@ end
//@ extract quinn-proto/src/frame.rs :: struct DatagramInfo
//@ derive Debug Copy Clone
//@ end
//@ extract quinn-proto/src/frame.rs :: const STREAM_TYS
//@ exec-const {name}@.start == {0}, {name}@.end == {1}, !{name}@.exhausted
//@ end
//@ extract quinn-proto/src/frame.rs :: const DATAGRAM_TYS
//@ exec-const {name}@.start == {0}, {name}@.end == {1}, !{name}@.exhausted
//@ end
//@ extract quinn-proto/src/frame.rs :: enum Frame
//@ derive
//@ end
//@ extract quinn-proto/src/frame.rs :: enum Close
//@ derive
//@ end
//@ extract quinn-proto/src/frame.rs :: enum IterErr
//@ derive
//@ end
//@ extract quinn-proto/src/frame.rs :: struct ConnectionClose
//@ derive
//@ end
//@ extract quinn-proto/src/frame.rs :: struct ApplicationClose
//@ derive
//@ end
//@ extract quinn-proto/src/frame.rs :: struct Ack
//@ derive
//@ end
//@ extract quinn-proto/src/frame.rs :: struct EcnCounts
//@ derive
//@ end
//@ extract quinn-proto/src/frame.rs :: struct Stream
//@ derive
//@ end
//@ extract quinn-proto/src/frame.rs :: struct Crypto
//@ derive
//@ end
//@ extract quinn-proto/src/frame.rs :: struct NewToken
//@ derive
//@ end
//@ extract quinn-proto/src/frame.rs :: struct ResetStream
//@ derive
//@ end
//@ extract quinn-proto/src/frame.rs :: struct StopSending
//@ derive
//@ end
//@ extract quinn-proto/src/frame.rs :: struct NewConnectionId
//@ derive
//@ end
//@ extract quinn-proto/src/frame.rs :: struct Datagram
//@ derive
//@ end
//@ extract quinn-proto/src/frame.rs :: struct AckFrequency
//@ derive
//@ end
//@ extract quinn-proto/src/frame.rs :: struct Iter
//@ derive
//@ end
//@ extract quinn-proto/src/frame.rs :: struct InvalidFrame
//@ derive
//@ end
//@ extract quinn-proto/src/frame.rs :: struct AckIter
//@ derive
//@ end

impl vstd::std_specs::cmp::PartialEqSpecImpl for FrameType { open spec fn obeys_eq_spec() -> bool { true } open spec fn eq_spec(&self, other: &FrameType) -> bool { *self == *other } }
impl FrameType {
//@ expand-consts quinn-proto/src/frame.rs :: macro frame_types :: pub const {name}: FrameType = FrameType({val});
//@ extract quinn-proto/src/frame.rs :: impl FrameType::fn stream
//@ ret r
//@ contract
        ensures r.is_some() == (0x08 <= self.0 <= 0x0f), r.is_some() ==> r.unwrap().0 == self.0 as u8
//@ end
//@ extract quinn-proto/src/frame.rs :: impl FrameType::fn datagram
//@ ret r
//@ contract
        ensures r.is_some() == (0x30 <= self.0 <= 0x31), r.is_some() ==> r.unwrap().0 == self.0 as u8
//@ end
}
impl coding::Codec for FrameType {
//@ extract quinn-proto/src/frame.rs :: impl coding::Codec for FrameType::fn decode
//@ end
}
impl coding::Codec for StreamId {
//@ extract quinn-proto/src/lib.rs :: impl coding::Codec for StreamId::fn decode
//@ replace bytes::Buf => Buf
//@ replace VarInt::decode(buf).map(|x| Self(x.into_inner())) => (match VarInt::decode(buf) { Ok(x) => Ok(Self(x.into_inner())), Err(e) => Err(e) })
//@ end
}
impl coding::Codec for Code {
//@ extract quinn-proto/src/transport_error.rs :: impl coding::Codec for Code::fn decode
//@ end
}
impl StreamInfo {
//@ extract quinn-proto/src/frame.rs :: impl StreamInfo::fn fin
//@ end
//@ extract quinn-proto/src/frame.rs :: impl StreamInfo::fn len
//@ end
//@ extract quinn-proto/src/frame.rs :: impl StreamInfo::fn off
//@ end
}
impl DatagramInfo {
//@ extract quinn-proto/src/frame.rs :: impl DatagramInfo::fn len
//@ end
}
impl vstd::std_specs::convert::FromSpecImpl<UnexpectedEnd> for IterErr {
    open spec fn obeys_from_spec() -> bool { false }
    open spec fn from_spec(v: UnexpectedEnd) -> Self { IterErr::UnexpectedEnd }
}
impl From<UnexpectedEnd> for IterErr {
//@ extract quinn-proto/src/frame.rs :: impl From<UnexpectedEnd> for IterErr::fn from
//@ end
}
impl IterErr {
//@ extract quinn-proto/src/frame.rs :: impl IterErr::fn reason
//@ end
}
impl Iter {
//@ extract quinn-proto/src/frame.rs :: impl Iter::fn new
//@ ret r
//@ contract
        ensures match r {
            Ok(it) => payload@.len() > 0 && it.bytes@ == payload@ && it.last_ty.is_none(),
            // "An endpoint MUST treat receipt of a packet containing no frames as a connection error of type PROTOCOL_VIOLATION"
            Err(e) => payload@.len() == 0 && e.code == TECode::PROTOCOL_VIOLATION,
        }
//@ end
//@ extract quinn-proto/src/frame.rs :: impl Iter::fn take_len
//@ ret r
//@ contract
        ensures final(self).bytes@.len() <= old(self).bytes@.len(), final(self).last_ty == old(self).last_ty,
            r.is_ok() ==> final(self).bytes@.len() < old(self).bytes@.len() && r.unwrap()@.len() < old(self).bytes@.len()
//@ end
//@ extract quinn-proto/src/frame.rs :: impl Iter::fn try_next
//@ ret r
//@ contract
        ensures
            // total for any buffer content and length (no panic, no overflow, no read past the end): implicit in every obligation of the body;
            // never grows the buffer, and every decoded frame consumed at least one byte, so the caller's loop terminates
            final(self).bytes@.len() <= old(self).bytes@.len(),
            r.is_ok() ==> final(self).bytes@.len() < old(self).bytes@.len() || old(self).bytes@.len() == 0,
            r.is_ok() ==> final(self).last_ty.is_some(),
//@ end
//@ extract quinn-proto/src/frame.rs :: impl Iter::fn take_remaining
//@ ret r
//@ contract
        ensures r@ == old(self).bytes@, final(self).bytes@.len() == 0, final(self).last_ty == old(self).last_ty
//@ end
}
impl Iter {
    // `impl Iterator for Iter` in /repo; inherent here because Verus cannot attach `requires`/ghost views to the std trait
//@ extract quinn-proto/src/frame.rs :: impl Iterator for Iter::fn next
//@ vis pub
//@ replace Option<Self::Item> => Option<Result<Frame, InvalidFrame>>
//@ ret r
//@ contract
        ensures
            // None exactly at the end of the payload
            r.is_none() == (old(self).bytes@.len() == 0),
            // progress: every item consumed at least one byte; after a malformed frame nothing is left, so iteration stops
            r.is_some() ==> final(self).bytes@.len() < old(self).bytes@.len(),
            (r.is_some() && r.unwrap().is_err()) ==> final(self).bytes@.len() == 0,
//@ end
}
//@ extract quinn-proto/src/frame.rs :: fn scan_ack_blocks
//@ ret res
//@ contract
        ensures match res { Ok(k) => scan_spec(buf@, largest, n as nat) == Some(k as nat) && k <= buf@.len() && ack_valid(buf@.take(k as int), largest), Err(_) => true }
//@ at-start
        let ghost buf0 = buf@;
//@ before for _ in
        let ghost k0 = (buf0.len() - buf@.len()) as nat;
        let ghost rest0 = buf@;
        let ghost small0 = smallest;
//@ loop-iter 0 it
//@ loop 0
        invariant
            buf@.len() <= rest0.len(), rest0.len() <= total_len, total_len == buf0.len(),
            // what the whole loop computes == what has been consumed + what the rest of the loop computes
            scan_pairs(rest0, small0, n as nat) == (match scan_pairs(buf@, smallest, (n - it.index@) as nat) { None => None::<nat>, Some(c) => Some((rest0.len() - buf@.len() + c) as nat) }),
//@ before Ok(total_len - buf.remaining())
        proof { lemma_scan_valid(buf0, largest, n as nat, (total_len - buf@.len()) as nat); }
//@ end

impl<'a> AckIter<'a> {
//@ extract quinn-proto/src/frame.rs :: impl AckIter<'a>::fn new
//@ ret r
//@ contract
        ensures r.largest == largest, r.data@ == data@
//@ end
//@ extract quinn-proto/src/frame.rs :: impl Iterator for AckIter<'_>::fn next
//@ vis pub
//@ ret r
//@ contract
        requires ack_valid(old(self).data@, old(self).largest),
        ensures
            ack_valid(final(self).data@, final(self).largest),
            match r {
                Some(rg) => old(self).data@.len() > 0 && final(self).data@.len() < old(self).data@.len()
                    && rg@.start <= rg@.end && rg@.end == old(self).largest
                    && (final(self).data@.len() > 0 ==> final(self).largest + 2 <= rg@.start),
                None => old(self).data@.len() == 0 && final(self).data@.len() == 0,
            },
//@ end
}
}
}
fn main() {}
