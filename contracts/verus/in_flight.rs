//! unit: in_flight -- congestion accounting of sent packets on a path: each tracked packet is counted once and removed once
//! props: C12
//! trusted: PacketSpace::sent is a contract boundary here (opaque result `spec_forgotten`); Instant / retransmit payload types opaque
#![allow(unused_imports, dead_code, non_camel_case_types, non_snake_case, unused_variables, unused_mut, unused_assignments)]
use vstd::prelude::*;
verus! {
global size_of usize == 8;
pub mod shims {
use super::*;
#[verifier::external_body] pub struct Instant { x: u64 }
#[verifier::external_body] pub struct ThinRetransmits { x: u64 }
pub mod frame { #[verifier::external_body] pub struct StreamMetaVec { x: u64 } }
#[derive(Copy, Clone)] pub struct SocketAddr { pub x: u64 }
#[derive(Copy, Clone)] pub struct SpaceId { pub x: u8 }
#[verifier::external_body] pub struct RttEstimator { x: u64 }
#[verifier::external_body] pub struct ControllerBox { x: u64 }
#[verifier::external_body] pub struct Pacer { x: u64 }
#[verifier::external_body] pub struct MtuDiscovery { x: u64 }
pub assume_specification [<u64 as core::convert::From<bool>>::from] (b: bool) -> (r: u64)
    ensures r == (if b { 1u64 } else { 0u64 });
}
pub mod code {
use super::*; use super::shims::*;
//@ extract quinn-proto/src/connection/spaces.rs :: struct SentPacket
//@ derive
//@ end
/// contract boundary: the packet space decides which (non-ack-eliciting, long unacknowledged) packet is forgotten
#[verifier::external_body] pub struct PacketSpace { x: u64 }
impl PacketSpace {
    pub uninterp spec fn spec_forgotten(&self, number: u64, size: u16, ack_eliciting: bool) -> Option<SentPacket>;
    #[verifier::external_body]
    pub fn sent(&mut self, number: u64, packet: SentPacket) -> (r: Option<SentPacket>)
        ensures r == old(self).spec_forgotten(number, packet.size, packet.ack_eliciting),
            r.is_some() ==> !r.unwrap().ack_eliciting,
    { unimplemented!() }
}
//@ extract quinn-proto/src/connection/paths.rs :: struct InFlight
//@ end
//@ extract quinn-proto/src/connection/paths.rs :: struct PathData
//@ replace Box<dyn congestion::Controller> => ControllerBox
//@ end

pub open spec fn counted(p: SentPacket, generation: u64) -> bool { p.path_generation == generation }

impl InFlight {
//@ extract quinn-proto/src/connection/paths.rs :: impl InFlight::fn new
//@ ret r
//@ contract
        ensures r.bytes == 0, r.ack_eliciting == 0
//@ end
//@ extract quinn-proto/src/connection/paths.rs :: impl InFlight::fn insert
//@ contract
        requires old(self).bytes + packet.size <= u64::MAX, old(self).ack_eliciting < u64::MAX,
        ensures final(self).bytes == old(self).bytes + packet.size,
            final(self).ack_eliciting == old(self).ack_eliciting + (if packet.ack_eliciting { 1int } else { 0int }),
//@ end
//@ extract quinn-proto/src/connection/paths.rs :: impl InFlight::fn remove
//@ contract
        // the packet is one of those counted (membership is the caller's invariant)
        requires old(self).bytes >= packet.size, packet.ack_eliciting ==> old(self).ack_eliciting >= 1,
        // exact inverse of insert
        ensures final(self).bytes == old(self).bytes - packet.size,
            final(self).ack_eliciting == old(self).ack_eliciting - (if packet.ack_eliciting { 1int } else { 0int }),
//@ end
}
impl PathData {
//@ extract quinn-proto/src/connection/paths.rs :: impl PathData::fn remove_in_flight
//@ ret r
//@ contract
        requires packet.path_generation == old(self).generation ==> (old(self).in_flight.bytes >= packet.size && (packet.ack_eliciting ==> old(self).in_flight.ack_eliciting >= 1)),
        ensures
            r == (packet.path_generation == old(self).generation),
            // a packet sent on an earlier path leaves this path's counters untouched
            !r ==> final(self).in_flight == old(self).in_flight,
            r ==> final(self).in_flight.bytes == old(self).in_flight.bytes - packet.size
                && final(self).in_flight.ack_eliciting == old(self).in_flight.ack_eliciting - (if packet.ack_eliciting { 1int } else { 0int }),
            final(self).generation == old(self).generation, final(self).total_sent == old(self).total_sent, final(self).total_recvd == old(self).total_recvd,
            final(self).first_packet == old(self).first_packet,
//@ end
//@ extract quinn-proto/src/connection/paths.rs :: impl PathData::fn sent
//@ contract
        requires old(self).in_flight.bytes + packet.size <= u64::MAX, old(self).in_flight.ack_eliciting < u64::MAX,
            // a forgotten packet of this path is one that was counted
            match old(space).spec_forgotten(pn, packet.size, packet.ack_eliciting) {
                Some(f) => f.path_generation == old(self).generation ==> old(self).in_flight.bytes >= f.size,
                None => true,
            },
        ensures
            final(self).generation == old(self).generation,
            final(self).first_packet == (if old(self).first_packet.is_none() { Some(pn) } else { old(self).first_packet }),
            // the new packet is counted, and a packet the space forgets (it can never be acknowledged or declared lost any more) is un-counted: every tracked packet is in the counters exactly once
            final(self).in_flight.bytes == old(self).in_flight.bytes + packet.size
                - (match old(space).spec_forgotten(pn, packet.size, packet.ack_eliciting) { Some(f) => if f.path_generation == old(self).generation { f.size as int } else { 0int }, None => 0int }),
            final(self).in_flight.ack_eliciting == old(self).in_flight.ack_eliciting + (if packet.ack_eliciting { 1int } else { 0int }),
//@ at-start
        let ghost p_size = packet.size; let ghost p_ae = packet.ack_eliciting;
//@ end
}
}
}
fn main() {}
