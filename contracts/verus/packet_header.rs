//! unit: packet_header -- the unprotected packet header decoder (`ProtectedHeader::decode`, `ConnectionId::decode_long`, `LongHeaderType::from_byte`): total on any datagram, never reads past it
//! props: C03 C10
//! cross-tool: shims::VarInt::decode (spec `vparse`) is proved on the real VarInt::decode by Kani (harness varint_decode_contract)
//! trusted: bytes::Buf for io::Cursor as sequence operations (position + remaining = length); ConnectionId::from_buf as its stated contract (real body: debug_assert + slice index, panics exactly when the precondition fails); the `&mut dyn Buf` call `cid_parser.parse(buf)` is routed through a shim (Verus has no dyn coercion); slice::contains
#![feature(sized_hierarchy)]
#![allow(unused_imports, dead_code, non_camel_case_types, non_snake_case, unused_variables, unused_mut, unused_assignments, non_upper_case_globals)]
use vstd::prelude::*;
use std::ops::Range;
verus! {
global size_of usize == 8;
pub mod shims {
use super::*;
pub const MAX_CID_SIZE: usize = 20;
/// uninterpreted varint parser: Some((value, bytes consumed)) or None; its axioms are discharged by Kani on the real VarInt::decode
pub uninterp spec fn vparse(s: Seq<u8>) -> Option<(u64, nat)>;
#[verifier::external_body]
pub broadcast proof fn axiom_vparse_bounds(s: Seq<u8>)
    ensures match #[trigger] vparse(s) { Some((v, k)) => v < 0x4000_0000_0000_0000 && 1 <= k <= 8 && k <= s.len(), None => true } {}
pub trait Buf {
    spec fn bview(&self) -> Seq<u8>;
    /// the bytes of the underlying container, read or not; no read operation changes them
    spec fn origin(&self) -> Seq<u8>;
    fn remaining(&self) -> (r: usize) ensures r == self.bview().len();
    fn has_remaining(&self) -> (r: bool) ensures r == (self.bview().len() > 0);
    fn get_u8(&mut self) -> (r: u8) requires old(self).bview().len() >= 1 ensures final(self).origin() == old(self).origin(), final(self).bview() == old(self).bview().skip(1), r == old(self).bview()[0];
    fn get_u16(&mut self) -> (r: u16) requires old(self).bview().len() >= 2 ensures final(self).origin() == old(self).origin(), final(self).bview() == old(self).bview().skip(2);
    fn get_u32(&mut self) -> (r: u32) requires old(self).bview().len() >= 4 ensures final(self).origin() == old(self).origin(), final(self).bview() == old(self).bview().skip(4);
    fn get_u64(&mut self) -> (r: u64) requires old(self).bview().len() >= 8 ensures final(self).origin() == old(self).origin(), final(self).bview() == old(self).bview().skip(8);
    fn advance(&mut self, cnt: usize) requires cnt <= old(self).bview().len() ensures final(self).origin() == old(self).origin(), final(self).bview() == old(self).bview().skip(cnt as int);
}
pub mod io {
    use super::*;
    /// std::io::Cursor over a byte container: what is left to read, and how much has been read
    #[verifier::external_body] #[verifier::reject_recursive_types(T)] pub struct Cursor<T> { inner: T, pos: u64 }
    impl<T> Cursor<T> {
        /// all bytes of the underlying container, and how many of them have been read
        pub uninterp spec fn whole(&self) -> Seq<u8>;
        pub open spec fn pos(&self) -> nat { (self.whole().len() - self.rest().len()) as nat }
        /// what is left to read is a suffix of the container
        #[verifier::external_body] pub broadcast proof fn axiom_rest(&self) ensures self.rest().len() <= self.whole().len(), #[trigger] self.rest() == self.whole().skip(self.whole().len() - self.rest().len()) {}
        pub uninterp spec fn rest(&self) -> Seq<u8>;
        /// the underlying container (nothing is known here about its length beyond `position`'s contract)
        #[verifier::external_body] pub fn get_ref(&self) -> (r: &T) { unimplemented!() }
        /// position + what is left = length of the underlying buffer, which fits usize
        #[verifier::external_body] pub fn position(&self) -> (r: u64) ensures r + self.rest().len() <= usize::MAX, r == self.pos() { unimplemented!() }
    }
    impl Cursor<BytesMut> {
        #[verifier::external_body] pub fn new(inner: BytesMut) -> (r: Self) ensures r.whole() == inner@, r.rest() == inner@ { unimplemented!() }
        #[verifier::external_body] pub fn get_bytes(&self) -> (r: &BytesMut) ensures r@ == self.whole() { unimplemented!() }
        /// `buf.get_mut().split_off(at)`: the container keeps [0, at), the rest is returned; the read position is not moved
        #[verifier::external_body] pub fn split_off_inner(&mut self, at: usize) -> (r: BytesMut)
            requires at <= old(self).whole().len(), old(self).pos() <= at
            ensures final(self).whole() == old(self).whole().take(at as int), r@ == old(self).whole().skip(at as int), final(self).pos() == old(self).pos()
        { unimplemented!() }
    }
    impl<T> Buf for Cursor<T> {
        open spec fn bview(&self) -> Seq<u8> { self.rest() }
        open spec fn origin(&self) -> Seq<u8> { self.whole() }
        #[verifier::external_body] fn remaining(&self) -> (r: usize) { unimplemented!() }
        #[verifier::external_body] fn has_remaining(&self) -> (r: bool) { unimplemented!() }
        #[verifier::external_body] fn get_u8(&mut self) -> (r: u8) { unimplemented!() }
        #[verifier::external_body] fn get_u16(&mut self) -> (r: u16) { unimplemented!() }
        #[verifier::external_body] fn get_u32(&mut self) -> (r: u32) { unimplemented!() }
        #[verifier::external_body] fn get_u64(&mut self) -> (r: u64) { unimplemented!() }
        #[verifier::external_body] fn advance(&mut self, cnt: usize) { unimplemented!() }
    }
}
#[verifier::external_body] pub struct BytesMut { x: Vec<u8> }
impl View for BytesMut { type V = Seq<u8>; uninterp spec fn view(&self) -> Seq<u8>; }
impl AsRef<[u8]> for BytesMut { #[verifier::external_body] fn as_ref(&self) -> &[u8] { unimplemented!() } }
impl BytesMut { #[verifier::external_body] pub fn len(&self) -> (r: usize) ensures r == self@.len() { unimplemented!() } }
#[derive(Copy, Clone)] pub struct UnexpectedEnd;
pub type Result<T> = ::std::result::Result<T, UnexpectedEnd>;
#[derive(Copy, Clone, PartialEq, Eq)]
pub struct VarInt(pub u64);
impl vstd::std_specs::cmp::PartialEqSpecImpl for VarInt { open spec fn obeys_eq_spec() -> bool { true } open spec fn eq_spec(&self, o: &VarInt) -> bool { *self == *o } }
impl VarInt {
    pub const fn into_inner(self) -> (r: u64) ensures r == self.0 { self.0 }
}
pub trait Codec: Sized {
    /// what a successful decode yields, as a function of the input (uninterpreted per type except where stated)
//@ extract quinn-proto/src/coding.rs :: trait Codec::fn decode
//@ ret r
//@ contract
        ensures final(buf).bview().len() <= old(buf).bview().len(), final(buf).origin() == old(buf).origin(),
            r.is_ok() ==> final(buf).bview().len() < old(buf).bview().len()
//@ end
}
impl Codec for u8 {
//@ extract quinn-proto/src/coding.rs :: impl Codec for u8::fn decode
//@ end
}
impl Codec for u16 {
//@ extract quinn-proto/src/coding.rs :: impl Codec for u16::fn decode
//@ end
}
impl Codec for u32 {
//@ extract quinn-proto/src/coding.rs :: impl Codec for u32::fn decode
//@ end
}
impl Codec for u64 {
//@ extract quinn-proto/src/coding.rs :: impl Codec for u64::fn decode
//@ end
}
impl Codec for VarInt {
    /// contract boundary (cross-tool link): the real body is proved against exactly this contract by Kani
    #[verifier::external_body]
    fn decode<B: Buf>(r: &mut B) -> (res: Result<Self>)
        ensures match res {
            Ok(v) => vparse(old(r).bview()) == Some((v.0, (old(r).bview().len() - final(r).bview().len()) as nat))
                     && final(r).bview() == old(r).bview().skip(vparse(old(r).bview()).unwrap().1 as int),
            Err(_) => vparse(old(r).bview()).is_none() && final(r).bview().len() <= old(r).bview().len(),
        }, final(r).origin() == old(r).origin()
    { unimplemented!() }
}
pub(crate) trait BufExt {
    spec fn xv(&self) -> Seq<u8>;
    spec fn xo(&self) -> Seq<u8>;
//@ extract quinn-proto/src/coding.rs :: trait BufExt::fn get
//@ rename-generic T U
//@ ret r
//@ contract
        ensures final(self).xv().len() <= old(self).xv().len(), r.is_ok() ==> final(self).xv().len() < old(self).xv().len(), final(self).xo() == old(self).xo()
//@ end
//@ extract quinn-proto/src/coding.rs :: trait BufExt::fn get_var
//@ ret r
//@ contract
        ensures match r {
            Ok(v) => vparse(old(self).xv()) == Some((v, (old(self).xv().len() - final(self).xv().len()) as nat))
                     && final(self).xv() == old(self).xv().skip(vparse(old(self).xv()).unwrap().1 as int),
            Err(_) => vparse(old(self).xv()).is_none() && final(self).xv().len() <= old(self).xv().len(),
        }, final(self).xo() == old(self).xo()
//@ end
}
impl<T: Buf> BufExt for T {
    open spec fn xv(&self) -> Seq<u8> { self.bview() }
    open spec fn xo(&self) -> Seq<u8> { self.origin() }
//@ extract quinn-proto/src/coding.rs :: impl BufExt for T::fn get
//@ end
//@ extract quinn-proto/src/coding.rs :: impl BufExt for T::fn get_var
//@ end
}

#[derive(Copy, Clone)] pub struct ConnectionId { pub len: u8, pub bytes: [u8; 20] }
impl ConnectionId {
    /// contract of the real `from_buf`: `debug_assert!(len <= MAX_CID_SIZE)`, then `buf.copy_to_slice(&mut res[..len])`
    #[verifier::external_body]
    pub fn from_buf<B: Buf>(buf: &mut B, len: usize) -> (r: Self)
        requires len <= MAX_CID_SIZE, old(buf).bview().len() >= len
        ensures final(buf).bview() == old(buf).bview().skip(len as int), r.len == len, final(buf).origin() == old(buf).origin()
    { unimplemented!() }
}
pub trait ConnectionIdParser { }
/// `cid_parser.parse(buf)` (takes `&mut dyn Buf`): consumes some prefix of what is left or fails
#[verifier::external_body]
pub fn parse_short_cid<P: ConnectionIdParser + ?Sized, B: Buf>(p: &P, buf: &mut B) -> (r: ::std::result::Result<ConnectionId, super::code::PacketDecodeError>)
    ensures final(buf).bview().len() <= old(buf).bview().len(), final(buf).origin() == old(buf).origin()
{ unimplemented!() }
#[verifier::external_trait_specification]
pub trait ExAsRef<T: core::marker::PointeeSized>: core::marker::PointeeSized { type ExternalTraitSpecificationFor: core::convert::AsRef<T> + core::marker::PointeeSized; fn as_ref(&self) -> &T; }
pub assume_specification<T: PartialEq> [<[T]>::contains] (s: &[T], x: &T) -> (r: bool);
}
pub mod code {
use super::*; use super::shims::*;
use std::result::Result;
use std::cmp::Ordering;
broadcast use axiom_vparse_bounds;
//@ extract quinn-proto/src/packet.rs :: const LONG_HEADER_FORM
//@ end
//@ extract quinn-proto/src/packet.rs :: const FIXED_BIT
//@ end
//@ extract quinn-proto/src/packet.rs :: const SPIN_BIT
//@ end
//@ extract quinn-proto/src/packet.rs :: enum LongType
//@ end
//@ extract quinn-proto/src/packet.rs :: enum LongHeaderType
//@ end
//@ extract quinn-proto/src/packet.rs :: enum PacketDecodeError
//@ derive
//@ end
//@ extract quinn-proto/src/packet.rs :: struct ProtectedInitialHeader
//@ derive
//@ end
//@ extract quinn-proto/src/packet.rs :: enum ProtectedHeader
//@ derive
//@ end
impl vstd::std_specs::convert::FromSpecImpl<UnexpectedEnd> for PacketDecodeError {
    open spec fn obeys_from_spec() -> bool { false }
    open spec fn from_spec(v: UnexpectedEnd) -> Self { PacketDecodeError::InvalidHeader("") }
}
impl From<UnexpectedEnd> for PacketDecodeError {
//@ extract quinn-proto/src/packet.rs :: impl From<coding::UnexpectedEnd> for PacketDecodeError::fn from
//@ replace coding::UnexpectedEnd => UnexpectedEnd
//@ end
}
impl LongHeaderType {
//@ extract quinn-proto/src/packet.rs :: impl LongHeaderType::fn from_byte
//@ ret r
//@ debug-assert drop
//@ at-start
        proof { assert(((b & 0x30) >> 4) < 4) by (bit_vector); }
//@ contract
        ensures r.is_ok()
//@ end
}
impl ConnectionId {
//@ extract quinn-proto/src/shared.rs :: impl ConnectionId::fn decode_long
//@ ret r
//@ contract
        ensures final(buf).bview().len() <= old(buf).bview().len(), r matches Some(c) ==> c.len <= 20, final(buf).origin() == old(buf).origin()
//@ end
}
impl ProtectedHeader {
    /// RFC 9000 17.2: Initial, 0-RTT and Handshake packets carry a Length field (packet number + payload); Retry, Version Negotiation
    /// and short-header packets do not and run to the end of the datagram
    pub open spec fn has_length(&self) -> Option<u64> {
        match *self {
            ProtectedHeader::Initial(h) => Some(h.len),
            ProtectedHeader::Long { ty, dst_cid, src_cid, len, version } => Some(len),
            _ => None,
        }
    }
//@ extract quinn-proto/src/packet.rs :: impl ProtectedHeader::fn payload_len
//@ ret r
//@ contract
        ensures r == self.has_length()
//@ end
//@ extract quinn-proto/src/packet.rs :: impl ProtectedHeader::fn decode
//@ ret r
//@ replace cid_parser.parse(buf)? => parse_short_cid(cid_parser, buf)?
//@ contract
        ensures
            // total for any datagram content and length: no panic, no read past the end (implicit in every obligation of the body);
            final(buf).rest().len() <= old(buf).rest().len(), final(buf).whole() == old(buf).whole(),
            // a Length field is a varint
            r matches Ok(h) ==> (h.has_length() matches Some(l) ==> l < 0x4000_0000_0000_0000),
            // an Initial header's token range is well formed and was skipped inside the datagram
            r matches Ok(ProtectedHeader::Initial(h)) ==> h.token_pos.start <= h.token_pos.end && h.token_pos.end - h.token_pos.start <= old(buf).rest().len(),
//@ end
}
//@ extract quinn-proto/src/packet.rs :: struct PartialDecode
//@ derive
//@ end
impl PartialDecode {
//@ extract quinn-proto/src/packet.rs :: impl PartialDecode::fn new
//@ ret r
//@ replace buf.get_ref().len() => buf.get_bytes().len()
//@ replace buf.get_mut().split_off( => buf.split_off_inner(
//@ closure 0 : u64 -> (n: usize)
                requires buf.pos() + len <= u64::MAX
                ensures n == (buf.pos() + len) as usize
//@ at-start
        broadcast use io::Cursor::axiom_rest;
//@ contract
        // (a UDP datagram; the bound only keeps `position + Length` inside u64)
        requires bytes@.len() < 0x4000_0000_0000_0000
        ensures match r {
            // coalesced packets are split exactly where the Length field says: the packet is the header plus `Length` bytes, the
            // rest of the datagram is handed back untouched; packets without a Length field take the whole datagram
            Ok((p, rest)) => {
                let hdr_end = p.buf.pos();
                let plen = match p.plain_header.has_length() { Some(l) => hdr_end + l, None => bytes@.len() as int };
                &&& plen <= bytes@.len()
                &&& p.buf.whole() == bytes@.take(plen)
                &&& (rest matches Some(t) ==> plen < bytes@.len() && t@ == bytes@.skip(plen))
                &&& (rest is None ==> plen == bytes@.len())
            },
            Err(_) => true,
        }
//@ end
}
}
}
fn main() {}
