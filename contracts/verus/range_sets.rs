//! unit: range_sets -- ArrayRangeSet (sorted vector of disjoint, non-adjacent ranges): insert is proved equal to a recursive model (shape layer), and the model is proved to preserve well-formedness and to compute exactly set union (ghost layer); remove is proved to compute exactly set difference (inductive loop invariant + one step lemma per way of cutting a range)
//! props: C01 C03
//! trusted: tinyvec::TinyVec as a sequence (len, push, insert, remove, index, index_mut, is_empty, partition_point with std's contract); Range::is_empty / clone
#![allow(unused_imports, dead_code, non_camel_case_types, non_snake_case, unused_variables, unused_mut, unused_assignments)]
use vstd::prelude::*;
use std::ops::Range; use vstd::std_specs::cmp::PartialOrdSpec;
verus! {
global size_of usize == 8;
pub mod shims {
use super::*;

pub trait Array { type Item; }
impl<T, const N: usize> Array for [T; N] { type Item = T; }

#[verifier::external_body]
#[verifier::accept_recursive_types(A)]
pub struct TinyVec<A: Array> { inner: Vec<A::Item> }

impl<A: Array> View for TinyVec<A> {
    type V = Seq<A::Item>;
    uninterp spec fn view(&self) -> Seq<A::Item>;
}

impl<A: Array> TinyVec<A> {
    #[verifier::external_body]
    pub fn len(&self) -> (r: usize) ensures r == self@.len() { self.inner.len() }
    #[verifier::external_body]
    pub fn is_empty(&self) -> (r: bool) ensures r == (self@.len() == 0) { self.inner.is_empty() }
    #[verifier::external_body]
    pub fn push(&mut self, x: A::Item) ensures final(self)@ == old(self)@.push(x) { self.inner.push(x) }
    #[verifier::external_body]
    pub fn insert(&mut self, i: usize, x: A::Item) requires i <= old(self)@.len() ensures final(self)@ == old(self)@.insert(i as int, x), final(self)@.len() <= usize::MAX /* the length of a vector is a usize: growing past it aborts */ { self.inner.insert(i, x) }
    #[verifier::external_body]
    pub fn remove(&mut self, i: usize) -> (r: A::Item) requires i < old(self)@.len() ensures final(self)@ == old(self)@.remove(i as int), r == old(self)@[i as int] { self.inner.remove(i) }
    #[verifier::external_body]
    pub fn partition_point<P: Fn(&A::Item) -> bool>(&self, pred: P) -> (r: usize)
        requires forall|i: int| 0 <= i < self@.len() ==> call_requires(pred, (&self@[i],)),
        ensures r <= self@.len(),
          (forall|i: int, j: int| 0 <= i < j < self@.len() ==> !(call_ensures(pred, (&self@[i],), false) && call_ensures(pred, (&self@[j],), true)))
            ==> (forall|i: int| 0 <= i < r ==> call_ensures(pred, (&#[trigger] self@[i],), true))
             && (forall|i: int| r <= i < self@.len() ==> call_ensures(pred, (&#[trigger] self@[i],), false)),
    { self.inner.partition_point(pred) }
}

impl<A: Array> core::ops::Index<usize> for TinyVec<A> {
    type Output = A::Item;
    #[verifier::external_body]
    fn index(&self, i: usize) -> (r: &A::Item) ensures *r == self@[i as int] { &self.inner[i] }
}
impl<A: Array> vstd::std_specs::core::IndexSpecImpl<usize> for TinyVec<A> {
    open spec fn index_req(&self, i: &usize) -> bool { *i < self@.len() }
}
impl<A: Array> core::ops::IndexMut<usize> for TinyVec<A> {
    #[verifier::external_body]
    fn index_mut(&mut self, i: usize) -> (r: &mut A::Item) ensures *r == old(self)@[i as int], final(self)@ == old(self)@.update(i as int, *final(r)) { &mut self.inner[i] }
}

pub assume_specification<Idx: Clone> [<std::ops::Range<Idx> as Clone>::clone] (r: &std::ops::Range<Idx>) -> (c: std::ops::Range<Idx>)
    ensures c == *r;
pub uninterp spec fn range_is_empty_spec<Idx>(r: std::ops::Range<Idx>) -> bool;
#[verifier::external_body]
pub broadcast proof fn axiom_range_is_empty_u64(r: std::ops::Range<u64>)
    ensures #[trigger] range_is_empty_spec(r) == !(r.start < r.end) {}
pub assume_specification<Idx> [std::ops::Range::<Idx>::is_empty] (r: &std::ops::Range<Idx>) -> (b: bool) where Idx: std::cmp::PartialOrd + std::cmp::PartialOrd,
    ensures b == range_is_empty_spec(*r);


} // mod shims
pub mod spec {
use super::*;

pub type RS = Seq<Range<u64>>;
pub open spec fn wf(s: RS) -> bool {
    &&& forall|i: int| 0 <= i < s.len() ==> (#[trigger] s[i]).start < s[i].end
    &&& forall|i: int, j: int| 0 <= i < j < s.len() ==> (#[trigger] s[i]).end < (#[trigger] s[j]).start
}
pub open spec fn umax(a: u64, b: u64) -> u64 { if a >= b { a } else { b } }
pub open spec fn merge_from(s: RS, idx: int) -> RS
    decreases s.len()
{
    if 0 <= idx && idx + 1 < s.len() && s[idx].end >= s[idx + 1].start {
        merge_from(s.update(idx, Range { start: s[idx].start, end: umax(s[idx + 1].end, s[idx].end) }).remove(idx + 1), idx)
    } else { s }
}
pub open spec fn inr(r: Range<u64>, v: u64) -> bool { r.start <= v < r.end }
pub open spec fn contains(s: RS, v: u64) -> bool { exists|i: int| 0 <= i < s.len() && inr(#[trigger] s[i], v) }

/// well-formed everywhere except that s[idx] may overlap / touch its successors
pub open spec fn wf_except(s: RS, idx: int) -> bool {
    &&& 0 <= idx < s.len()
    &&& forall|i: int| 0 <= i < s.len() ==> (#[trigger] s[i]).start < s[i].end
    &&& forall|i: int, j: int| 0 <= i < j < s.len() && i != idx ==> (#[trigger] s[i]).end < (#[trigger] s[j]).start
    &&& forall|j: int| idx < j < s.len() ==> s[idx].start < (#[trigger] s[j]).start
}

pub proof fn lemma_merge_from(s: RS, idx: int)
    requires wf_except(s, idx)
    ensures wf(merge_from(s, idx)),
        forall|v: u64| contains(merge_from(s, idx), v) <==> contains(s, v),
        merge_from(s, idx).len() <= s.len(), merge_from(s, idx).len() > idx,
        forall|i: int| 0 <= i < idx ==> #[trigger] merge_from(s, idx)[i] == s[i],
    decreases s.len()
{
    if idx + 1 < s.len() && s[idx].end >= s[idx + 1].start {
        let m = Range { start: s[idx].start, end: umax(s[idx + 1].end, s[idx].end) };
        let s2 = s.update(idx, m).remove(idx + 1);
        // s2 indexing facts
        assert forall|i: int| 0 <= i < s2.len() implies #[trigger] s2[i] == (if i < idx { s[i] } else if i == idx { m } else { s[i + 1] }) by {}
        assert(wf_except(s2, idx)) by {
            assert forall|i: int, j: int| 0 <= i < j < s2.len() && i != idx implies (#[trigger] s2[i]).end < (#[trigger] s2[j]).start by {
                if i < idx {
                    if j == idx { assert(s[i].end < s[idx].start); } else if j < idx { assert(s[i].end < s[j].start); } else { assert(s[i].end < s[j + 1].start); }
                } else {
                    assert(s[i + 1].end < s[j + 1].start);
                }
            }
            assert forall|j: int| idx < j < s2.len() implies s2[idx].start < (#[trigger] s2[j]).start by { assert(s[idx].start < s[j + 1].start); }
            assert forall|i: int| 0 <= i < s2.len() implies (#[trigger] s2[i]).start < s2[i].end by {
                if i == idx { assert(s[idx].start < s[idx].end); } else if i < idx { assert(s[i].start < s[i].end); } else { assert(s[i + 1].start < s[i + 1].end); }
            }
        }
        lemma_merge_from(s2, idx);
        assert forall|i: int| 0 <= i < idx implies #[trigger] merge_from(s, idx)[i] == s[i] by {
            assert(merge_from(s2, idx)[i] == s2[i]);
            assert(s2[i] == s[i]);
        }
        assert forall|v: u64| contains(s2, v) <==> contains(s, v) by {
            if contains(s2, v) {
                let i = choose|i: int| 0 <= i < s2.len() && inr(#[trigger] s2[i], v);
                if i < idx { assert(inr(s[i], v)); }
                else if i == idx {
                    assert(s[idx].start < s[idx + 1].start);
                    if v < s[idx].end { assert(inr(s[idx], v)); } else { assert(inr(s[idx + 1], v)); }
                } else { assert(inr(s[i + 1], v)); }
            }
            if contains(s, v) {
                let i = choose|i: int| 0 <= i < s.len() && inr(#[trigger] s[i], v);
                if i < idx { assert(inr(s2[i], v)); }
                else if i == idx || i == idx + 1 { assert(s[idx].start < s[idx + 1].start); assert(inr(s2[idx], v)); }
                else { assert(inr(s2[i - 1], v)); }
            }
        }
    } else {
        // already well formed
        assert forall|i: int, j: int| 0 <= i < j < s.len() implies (#[trigger] s[i]).end < (#[trigger] s[j]).start by {
            if i == idx {
                assert(s[idx].end < s[idx + 1].start);
                if j > idx + 1 { assert(s[idx + 1].end < s[j].start); assert(s[idx + 1].start < s[idx + 1].end); }
            }
        }
    }
}


// ---- ArrayRangeSet::remove: set difference -------------------------------------------------------------
/// loop invariant of `remove`: everything left of idx is final and disjoint from x, everything from idx on still ends after x.start
/// (so it is untouched original content), nothing was added, nothing outside x was lost
pub open spec fn rm_inv(s0: RS, cur: RS, x: Range<u64>, idx: int, result: bool) -> bool {
    &&& wf(cur) && 0 <= idx <= cur.len()
    &&& forall|i: int| 0 <= i < idx ==> ((#[trigger] cur[i]).end <= x.start || cur[i].start >= x.end)
    &&& forall|i: int| idx <= i < cur.len() ==> (#[trigger] cur[i]).end > x.start
    &&& forall|v: u64| #[trigger] contains(cur, v) ==> contains(s0, v)
    &&& forall|v: u64| #[trigger] contains(s0, v) && !inr(x, v) ==> contains(cur, v)
    &&& result ==> exists|v: u64| inr(x, v) && contains(s0, v)
    &&& !result ==> cur == s0
}
/// one iteration on a range that overlaps x: what is left of cur[idx] once x is cut out (nothing, its right part, its left part, or both)
pub open spec fn rm_step(cur: RS, x: Range<u64>, idx: int) -> (RS, int) {
    let r = cur[idx];
    let left = Range { start: r.start, end: x.start };
    let right = Range { start: x.end, end: r.end };
    let l_ne = r.start < x.start;
    let r_ne = x.end < r.end;
    if !l_ne && !r_ne { (cur.remove(idx), idx) }
    else if !l_ne { (cur.update(idx, right), idx + 1) }
    else if !r_ne { (cur.update(idx, left), idx + 1) }
    else { (cur.update(idx, right).insert(idx, left), idx + 2) }
}
pub proof fn lemma_rm_step_none(s0: RS, cur: RS, x: Range<u64>, idx: int, result: bool)
    requires rm_inv(s0, cur, x, idx, result), x.start < x.end, idx < cur.len(), cur[idx].start < x.end,
        !(cur[idx].start < x.start) && !(x.end < cur[idx].end)
    ensures rm_inv(s0, rm_step(cur, x, idx).0, x, rm_step(cur, x, idx).1, true),
        rm_step(cur, x, idx).0.len() - rm_step(cur, x, idx).1 < cur.len() - idx,
{
    let r = cur[idx];
    let n = rm_step(cur, x, idx).0;
    let nidx = rm_step(cur, x, idx).1;
    let left = Range { start: r.start, end: x.start };
    let right = Range { start: x.end, end: r.end };
    let l_ne = r.start < x.start;
    let r_ne = x.end < r.end;
    let w = umax(r.start, x.start);
    assert(r.start < r.end && r.end > x.start);
    assert(inr(r, w) && inr(x, w));
    assert(contains(cur, w));
    assert(contains(s0, w));
        assert forall|i: int| 0 <= i < n.len() implies #[trigger] n[i] == (if i < idx { cur[i] } else { cur[i + 1] }) by {}
        assert(wf(n)) by {
            assert forall|i: int| 0 <= i < n.len() implies (#[trigger] n[i]).start < n[i].end by { if i < idx { assert(cur[i].start < cur[i].end); } else { assert(cur[i + 1].start < cur[i + 1].end); } }
            assert forall|i: int, j: int| 0 <= i < j < n.len() implies (#[trigger] n[i]).end < (#[trigger] n[j]).start by {
                if j < idx { assert(cur[i].end < cur[j].start); } else if i < idx { assert(cur[i].end < cur[j + 1].start); } else { assert(cur[i + 1].end < cur[j + 1].start); }
            }
        }
        assert forall|i: int| 0 <= i < nidx implies ((#[trigger] n[i]).end <= x.start || n[i].start >= x.end) by { assert(n[i] == cur[i]); }
        assert forall|i: int| nidx <= i < n.len() implies (#[trigger] n[i]).end > x.start by { assert(n[i] == cur[i + 1]); }
        assert forall|v: u64| #[trigger] contains(n, v) implies contains(s0, v) by {
            let i = choose|i: int| 0 <= i < n.len() && inr(#[trigger] n[i], v);
            if i < idx { assert(inr(cur[i], v)); } else { assert(inr(cur[i + 1], v)); }
            assert(contains(cur, v));
        }
        assert forall|v: u64| #[trigger] contains(s0, v) && !inr(x, v) implies contains(n, v) by {
            assert(contains(cur, v));
            let j = choose|j: int| 0 <= j < cur.len() && inr(#[trigger] cur[j], v);
            if j < idx { assert(inr(n[j], v)); } else if j > idx { assert(inr(n[j - 1], v)); }
        }
}
pub proof fn lemma_rm_step_one(s0: RS, cur: RS, x: Range<u64>, idx: int, result: bool)
    requires rm_inv(s0, cur, x, idx, result), x.start < x.end, idx < cur.len(), cur[idx].start < x.end,
        (cur[idx].start < x.start) != (x.end < cur[idx].end)
    ensures rm_inv(s0, rm_step(cur, x, idx).0, x, rm_step(cur, x, idx).1, true),
        rm_step(cur, x, idx).0.len() - rm_step(cur, x, idx).1 < cur.len() - idx,
{
    let r = cur[idx];
    let n = rm_step(cur, x, idx).0;
    let nidx = rm_step(cur, x, idx).1;
    let left = Range { start: r.start, end: x.start };
    let right = Range { start: x.end, end: r.end };
    let l_ne = r.start < x.start;
    let r_ne = x.end < r.end;
    let w = umax(r.start, x.start);
    assert(r.start < r.end && r.end > x.start);
    assert(inr(r, w) && inr(x, w));
    assert(contains(cur, w));
    assert(contains(s0, w));
        let m = if !l_ne { right } else { left };
        assert forall|i: int| 0 <= i < n.len() implies #[trigger] n[i] == (if i == idx { m } else { cur[i] }) by {}
        assert(wf(n)) by {
            assert forall|i: int| 0 <= i < n.len() implies (#[trigger] n[i]).start < n[i].end by { if i != idx { assert(cur[i].start < cur[i].end); } }
            assert forall|i: int, j: int| 0 <= i < j < n.len() implies (#[trigger] n[i]).end < (#[trigger] n[j]).start by { assert(cur[i].end < cur[j].start); }
        }
        assert forall|i: int| 0 <= i < nidx implies ((#[trigger] n[i]).end <= x.start || n[i].start >= x.end) by { if i < idx { assert(n[i] == cur[i]); } }
        assert forall|i: int| nidx <= i < n.len() implies (#[trigger] n[i]).end > x.start by { assert(n[i] == cur[i]); }
        assert forall|v: u64| #[trigger] contains(n, v) implies contains(s0, v) by {
            let i = choose|i: int| 0 <= i < n.len() && inr(#[trigger] n[i], v);
            assert(inr(cur[i], v));
            assert(contains(cur, v));
        }
        assert forall|v: u64| #[trigger] contains(s0, v) && !inr(x, v) implies contains(n, v) by {
            assert(contains(cur, v));
            let j = choose|j: int| 0 <= j < cur.len() && inr(#[trigger] cur[j], v);
            assert(inr(n[j], v));
        }
}
pub proof fn lemma_rm_step_both(s0: RS, cur: RS, x: Range<u64>, idx: int, result: bool)
    requires rm_inv(s0, cur, x, idx, result), x.start < x.end, idx < cur.len(), cur[idx].start < x.end,
        cur[idx].start < x.start && x.end < cur[idx].end
    ensures rm_inv(s0, rm_step(cur, x, idx).0, x, rm_step(cur, x, idx).1, true),
        rm_step(cur, x, idx).0.len() - rm_step(cur, x, idx).1 < cur.len() - idx,
{
    let r = cur[idx];
    let n = rm_step(cur, x, idx).0;
    let nidx = rm_step(cur, x, idx).1;
    let left = Range { start: r.start, end: x.start };
    let right = Range { start: x.end, end: r.end };
    let l_ne = r.start < x.start;
    let r_ne = x.end < r.end;
    let w = umax(r.start, x.start);
    assert(r.start < r.end && r.end > x.start);
    assert(inr(r, w) && inr(x, w));
    assert(contains(cur, w));
    assert(contains(s0, w));
        assert forall|i: int| 0 <= i < n.len() implies #[trigger] n[i] == (if i < idx { cur[i] } else if i == idx { left } else if i == idx + 1 { right } else { cur[i - 1] }) by {}
        assert(wf(n)) by {
            assert forall|i: int| 0 <= i < n.len() implies (#[trigger] n[i]).start < n[i].end by { if i < idx { assert(cur[i].start < cur[i].end); } else if i > idx + 1 { assert(cur[i - 1].start < cur[i - 1].end); } }
            assert forall|i: int, j: int| 0 <= i < j < n.len() implies (#[trigger] n[i]).end < (#[trigger] n[j]).start by {
                if j < idx { assert(cur[i].end < cur[j].start); }
                else if j <= idx + 1 { if i < idx { assert(cur[i].end < cur[idx].start); } }
                else if i < idx { assert(cur[i].end < cur[j - 1].start); }
                else if i <= idx + 1 { assert(cur[idx].end < cur[j - 1].start); }
                else { assert(cur[i - 1].end < cur[j - 1].start); }
            }
        }
        assert forall|i: int| 0 <= i < nidx implies ((#[trigger] n[i]).end <= x.start || n[i].start >= x.end) by { if i < idx { assert(n[i] == cur[i]); } }
        assert forall|i: int| nidx <= i < n.len() implies (#[trigger] n[i]).end > x.start by { assert(n[i] == cur[i - 1]); }
        assert forall|v: u64| #[trigger] contains(n, v) implies contains(s0, v) by {
            let i = choose|i: int| 0 <= i < n.len() && inr(#[trigger] n[i], v);
            if i < idx { assert(inr(cur[i], v)); } else if i <= idx + 1 { assert(inr(cur[idx], v)); } else { assert(inr(cur[i - 1], v)); }
            assert(contains(cur, v));
        }
        assert forall|v: u64| #[trigger] contains(s0, v) && !inr(x, v) implies contains(n, v) by {
            assert(contains(cur, v));
            let j = choose|j: int| 0 <= j < cur.len() && inr(#[trigger] cur[j], v);
            if j < idx { assert(inr(n[j], v)); } else if j > idx { assert(inr(n[j + 1], v)); }
            else if v < x.start { assert(inr(n[idx], v)); } else { assert(inr(n[idx + 1], v)); }
        }
}
pub proof fn lemma_rm_step(s0: RS, cur: RS, x: Range<u64>, idx: int, result: bool)
    requires rm_inv(s0, cur, x, idx, result), x.start < x.end, idx < cur.len(), cur[idx].start < x.end
    ensures rm_inv(s0, rm_step(cur, x, idx).0, x, rm_step(cur, x, idx).1, true),
        rm_step(cur, x, idx).0.len() - rm_step(cur, x, idx).1 < cur.len() - idx,
{
    let r = cur[idx];
    if !(r.start < x.start) && !(x.end < r.end) { lemma_rm_step_none(s0, cur, x, idx, result); }
    else if r.start < x.start && x.end < r.end { lemma_rm_step_both(s0, cur, x, idx, result); }
    else { lemma_rm_step_one(s0, cur, x, idx, result); }
}
/// what the invariant means once the loop has left: exactly set difference, and the result says whether anything was removed
pub proof fn lemma_rm_exit(s0: RS, cur: RS, x: Range<u64>, idx: int, result: bool)
    requires rm_inv(s0, cur, x, idx, result), x.start < x.end, idx == cur.len() || x.end <= cur[idx].start
    ensures forall|v: u64| #[trigger] contains(cur, v) <==> (contains(s0, v) && !inr(x, v)),
        result <==> exists|v: u64| inr(x, v) && contains(s0, v),
{
    assert forall|v: u64| #[trigger] contains(cur, v) implies !inr(x, v) by {
        let i = choose|i: int| 0 <= i < cur.len() && inr(#[trigger] cur[i], v);
        if i >= idx {
            assert(cur[idx].start < cur[idx].end);
            if i > idx { assert(cur[idx].end < cur[i].start); }
        }
    }
    if !result {
        assert forall|v: u64| !(inr(x, v) && contains(s0, v)) by { if contains(s0, v) { assert(contains(cur, v)); } }
    }
}
pub open spec fn is_pp(s: RS, p: u64, idx: int) -> bool {
    &&& 0 <= idx <= s.len()
    &&& forall|i: int| 0 <= i < idx ==> (#[trigger] s[i]).end < p
    &&& forall|i: int| idx <= i < s.len() ==> (#[trigger] s[i]).end >= p
}
pub open spec fn spec_insert_at(s: RS, x: Range<u64>, idx: int) -> (RS, bool) {
    if !(x.start < x.end) { (s, false) }
    else if idx == s.len() { (s.push(x), true) }
    else if x.end < s[idx].start { (s.insert(idx, x), true) }
    else {
        let st = if s[idx].start > x.start { x.start } else { s[idx].start };
        let res = s[idx].start > x.start;
        if x.end <= s[idx].end { (s.update(idx, Range { start: st, end: s[idx].end }), res) }
        else { (merge_from(s.update(idx, Range { start: st, end: x.end }), idx), true) }
    }
}
pub proof fn lemma_case_push(s: RS, x: Range<u64>, idx: int)
    requires wf(s), is_pp(s, x.start, idx), x.start < x.end, idx == s.len()
    ensures
        wf(spec_insert_at(s, x, idx).0),
        forall|v: u64| contains(spec_insert_at(s, x, idx).0, v) <==> (contains(s, v) || inr(x, v)),
        spec_insert_at(s, x, idx).1 <==> exists|v: u64| inr(x, v) && !contains(s, v),
{
    let r = spec_insert_at(s, x, idx).0;
        assert forall|i: int, j: int| 0 <= i < j < r.len() implies (#[trigger] r[i]).end < (#[trigger] r[j]).start by {
            if j == s.len() { assert(s[i].end < x.start); } else { assert(s[i].end < s[j].start); }
        }
        assert forall|i: int| 0 <= i < r.len() implies (#[trigger] r[i]).start < r[i].end by { if i < s.len() { assert(s[i].start < s[i].end); } }
        assert forall|v: u64| contains(r, v) <==> (contains(s, v) || inr(x, v)) by {
            if contains(r, v) { let i = choose|i: int| 0 <= i < r.len() && inr(#[trigger] r[i], v); if i < s.len() { assert(inr(s[i], v)); } }
            if contains(s, v) { let i = choose|i: int| 0 <= i < s.len() && inr(#[trigger] s[i], v); assert(inr(r[i], v)); }
            if inr(x, v) { assert(inr(r[s.len() as int], v)); }
        }
        assert(inr(x, x.start));
        assert(!contains(s, x.start)) by {
            if contains(s, x.start) { let i = choose|i: int| 0 <= i < s.len() && inr(#[trigger] s[i], x.start); assert(s[i].end < x.start); }
        }
}
pub proof fn lemma_case_insert(s: RS, x: Range<u64>, idx: int)
    requires wf(s), is_pp(s, x.start, idx), x.start < x.end, idx < s.len(), x.end < s[idx].start
    ensures
        wf(spec_insert_at(s, x, idx).0),
        forall|v: u64| contains(spec_insert_at(s, x, idx).0, v) <==> (contains(s, v) || inr(x, v)),
        spec_insert_at(s, x, idx).1 <==> exists|v: u64| inr(x, v) && !contains(s, v),
{
    let r = spec_insert_at(s, x, idx).0;
        assert forall|i: int| 0 <= i < r.len() implies #[trigger] r[i] == (if i < idx { s[i] } else if i == idx { x } else { s[i - 1] }) by {}
        assert forall|i: int, j: int| 0 <= i < j < r.len() implies (#[trigger] r[i]).end < (#[trigger] r[j]).start by {
            if j < idx { assert(s[i].end < s[j].start); }
            else if j == idx { assert(s[i].end < x.start); }
            else if i < idx { assert(s[i].end < s[j - 1].start); assert(i < j - 1); }
            else if i == idx { if j - 1 > idx { assert(s[idx].end < s[j - 1].start); assert(s[idx].start < s[idx].end); } }
            else { assert(s[i - 1].end < s[j - 1].start); }
        }
        assert forall|i: int| 0 <= i < r.len() implies (#[trigger] r[i]).start < r[i].end by {
            if i < idx { assert(s[i].start < s[i].end); } else if i > idx { assert(s[i - 1].start < s[i - 1].end); }
        }
        assert forall|v: u64| contains(r, v) <==> (contains(s, v) || inr(x, v)) by {
            if contains(r, v) { let i = choose|i: int| 0 <= i < r.len() && inr(#[trigger] r[i], v); if i < idx { assert(inr(s[i], v)); } else if i > idx { assert(inr(s[i - 1], v)); } }
            if contains(s, v) { let i = choose|i: int| 0 <= i < s.len() && inr(#[trigger] s[i], v); if i < idx { assert(inr(r[i], v)); } else { assert(inr(r[i + 1], v)); } }
            if inr(x, v) { assert(inr(r[idx], v)); }
        }
        assert(inr(x, x.start));
        assert(!contains(s, x.start)) by {
            if contains(s, x.start) {
                let i = choose|i: int| 0 <= i < s.len() && inr(#[trigger] s[i], x.start);
                if i < idx { assert(s[i].end < x.start); } else if i > idx { assert(s[idx].end < s[i].start); assert(s[idx].start < s[idx].end); }
            }
        }
}
pub proof fn lemma_case_contained(s: RS, x: Range<u64>, idx: int)
    requires wf(s), is_pp(s, x.start, idx), x.start < x.end, idx < s.len(), !(x.end < s[idx].start), x.end <= s[idx].end
    ensures
        wf(spec_insert_at(s, x, idx).0),
        forall|v: u64| contains(spec_insert_at(s, x, idx).0, v) <==> (contains(s, v) || inr(x, v)),
        spec_insert_at(s, x, idx).1 <==> exists|v: u64| inr(x, v) && !contains(s, v),
{
    let r = spec_insert_at(s, x, idx).0;
    let st = if s[idx].start > x.start { x.start } else { s[idx].start };
    assert(s[idx].end >= x.start);
    assert(s[idx].start < s[idx].end);
            let m = Range { start: st, end: s[idx].end };
            assert forall|i: int, j: int| 0 <= i < j < r.len() implies (#[trigger] r[i]).end < (#[trigger] r[j]).start by {
                if j == idx { assert(s[i].end < x.start); assert(s[i].end < s[idx].start); }
                else if i == idx { assert(s[idx].end < s[j].start); }
                else { assert(s[i].end < s[j].start); }
            }
            assert forall|i: int| 0 <= i < r.len() implies (#[trigger] r[i]).start < r[i].end by { if i != idx { assert(s[i].start < s[i].end); } }
            assert forall|v: u64| contains(r, v) <==> (contains(s, v) || inr(x, v)) by {
                if contains(r, v) { let i = choose|i: int| 0 <= i < r.len() && inr(#[trigger] r[i], v); if i != idx { assert(inr(s[i], v)); } else { if !inr(x, v) { assert(inr(s[idx], v)); } } }
                if contains(s, v) { let i = choose|i: int| 0 <= i < s.len() && inr(#[trigger] s[i], v); assert(inr(r[i], v)); }
                if inr(x, v) { assert(inr(r[idx], v)); }
            }
            if s[idx].start > x.start {
                assert(inr(x, x.start));
                assert(!contains(s, x.start)) by {
                    if contains(s, x.start) {
                        let i = choose|i: int| 0 <= i < s.len() && inr(#[trigger] s[i], x.start);
                        if i < idx { assert(s[i].end < x.start); } else if i > idx { assert(s[idx].end < s[i].start); }
                    }
                }
            } else {
                assert forall|v: u64| inr(x, v) implies contains(s, v) by { assert(inr(s[idx], v)); }
            }
}
pub proof fn lemma_case_merge(s: RS, x: Range<u64>, idx: int)
    requires wf(s), is_pp(s, x.start, idx), x.start < x.end, idx < s.len(), !(x.end < s[idx].start), !(x.end <= s[idx].end)
    ensures
        wf(spec_insert_at(s, x, idx).0),
        forall|v: u64| contains(spec_insert_at(s, x, idx).0, v) <==> (contains(s, v) || inr(x, v)),
        spec_insert_at(s, x, idx).1 <==> exists|v: u64| inr(x, v) && !contains(s, v),
{
    let r = spec_insert_at(s, x, idx).0;
    let st = if s[idx].start > x.start { x.start } else { s[idx].start };
    assert(s[idx].end >= x.start);
    assert(s[idx].start < s[idx].end);
            let m = Range { start: st, end: x.end };
            let s1 = s.update(idx, m);
            assert(wf_except(s1, idx)) by {
                assert forall|i: int, j: int| 0 <= i < j < s1.len() && i != idx implies (#[trigger] s1[i]).end < (#[trigger] s1[j]).start by {
                    if j == idx { assert(s[i].end < x.start); assert(s[i].end < s[idx].start); } else { assert(s[i].end < s[j].start); }
                }
                assert forall|j: int| idx < j < s1.len() implies s1[idx].start < (#[trigger] s1[j]).start by { assert(s[idx].end < s[j].start); }
                assert forall|i: int| 0 <= i < s1.len() implies (#[trigger] s1[i]).start < s1[i].end by { if i != idx { assert(s[i].start < s[i].end); } }
            }
            lemma_merge_from(s1, idx);
            assert forall|v: u64| contains(s1, v) <==> (contains(s, v) || inr(x, v)) by {
                if contains(s1, v) { let i = choose|i: int| 0 <= i < s1.len() && inr(#[trigger] s1[i], v); if i != idx { assert(inr(s[i], v)); } else { if !inr(x, v) { assert(inr(s[idx], v)); } } }
                if contains(s, v) { let i = choose|i: int| 0 <= i < s.len() && inr(#[trigger] s[i], v); assert(inr(s1[i], v)); }
                if inr(x, v) { assert(inr(s1[idx], v)); }
            }
            // the set grew: the first element after s[idx] lies in x and was not covered
            let w = s[idx].end;
            assert(inr(x, w));
            assert(!contains(s, w)) by {
                if contains(s, w) {
                    let i = choose|i: int| 0 <= i < s.len() && inr(#[trigger] s[i], w);
                    if i < idx { assert(s[i].end < x.start); } else if i > idx { assert(s[idx].end < s[i].start); }
                }
            }
}
pub proof fn lemma_spec_insert(s: RS, x: Range<u64>, idx: int)
    requires wf(s), is_pp(s, x.start, idx), x.start < x.end
    ensures
        wf(spec_insert_at(s, x, idx).0),
        forall|v: u64| contains(spec_insert_at(s, x, idx).0, v) <==> (contains(s, v) || inr(x, v)),
        spec_insert_at(s, x, idx).1 <==> exists|v: u64| inr(x, v) && !contains(s, v),
{
    if idx == s.len() { lemma_case_push(s, x, idx); } else if x.end < s[idx].start { lemma_case_insert(s, x, idx); } else if x.end <= s[idx].end { lemma_case_contained(s, x, idx); } else { lemma_case_merge(s, x, idx); }
}
/// number of leading ranges that end strictly before `p`
pub open spec fn pp(s: RS, p: u64) -> int decreases s.len() {
    if s.len() == 0 { 0 } else if s[0].end < p { 1 + pp(s.skip(1), p) } else { 0 }
}
pub proof fn lemma_pp_unique(s: RS, p: u64, idx: int)
    requires is_pp(s, p, idx)
    ensures pp(s, p) == idx
    decreases s.len()
{
    if s.len() == 0 { } else if idx == 0 { assert(s[0].end >= p); } else {
        assert(s[0].end < p);
        assert forall|i: int| 0 <= i < idx - 1 implies (#[trigger] s.skip(1)[i]).end < p by { assert(s.skip(1)[i] == s[i + 1]); }
        assert forall|i: int| idx - 1 <= i < s.skip(1).len() implies (#[trigger] s.skip(1)[i]).end >= p by { assert(s.skip(1)[i] == s[i + 1]); }
        lemma_pp_unique(s.skip(1), p, idx - 1);
    }
}

/// the model with the partition point computed (what the code computes with `partition_point`)
pub open spec fn spec_insert(s: RS, x: Range<u64>) -> (RS, bool) { spec_insert_at(s, x, pp(s, x.start)) }
pub proof fn lemma_pp_is_pp(s: RS, p: u64)
    requires wf(s)
    ensures is_pp(s, p, pp(s, p))
    decreases s.len()
{
    if s.len() == 0 { } else if s[0].end < p {
        assert(wf(s.skip(1))) by {
            assert forall|i: int| 0 <= i < s.skip(1).len() implies (#[trigger] s.skip(1)[i]).start < s.skip(1)[i].end by { assert(s.skip(1)[i] == s[i + 1]); }
            assert forall|i: int, j: int| 0 <= i < j < s.skip(1).len() implies (#[trigger] s.skip(1)[i]).end < (#[trigger] s.skip(1)[j]).start by { assert(s.skip(1)[i] == s[i + 1]); assert(s.skip(1)[j] == s[j + 1]); }
        }
        lemma_pp_is_pp(s.skip(1), p);
        let k = pp(s.skip(1), p);
        assert forall|i: int| 0 <= i < 1 + k implies (#[trigger] s[i]).end < p by { if i > 0 { assert(s.skip(1)[i - 1] == s[i]); } }
        assert forall|i: int| 1 + k <= i < s.len() implies (#[trigger] s[i]).end >= p by { assert(s.skip(1)[i - 1] == s[i]); }
    } else {
        assert forall|i: int| 0 <= i < s.len() implies (#[trigger] s[i]).end >= p by { if i > 0 { assert(s[0].end < s[i].start); } }
    }
}
/// THE set-level contract of insert, about the model the code is proved equal to:
/// well-formedness preserved; membership afterwards = membership before or in x; result true iff the set grew
pub proof fn lemma_insert_contract(s: RS, x: Range<u64>)
    requires wf(s)
    ensures
        wf(spec_insert(s, x).0),
        forall|v: u64| contains(spec_insert(s, x).0, v) <==> (contains(s, v) || inr(x, v)),
        spec_insert(s, x).1 <==> exists|v: u64| inr(x, v) && !contains(s, v),
{
    if x.start < x.end {
        lemma_pp_is_pp(s, x.start);
        lemma_spec_insert(s, x, pp(s, x.start));
    } else {
        assert(forall|v: u64| !inr(x, v));
    }
}
}
pub mod code {
use super::*; use super::shims::*; use super::spec::*;
broadcast use axiom_range_is_empty_u64;
//@ extract quinn-proto/src/range_set/array_range_set.rs :: struct ArrayRangeSet
//@ derive
//@ replace ARRAY_RANGE_SET_INLINE_CAPACITY => 2
//@ end
impl ArrayRangeSet {
//@ extract quinn-proto/src/range_set/array_range_set.rs :: impl ArrayRangeSet::fn len
//@ ret r
//@ contract
        ensures r == self.0@.len()
//@ end
//@ extract quinn-proto/src/range_set/array_range_set.rs :: impl ArrayRangeSet::fn is_empty
//@ ret r
//@ contract
        ensures r == (self.0@.len() == 0)
//@ end
//@ extract quinn-proto/src/range_set/array_range_set.rs :: impl ArrayRangeSet::fn pop_min
//@ ret r
//@ contract
        requires wf(old(self).0@)
        ensures wf(final(self).0@),
            match r {
                // the smallest range leaves the set, everything else stays
                Some(m) => old(self).0@.len() > 0 && m == old(self).0@[0] && final(self).0@ =~= old(self).0@.skip(1),
                None => old(self).0@.len() == 0 && final(self).0@ == old(self).0@,
            }
//@ at-start
        proof { assert(old(self).0@.len() > 0 ==> old(self).0@.remove(0) =~= old(self).0@.skip(1)); }
//@ end
//@ extract quinn-proto/src/range_set/array_range_set.rs :: impl ArrayRangeSet::fn insert_one
//@ ret res
//@ contract
        requires wf(old(self).0@), x < u64::MAX
        ensures final(self).0@ == spec_insert(old(self).0@, x..(x + 1) as u64).0, res == spec_insert(old(self).0@, x..(x + 1) as u64).1,
//@ end
//@ extract quinn-proto/src/range_set/array_range_set.rs :: impl ArrayRangeSet::fn remove
//@ props C03
//@ ret res
//@ closure 0 : &Range<u64> -> (b: bool)
        ensures b == (r.end <= x.start)
//@ contract
        requires wf(old(self).0@),
        // taken from what "remove" means: exactly set difference, still a well-formed range set, result = "something was removed";
        // no index out of bounds, no arithmetic overflow, the loop terminates (this is what the ACK-of-ACK path of a peer reaches)
        ensures wf(final(self).0@),
            forall|v: u64| #[trigger] contains(final(self).0@, v) <==> (contains(old(self).0@, v) && !inr(x, v)),
            res <==> exists|v: u64| inr(x, v) && contains(old(self).0@, v),
//@ after let mut idx = self.0.partition_point(
        proof { assert(rm_inv(old(self).0@, self.0@, x, idx as int, result)); }
//@ loop 0
            invariant
                x.start < x.end,
                rm_inv(old(self).0@, self.0@, x, idx as int, result),
            ensures
                idx == self.0@.len() || x.end <= self.0@[idx as int].start,
            decreases self.0@.len() - idx
//@ before result = true;
            let ghost cur_b = self.0@;
            let ghost idx_b = idx as int;
            proof { lemma_rm_step(old(self).0@, cur_b, x, idx_b, result); }
//@ loop-end 0
            proof { assert(self.0@ =~= rm_step(cur_b, x, idx_b).0); assert(idx as int == rm_step(cur_b, x, idx_b).1); }
//@ after while idx != self.0.len()
        proof { lemma_rm_exit(old(self).0@, self.0@, x, idx as int, result); }
//@ end
//@ extract quinn-proto/src/range_set/array_range_set.rs :: impl ArrayRangeSet::fn insert
//@ ret res
//@ closure 0 : &Range<u64> -> (b: bool)
        ensures b == (r.end < x.start)
//@ contract
        requires wf(old(self).0@),
        // shape layer: the real body computes exactly the model; lemma_insert_contract (ghost layer) says what the model means
        ensures final(self).0@ == spec_insert(old(self).0@, x).0, res == spec_insert(old(self).0@, x).1,
//@ after let idx = self.0.partition_point(
        proof {
            assert(is_pp(old(self).0@, x.start, idx as int));
            lemma_pp_unique(old(self).0@, x.start, idx as int);
        }
//@ before return result;
            proof { assert(self.0@ =~= spec_insert(old(self).0@, x).0); }
//@ after range.end = x.end;
        let ghost s_entry = self.0@;
        proof { assert(s_entry =~= old(self).0@.update(idx as int, Range { start: if old(self).0@[idx as int].start > x.start { x.start } else { old(self).0@[idx as int].start }, end: x.end })); }
//@ loop 0
            invariant
                idx < self.0@.len(),
                merge_from(self.0@, idx as int) == merge_from(s_entry, idx as int),
            ensures
                self.0@ == merge_from(s_entry, idx as int),
            decreases self.0@.len()
//@ after let next = self.0[idx + 1].clone();
            let ghost s_before = self.0@;
            assert(curr == s_before[idx as int]);
            assert(next == s_before[idx + 1]);
//@ after self.0.remove(idx + 1);
                proof {
                    assert(self.0@ =~= s_before.update(idx as int, Range { start: s_before[idx as int].start, end: umax(s_before[idx + 1].end, s_before[idx as int].end) }).remove(idx + 1));
                }
//@ end
}
}
}
fn main() {}
