//! unit: recv -- the receiving half of a stream: flow-control and final-size enforcement, stop/reset tables
//! props: C06 C11 C01 C03
//! cross-unit: shims::Assembler::{new,reinit,clear,bytes_read,ensure_ordering,read,insert} are proved on the real Assembler in unit assembler (insert's allocation-estimate bound is not carried over; the insert log is ghost bookkeeping of this unit)
#![allow(unused_imports, dead_code, non_camel_case_types, non_snake_case, unused_variables, unused_mut, unused_assignments)]
use vstd::prelude::*;
use std::mem;
verus! {
global size_of usize == 8;
pub mod shims {
use super::*;
#[verifier::external_body] pub struct Bytes { inner: Vec<u8> }
impl View for Bytes { type V = Seq<u8>; uninterp spec fn view(&self) -> Seq<u8>; }
impl Bytes { #[verifier::external_body] pub fn len(&self) -> (r: usize) ensures r == self@.len() { unimplemented!() } }
pub assume_specification<T> [std::mem::replace] (dest: &mut T, src: T) -> (r: T)
    ensures r == *old(dest), *final(dest) == src;
pub assume_specification [u64::pow] (b: u64, e: u32) -> (r: u64)
    ensures (b == 2 && e == 62) ==> r == 0x4000_0000_0000_0000u64;
#[derive(Copy, Clone, PartialEq, Eq)] pub struct VarInt(pub u64);
impl VarInt { pub const fn into_inner(self) -> (r: u64) ensures r == self.0 { self.0 } }
impl From<VarInt> for u64 { fn from(x: VarInt) -> (r: u64) ensures r == x.0 { x.0 } }
impl vstd::std_specs::convert::FromSpecImpl<VarInt> for u64 { open spec fn obeys_from_spec() -> bool { true } open spec fn from_spec(v: VarInt) -> u64 { v.0 } }
#[derive(Copy, Clone)] pub struct StreamId(pub u64);
pub mod frame { use super::*; pub struct Stream { pub id: StreamId, pub offset: u64, pub fin: bool, pub data: Bytes } }
#[derive(Copy, Clone, PartialEq, Eq)] pub enum Code { FLOW_CONTROL_ERROR, FINAL_SIZE_ERROR, INTERNAL_ERROR }
pub struct TransportError { pub code: Code }
impl TransportError {
    #[allow(non_snake_case)] pub fn FLOW_CONTROL_ERROR(_r: &'static str) -> (r: Self) ensures r.code == Code::FLOW_CONTROL_ERROR { TransportError { code: Code::FLOW_CONTROL_ERROR } }
    #[allow(non_snake_case)] pub fn FINAL_SIZE_ERROR(_r: &'static str) -> (r: Self) ensures r.code == Code::FINAL_SIZE_ERROR { TransportError { code: Code::FINAL_SIZE_ERROR } }
    #[allow(non_snake_case)] pub fn INTERNAL_ERROR(_r: &'static str) -> (r: Self) ensures r.code == Code::INTERNAL_ERROR { TransportError { code: Code::INTERNAL_ERROR } }
}
pub struct TooManyChunks;
pub struct ClosedStream { pub _private: () }
pub struct ShouldTransmit(pub bool);
/// frames waiting to be (re)sent, as far as Chunks looks at them
#[verifier::external_body] pub struct StreamIdSet { x: u8 }
impl StreamIdSet { #[verifier::external_body] pub fn insert(&mut self, id: StreamId) -> bool { unimplemented!() } }
pub struct Retransmits { pub max_data: bool, pub max_stream_data: StreamIdSet }
#[verifier::external_body] pub struct StreamsInner { x: u8 }
/// opaque here (its arithmetic is verified in unit streams_state): freeing a receive half, connection-level credit, stream storage
pub struct StreamsState { pub stream_receive_window: u64, pub inner: StreamsInner }
impl StreamsState {
    pub open spec fn freed_count(&self) -> nat { inner_freed(self.inner) }
    /// total connection-level credit returned through add_read_credits so far
    pub open spec fn credits(&self) -> nat { inner_credits(self.inner) }
    /// the receive half stored for a stream (once a lazily created one has been materialised)
    pub open spec fn stored(&self, id: StreamId) -> Option<super::code::Recv> { inner_stored(self.inner, id) }
    #[verifier::external_body] pub fn stream_recv_freed(&mut self, id: StreamId, recv: super::code::StreamRecv)
        ensures final(self).freed_count() == old(self).freed_count() + 1, final(self).credits() == old(self).credits(),
            final(self).stream_receive_window == old(self).stream_receive_window { unimplemented!() }
    #[verifier::external_body] pub fn queue_max_stream_id(&mut self, pending: &mut Retransmits) -> (r: bool)
        ensures final(self).credits() == old(self).credits(), final(self).freed_count() == old(self).freed_count(),
            final(self).stream_receive_window == old(self).stream_receive_window, forall|i: StreamId| final(self).stored(i) == old(self).stored(i) { unimplemented!() }
    /// contract proved on the real function in unit streams_state (there in terms of local_max_data and the shrink debt)
    #[verifier::external_body] pub fn add_read_credits(&mut self, credits: u64) -> (r: ShouldTransmit)
        ensures final(self).credits() == old(self).credits() + credits, final(self).freed_count() == old(self).freed_count(),
            final(self).stream_receive_window == old(self).stream_receive_window, forall|i: StreamId| final(self).stored(i) == old(self).stored(i) { unimplemented!() }
}
pub uninterp spec fn inner_freed(i: StreamsInner) -> nat;
pub uninterp spec fn inner_credits(i: StreamsInner) -> nat;
pub uninterp spec fn inner_stored(i: StreamsInner, id: StreamId) -> Option<super::code::Recv>;
/// `streams.recv.entry(id)` when occupied: exclusive access to one stream's slot (`fut` is a prophecy: the storage once the entry is
/// gone; same modelling as in unit streams_state)
#[verifier::external_body] pub struct RecvOcc<'a> { m: &'a mut StreamsInner }
impl<'a> RecvOcc<'a> {
    pub uninterp spec fn cur(&self) -> super::code::Recv;
    pub uninterp spec fn key(&self) -> StreamId;
    pub uninterp spec fn base(&self) -> StreamsInner;
    pub uninterp spec fn fut(&self) -> StreamsInner;
    pub uninterp spec fn removed(&self) -> bool;
    /// `get_or_insert_recv(window)(entry.get_mut())`
    #[verifier::external_body] pub fn get_recv<'b>(&'b mut self, window: u64) -> (r: &'b mut super::code::Recv)
        requires !old(self).removed()
        ensures *r == old(self).cur(), final(self).cur() == *final(r), final(self).key() == old(self).key(), final(self).fut() == old(self).fut(),
            final(self).base() == old(self).base(), !final(self).removed()
    { unimplemented!() }
    /// `entry.remove().unwrap().into_inner()` (borrowing instead of consuming: see the note on RecvOcc::remove in unit streams_state)
    #[verifier::external_body] pub fn take(&mut self) -> (r: Box<super::code::Recv>)
        requires !old(self).removed()
        ensures *r == old(self).cur(), final(self).removed(), final(self).key() == old(self).key(), final(self).fut() == old(self).fut(), final(self).base() == old(self).base()
    { unimplemented!() }
}
/// when the entry is gone the storage holds its (possibly modified) stream, or nothing for that id if it was taken; nothing else moved
#[verifier::external_body]
pub broadcast proof fn axiom_recv_occ_resolved<'a>(e: RecvOcc<'a>)
    ensures #[trigger] has_resolved(e) ==> inner_stored(e.fut(), e.key()) == (if e.removed() { None } else { Some(e.cur()) })
        && (forall|i: StreamId| i != e.key() ==> inner_stored(e.fut(), i) == inner_stored(e.base(), i))
        && inner_credits(e.fut()) == inner_credits(e.base()) && inner_freed(e.fut()) == inner_freed(e.base())
{}
/// `match streams.recv.entry(id) { Occupied(e) => e, Vacant(_) => .. }`
#[verifier::external_body]
pub fn recv_occupied<'a>(m: &'a mut StreamsInner, id: StreamId) -> (r: Option<RecvOcc<'a>>)
    ensures match r {
        Some(e) => inner_stored(*old(m), id) == Some(e.cur()) && e.key() == id && *final(m) == e.fut() && e.base() == *old(m) && !e.removed(),
        None => inner_stored(*old(m), id).is_none() && *final(m) == *old(m),
    }
{ unimplemented!() }
/// `self.streams.recv.insert(self.id, Some(StreamRecv::Open(rs)))`: the stream goes back into storage
#[verifier::external_body] pub fn recv_put(st: &mut StreamsState, id: StreamId, rs: Box<super::code::Recv>)
    ensures final(st).stored(id) == Some(*rs), forall|i: StreamId| i != id ==> final(st).stored(i) == old(st).stored(i),
        final(st).credits() == old(st).credits(), final(st).freed_count() == old(st).freed_count(), final(st).stream_receive_window == old(st).stream_receive_window
{ unimplemented!() }
/// contract boundary: every clause below is proved on the real Assembler in unit `assembler` (there `wf_spec` is Assembler::wf,
/// `ordered_spec` is `state is Ordered`, `empty_spec` is an empty heap); the one thing not carried over is insert's
/// machine-arithmetic precondition (allocation estimates fit usize)
#[verifier::external_body] pub struct Assembler { x: u8 }
pub struct IllegalOrderedRead;
impl Assembler {
    pub uninterp spec fn wf_spec(&self) -> bool;
    pub uninterp spec fn ordered_spec(&self) -> bool;
    pub uninterp spec fn bytes_read_spec(&self) -> u64;
    /// highest stream offset ever inserted (Assembler::end)
    pub uninterp spec fn end_spec(&self) -> u64;
    /// nothing buffered
    pub uninterp spec fn empty_spec(&self) -> bool;
    /// ghost history of everything handed to the assembler: (offset, bytes) per insert
    pub uninterp spec fn log(&self) -> Seq<(u64, Seq<u8>)>;
    /// Assembler::wf implies bytes_read <= end <= 2^62
    #[verifier::external_body] pub proof fn lemma_wf_bounds(&self)
        ensures self.wf_spec() ==> self.bytes_read_spec() <= self.end_spec() && self.end_spec() <= 0x4000_0000_0000_0000 {}
    #[verifier::external_body] pub fn new() -> (r: Self) ensures r.wf_spec(), r.ordered_spec(), r.bytes_read_spec() == 0, r.end_spec() == 0, r.empty_spec() { unimplemented!() }
    #[verifier::external_body] pub fn reinit(&mut self) ensures final(self).wf_spec(), final(self).ordered_spec(), final(self).bytes_read_spec() == 0, final(self).end_spec() == 0, final(self).empty_spec() { unimplemented!() }
    #[verifier::external_body] pub fn clear(&mut self)
        requires old(self).wf_spec()
        ensures final(self).wf_spec(), final(self).ordered_spec() == old(self).ordered_spec(), final(self).bytes_read_spec() == old(self).bytes_read_spec(),
            final(self).end_spec() == old(self).end_spec(), final(self).empty_spec() { unimplemented!() }
    #[verifier::external_body] pub fn bytes_read(&self) -> (r: u64) ensures r == self.bytes_read_spec() { unimplemented!() }
    #[verifier::external_body] pub fn ensure_ordering(&mut self, ordered: bool) -> (r: Result<(), IllegalOrderedRead>)
        requires old(self).wf_spec()
        ensures final(self).wf_spec(), final(self).bytes_read_spec() == old(self).bytes_read_spec(), final(self).end_spec() == old(self).end_spec(),
            match r { Ok(_) => final(self).ordered_spec() == ordered && (old(self).empty_spec() ==> final(self).empty_spec()), Err(_) => ordered && !old(self).ordered_spec() && *final(self) == *old(self) }
    { unimplemented!() }
    /// a read hands out at most max_length bytes of data that was inserted (so never beyond `end`), advances bytes_read by exactly
    /// what it hands out, in ordered mode hands out the chunk at the read index, and hands out nothing when nothing is buffered
    #[verifier::external_body] pub fn read(&mut self, max_length: usize, ordered: bool) -> (r: Option<super::code::Chunk>)
        requires old(self).wf_spec(), ordered == old(self).ordered_spec()
        ensures final(self).wf_spec(), final(self).ordered_spec() == old(self).ordered_spec(), final(self).end_spec() == old(self).end_spec(),
            final(self).bytes_read_spec() <= final(self).end_spec(),
            old(self).empty_spec() ==> r.is_none() && final(self).empty_spec(),
            match r { Some(c) => c.bytes@.len() <= max_length && final(self).bytes_read_spec() == old(self).bytes_read_spec() + c.bytes@.len()
                            && (ordered ==> c.offset == old(self).bytes_read_spec()) && c.offset + c.bytes@.len() <= old(self).end_spec(),
                      None => final(self).bytes_read_spec() == old(self).bytes_read_spec() } { unimplemented!() }
    #[verifier::external_body] pub fn insert(&mut self, offset: u64, bytes: Bytes, allocation_size: usize) -> (r: Result<(), TooManyChunks>)
        requires old(self).wf_spec(), offset + bytes@.len() <= 0x4000_0000_0000_0000, bytes@.len() <= allocation_size, bytes@.len() <= 0xffff_ffff
        ensures final(self).wf_spec(), final(self).ordered_spec() == old(self).ordered_spec(), final(self).bytes_read_spec() == old(self).bytes_read_spec(),
            final(self).log() == old(self).log().push((offset, bytes@)),
            final(self).end_spec() == (if offset + bytes@.len() > old(self).end_spec() { (offset + bytes@.len()) as u64 } else { old(self).end_spec() }) { unimplemented!() }
}
}
pub mod code {
use super::*; use super::shims::*;

//@ extract quinn-proto/src/connection/streams/recv.rs :: struct Recv
//@ derive
//@ end
//@ extract quinn-proto/src/connection/streams/recv.rs :: enum RecvState
//@ derive Copy Clone
//@ end
//@ extract quinn-proto/src/connection/assembler.rs :: struct Chunk
//@ derive
//@ end
//@ extract quinn-proto/src/connection/streams/state.rs :: enum StreamRecv
//@ derive
//@ end
//@ extract quinn-proto/src/connection/streams/recv.rs :: enum ChunksState
//@ derive
//@ end
//@ extract quinn-proto/src/connection/streams/recv.rs :: enum ReadError
//@ derive
//@ end
//@ extract quinn-proto/src/connection/streams/recv.rs :: enum ReadableError
//@ derive
//@ end
impl vstd::std_specs::convert::FromSpecImpl<IllegalOrderedRead> for ReadableError {
    open spec fn obeys_from_spec() -> bool { true }
    open spec fn from_spec(v: IllegalOrderedRead) -> Self { ReadableError::IllegalOrderedRead }
}
impl From<IllegalOrderedRead> for ReadableError {
//@ extract quinn-proto/src/connection/streams/recv.rs :: impl From<IllegalOrderedRead> for ReadableError::fn from
//@ ret r
//@ contract
        ensures r == ReadableError::IllegalOrderedRead
//@ end
}
//@ extract quinn-proto/src/connection/streams/recv.rs :: struct Chunks
//@ end
impl Default for RecvState {
//@ extract quinn-proto/src/connection/streams/recv.rs :: impl Default for RecvState::fn default
//@ ret r
//@ contract
        ensures r == (RecvState::Recv { size: None })
//@ end
}
impl Recv {
    pub open spec fn final_size(&self) -> Option<u64> {
        match self.state { RecvState::Recv { size } => size, RecvState::ResetRecvd { size, .. } => Some(size) }
    }
    /// representation invariant: bytes_read <= end <= advertised limit < 2^62, and a known final size is never below data already received
    pub open spec fn wf(&self) -> bool {
        &&& self.assembler.wf_spec()
        &&& self.assembler.bytes_read_spec() <= self.assembler.end_spec()
        &&& self.assembler.end_spec() <= self.end
        &&& (self.state is ResetRecvd ==> self.assembler.empty_spec())
        &&& self.end <= self.sent_max_stream_data
        &&& self.sent_max_stream_data < 0x4000_0000_0000_0000
        &&& (self.final_size().is_some() ==> self.end <= self.final_size().unwrap() && self.final_size().unwrap() < 0x4000_0000_0000_0000)
    }
    pub open spec fn wf_w(&self, window: u64) -> bool {
        &&& self.wf()
        &&& self.sent_max_stream_data <= self.assembler.bytes_read_spec() + window
        &&& window < 0x4000_0000_0000_0000
    }
//@ extract quinn-proto/src/connection/streams/recv.rs :: impl Recv::fn new
//@ ret r
//@ contract
        requires initial_max_data < 0x4000_0000_0000_0000
        ensures r.wf(), r.end == 0, !r.stopped, r.sent_max_stream_data == initial_max_data, r.final_size().is_none(), r.state is Recv
//@ end
//@ extract quinn-proto/src/connection/streams/recv.rs :: impl Recv::fn reinit
//@ contract
        requires initial_max_data < 0x4000_0000_0000_0000
        ensures final(self).wf(), final(self).end == 0, !final(self).stopped, final(self).sent_max_stream_data == initial_max_data,
            final(self).final_size().is_none(), final(self).state is Recv
//@ end
//@ extract quinn-proto/src/connection/streams/recv.rs :: impl Recv::fn ingest
//@ ret res
//@ closure 0 : TooManyChunks -> (r: TransportError)
        ensures r.code == Code::INTERNAL_ERROR
//@ contract
        requires
            old(self).wf(),
            // StreamsState::received drops frames for a stream that is no longer receiving before it gets here
            old(self).state is Recv,
            frame.offset < 0x4000_0000_0000_0000, frame.data@.len() < 0x1_0000_0000,
            // the frame's data is a slice of the packet payload (Assembler::insert debug-asserts the same)
            frame.data@.len() <= payload_len,
            received <= max_data < 0x4000_0000_0000_0000,
        ensures
            final(self).wf(),
            final(self).sent_max_stream_data == old(self).sent_max_stream_data, final(self).stopped == old(self).stopped,
            match res {
                Ok((n, closed)) => {
                    let end = (frame.offset + frame.data@.len()) as u64;
                    &&& end <= old(self).sent_max_stream_data                       // never beyond the advertised stream limit
                    &&& received + n <= max_data                                     // never beyond the connection limit
                    &&& n == (if end > old(self).end { end - old(self).end } else { 0 })
                    &&& final(self).end == (if end > old(self).end { end } else { old(self).end })
                    &&& (old(self).final_size().is_some() ==> end <= old(self).final_size().unwrap() && (frame.fin ==> end == old(self).final_size().unwrap()))
                    &&& (frame.fin ==> end >= old(self).end)                         // a final size below data already received is refused
                    &&& closed == (frame.fin && old(self).stopped)
                    &&& (frame.fin && !old(self).stopped && old(self).state is Recv ==> final(self).final_size() == Some(end))
                    &&& (!(frame.fin && !old(self).stopped) ==> final(self).state == old(self).state)
                    // every accepted frame of a stream that is still being read is handed to the reassembly buffer, whole and at its offset;
                    // nothing is handed over once the application stopped the stream
                    &&& (!old(self).stopped ==> final(self).assembler.log() == old(self).assembler.log().push((frame.offset, frame.data@)))
                    &&& (old(self).stopped ==> final(self).assembler.log() == old(self).assembler.log())
                },
                Err(e) => {
                    let end = frame.offset + frame.data@.len();
                    ||| e.code == Code::FLOW_CONTROL_ERROR && (end >= 0x4000_0000_0000_0000 || end > old(self).sent_max_stream_data
                            || received + (if end > old(self).end { end - old(self).end } else { 0 }) > max_data)
                    ||| e.code == Code::FINAL_SIZE_ERROR && ((old(self).final_size().is_some() && (end > old(self).final_size().unwrap() || (frame.fin && end != old(self).final_size().unwrap())))
                            || (frame.fin && end < old(self).end))
                    ||| e.code == Code::INTERNAL_ERROR && !old(self).stopped
                },
            },
//@ end
//@ extract quinn-proto/src/connection/streams/recv.rs :: impl Recv::fn stop
//@ ret res
//@ contract
        requires old(self).wf()
        ensures final(self).wf(),
            match res {
                // credit for what was received and not read -- unless a RESET_STREAM already returned credit for the whole stream
                // (StreamsState::received_reset credits everything up to the final size)
                Ok((credits, t)) => !old(self).stopped && final(self).stopped
                    && credits == (if old(self).state is ResetRecvd { 0 } else { old(self).end - old(self).assembler.bytes_read_spec() })
                    && final(self).state == old(self).state && final(self).end == old(self).end && t.0 == (old(self).state is Recv),
                Err(_) => old(self).stopped && *final(self) == *old(self),
            }
//@ end
//@ extract quinn-proto/src/connection/streams/recv.rs :: impl Recv::fn max_stream_data
//@ ret res
//@ contract
        requires old(self).wf_w(stream_receive_window)
        ensures *final(self) == *old(self), res.0 == old(self).assembler.bytes_read_spec() + stream_receive_window,
            res.1.0 == ((old(self).state == RecvState::Recv { size: None }) && !old(self).stopped
                && res.0 - old(self).sent_max_stream_data >= stream_receive_window / 8)
//@ end
//@ extract quinn-proto/src/connection/streams/recv.rs :: impl Recv::fn record_sent_max_stream_data
//@ contract
        ensures final(self).sent_max_stream_data == (if sent_value > old(self).sent_max_stream_data { sent_value } else { old(self).sent_max_stream_data }),
            final(self).state == old(self).state, final(self).end == old(self).end, final(self).stopped == old(self).stopped, final(self).assembler == old(self).assembler
//@ end
//@ extract quinn-proto/src/connection/streams/recv.rs :: impl Recv::fn final_offset_unknown
//@ ret r
//@ contract
        ensures r == (self.state == RecvState::Recv { size: None })
//@ end
//@ extract quinn-proto/src/connection/streams/recv.rs :: impl Recv::fn can_send_flow_control
//@ ret r
//@ contract
        ensures r == ((self.state == RecvState::Recv { size: None }) && !self.stopped)
//@ end
//@ extract quinn-proto/src/connection/streams/recv.rs :: impl Recv::fn is_receiving
//@ ret r
//@ contract
        ensures r == (self.state is Recv)
//@ end
//@ extract quinn-proto/src/connection/streams/recv.rs :: impl Recv::fn final_offset
//@ ret r
//@ contract
        ensures r == self.final_size()
//@ end
//@ extract quinn-proto/src/connection/streams/recv.rs :: impl Recv::fn reset
//@ ret res
//@ contract
        requires old(self).wf(), received <= max_data < 0x4000_0000_0000_0000, final_offset.0 < 0x4000_0000_0000_0000
        ensures final(self).wf(),
            match res {
                Ok(fresh) => {
                    &&& final_offset.0 <= old(self).sent_max_stream_data
                    &&& final_offset.0 >= old(self).end
                    &&& received + (final_offset.0 - old(self).end) <= max_data
                    &&& (old(self).final_size().is_some() ==> old(self).final_size().unwrap() == final_offset.0)
                    &&& fresh == !(old(self).state is ResetRecvd)
                    &&& (fresh ==> final(self).state == RecvState::ResetRecvd { size: final_offset.0, error_code })
                    &&& (!fresh ==> *final(self) == *old(self))
                    &&& final(self).end == old(self).end && final(self).stopped == old(self).stopped && final(self).sent_max_stream_data == old(self).sent_max_stream_data
                },
                Err(e) => *final(self) == *old(self) && (
                    (e.code == Code::FINAL_SIZE_ERROR && (match old(self).final_size() { Some(s) => s != final_offset.0, None => old(self).end > final_offset.0 }))
                    || (e.code == Code::FLOW_CONTROL_ERROR && (final_offset.0 > old(self).sent_max_stream_data
                        || received + (if final_offset.0 > old(self).end { final_offset.0 - old(self).end } else { 0 }) > max_data))),
            }
//@ end
//@ extract quinn-proto/src/connection/streams/recv.rs :: impl Recv::fn reset_code
//@ ret r
//@ contract
        ensures r == (match self.state { RecvState::ResetRecvd { error_code, .. } => Some(error_code), _ => None })
//@ end
//@ extract quinn-proto/src/connection/streams/recv.rs :: impl Recv::fn credit_consumed_by
//@ ret res
//@ contract
        requires received <= max_data < 0x4000_0000_0000_0000, offset < 0x4000_0000_0000_0000
        ensures match res {
            Ok(n) => offset <= self.sent_max_stream_data && received + n <= max_data && n == (if offset > self.end { offset - self.end } else { 0 }),
            Err(e) => e.code == Code::FLOW_CONTROL_ERROR && (offset > self.sent_max_stream_data || received + (if offset > self.end { offset - self.end } else { 0 }) > max_data),
        }
//@ end
}
impl Chunk {
//@ extract quinn-proto/src/connection/assembler.rs :: impl Chunk::fn new
//@ ret r
//@ contract
        ensures r.offset == offset, r.bytes == bytes
//@ end
}
impl<'a> Chunks<'a> {
    pub open spec fn inv(&self) -> bool {
        // `ordered` is what Chunks::new (hash-map glue, not extracted) passed to Assembler::ensure_ordering before building the value
        match self.state { ChunksState::Readable(rs) => rs.wf() && (rs.state is ResetRecvd ==> self.read == 0) && self.ordered == rs.assembler.ordered_spec(), _ => true }
    }
//@ extract quinn-proto/src/connection/streams/recv.rs :: impl Chunks<'a>::fn new
//@ props C11 C01
//@ ret res
//@ replace ws:match streams.recv.entry(id) { Entry::Occupied(entry) => entry, Entry::Vacant(_) => return Err(ReadableError::ClosedStream), } ==>> match recv_occupied(&mut streams.inner, id) { Some(entry) => entry, None => return Err(ReadableError::ClosedStream) }
//@ replace get_or_insert_recv(streams.stream_receive_window)(entry.get_mut()) => entry.get_recv(streams.stream_receive_window)
//@ replace entry.remove().unwrap().into_inner() => entry.take()
//@ at-start
        broadcast use axiom_recv_occ_resolved;
//@ before Ok(Self {
        proof {
            assert(recv.wf());
            assert(recv.assembler.ordered_spec() == ordered);
            assert(streams.stored(id).is_none());
        }
//@ contract
        requires old(streams).stored(id) matches Some(r0) ==> r0.wf(),
        ensures match res {
            // a read takes the receive half out of storage (finalize puts it back) in the mode asked for
            Ok(c) => c.inv() && c.id == id && c.ordered == ordered && c.read == 0
                && (old(streams).stored(id) matches Some(r0) && !r0.stopped && (c.state matches ChunksState::Readable(rs) && rs.stopped == r0.stopped && rs.end == r0.end && rs.state == r0.state))
                && c.streams.stored(id).is_none() && (forall|i: StreamId| i != id ==> c.streams.stored(i) == old(streams).stored(i))
                && c.streams.credits() == old(streams).credits(),
            // a refused read -- unknown or stopped stream, or an ordered read after unordered ones -- leaves every stream where it was
            Err(e) => (forall|i: StreamId| final(streams).stored(i) == old(streams).stored(i)) && final(streams).credits() == old(streams).credits()
                && final(streams).freed_count() == old(streams).freed_count()
                && (e is IllegalOrderedRead ==> ordered && (old(streams).stored(id) matches Some(r0) && !r0.assembler.ordered_spec())),
        }
//@ end
//@ extract quinn-proto/src/connection/streams/recv.rs :: impl Chunks<'a>::fn finalize_inner
//@ props C06 C01
//@ ret r
//@ boolops
//@ replace ws:self.streams .recv .insert(self.id, Some(StreamRecv::Open(rs))) => recv_put(self.streams, self.id, rs)
//@ contract
        requires old(self).inv(),
            old(self).state matches ChunksState::Readable(rs) ==> rs.wf_w(old(self).streams.stream_receive_window),
        ensures final(self).state is Finalized,
            // connection-level credit is returned for exactly the bytes this Chunks handed out, once: a second call (or the Drop after
            // finalize) is a no-op
            final(self).streams.credits() == old(self).streams.credits() + (if old(self).state is Finalized { 0 } else { old(self).read as int }),
            // an unfinished stream goes back into storage unchanged
            old(self).state matches ChunksState::Readable(rs) ==> final(self).streams.stored(old(self).id) == Some(*rs),
//@ end
//@ extract quinn-proto/src/connection/streams/recv.rs :: impl Chunks<'a>::fn next
//@ props C11 C01
//@ ret res
//@ contract
        requires old(self).inv(), !(old(self).state is Finalized), old(self).read < 0x4000_0000_0000_0000, max_length < 0x1_0000_0000,
        ensures
            final(self).inv(),
            match res {
                Ok(Some(c)) => old(self).state is Readable && final(self).state is Readable && final(self).read == old(self).read + c.bytes@.len(),
                // end of stream: only once, and only when the final size is known and every byte below it has been handed out
                Ok(None) => final(self).state is Finished && (old(self).state is Finished || (old(self).state is Readable
                    && old(self).state->Readable_0.state == (RecvState::Recv { size: Some(old(self).state->Readable_0.end) })
                    && old(self).state->Readable_0.assembler.bytes_read_spec() == old(self).state->Readable_0.end
                    && final(self).streams.freed_count() == old(self).streams.freed_count() + 1)),
                // reset: the sender's code, from the stream's reset state; reported again on every later call
                Err(ReadError::Reset(code)) => final(self).state == ChunksState::Reset(code) && (old(self).state == ChunksState::Reset(code)
                    || (old(self).state is Readable && old(self).state->Readable_0.state is ResetRecvd && old(self).state->Readable_0.state->error_code == code
                        && final(self).streams.freed_count() == old(self).streams.freed_count() + 1)),
                Err(ReadError::Blocked) => old(self).state is Readable && final(self).state is Readable && final(self).read == old(self).read
                    && !(old(self).state->Readable_0.state is ResetRecvd),
            },
            // terminal states are absorbing
            old(self).state is Finished ==> res == Ok::<Option<Chunk>, ReadError>(None),
            (old(self).state is Reset) ==> res == Err::<Option<Chunk>, ReadError>(ReadError::Reset(old(self).state->Reset_0)),
//@ end
}
}
}
fn main() {}
