//! unit: send_buffer -- SendBuffer: the bytes put on the wire for an offset are the bytes written at that offset; nothing un-acked is dropped
//! props: C01
//! cross-unit: shims::RangeSet::{insert,min,pop_min,is_empty} are the contract boundary to unit range_sets
//! trusted: axiom_deque_len_bound (allocation limit of VecDeque<Bytes>), Default impl of SendBuffer written out (R7)
#![feature(allocator_api)]
#![allow(unused_imports, dead_code, non_camel_case_types, unused_variables, unused_mut, unused_assignments)]
use vstd::prelude::*;
use std::{collections::VecDeque, ops::Range};
verus! {
global size_of usize == 8;
pub mod shims {
use super::*;
#[verifier::external_body]
pub struct Bytes { inner: Vec<u8> }
impl View for Bytes { type V = Seq<u8>; uninterp spec fn view(&self) -> Seq<u8>; }
impl Bytes {
    #[verifier::external_body]
    pub fn len(&self) -> (r: usize) ensures r == self@.len() { unimplemented!() }
}
impl Bytes {
    #[verifier::external_body]
    pub fn advance(&mut self, cnt: usize) requires cnt <= old(self)@.len() ensures final(self)@ == old(self)@.skip(cnt as int) { unimplemented!() }
}
pub assume_specification<T, A: std::alloc::Allocator> [std::collections::VecDeque::<T, A>::front_mut] (v: &mut std::collections::VecDeque<T, A>) -> (r: std::option::Option<&mut T>)
    ensures match r {
        Some(x) => old(v)@.len() > 0 && *x == old(v)@[0] && final(v)@ == old(v)@.update(0, *final(x)),
        None => old(v)@.len() == 0 && final(v)@ == old(v)@,
    };
pub assume_specification<T, A: std::alloc::Allocator> [std::collections::VecDeque::<T, A>::capacity] (v: &std::collections::VecDeque<T, A>) -> (r: usize);
pub assume_specification<T, A: std::alloc::Allocator> [std::collections::VecDeque::<T, A>::shrink_to_fit] (v: &mut std::collections::VecDeque<T, A>)
    ensures final(v)@ == old(v)@;
/// allocation limit: a VecDeque of 32-byte elements cannot hold more than isize::MAX/32 of them
#[verifier::external_body]
pub broadcast proof fn axiom_deque_len_bound(v: std::collections::VecDeque<Bytes>)
    ensures #[trigger] v@.len() <= 0x03ff_ffff_ffff_ffff {}
impl core::ops::Deref for Bytes {
    type Target = [u8];
    #[verifier::external_body]
    fn deref(&self) -> (r: &[u8]) ensures r@ == self@ { unimplemented!() }
}
#[verifier::external_body] pub struct RangeSet { inner: Vec<u64> }
pub open spec fn rng(a: u64, b: u64) -> ISet<u64> { ISet::new(|v: u64| a <= v < b) }
impl RangeSet {
    pub uninterp spec fn view(&self) -> ISet<u64>;
    #[verifier::external_body]
    pub fn insert(&mut self, x: Range<u64>) -> (r: bool)
        ensures final(self).view() == old(self).view().union(rng(x.start, x.end)) { unimplemented!() }
    #[verifier::external_body]
    pub fn is_empty(&self) -> (r: bool) ensures r == (self.view() == ISet::<u64>::empty()) { unimplemented!() }
    #[verifier::external_body]
    pub fn new() -> (r: Self) ensures r.view() == ISet::<u64>::empty() { unimplemented!() }
    #[verifier::external_body]
    pub fn min(&self) -> (r: Option<u64>)
        ensures match r {
            Some(m) => self.view().contains(m) && forall|v: u64| #[trigger] self.view().contains(v) ==> m <= v,
            None => self.view() == ISet::<u64>::empty() } { unimplemented!() }
    #[verifier::external_body]
    pub fn pop_min(&mut self) -> (r: Option<Range<u64>>)
        ensures match r {
            Some(m) => m.start < m.end
                && (forall|v: u64| #[trigger] old(self).view().contains(v) ==> m.start <= v)
                && (forall|v: u64| m.start <= v < m.end ==> #[trigger] old(self).view().contains(v))
                && !old(self).view().contains(m.end)
                && final(self).view() == old(self).view().difference(rng(m.start, m.end)),
            None => old(self).view() == ISet::<u64>::empty() && final(self).view() == old(self).view() } { unimplemented!() }
}
#[derive(Copy, Clone)] pub struct VarInt(pub u64);
impl VarInt {
    pub const unsafe fn from_u64_unchecked(x: u64) -> (r: Self) ensures r.0 == x { Self(x) }
    #[verifier::external_body]
    pub const fn size(self) -> (r: usize) requires self.0 < 0x4000_0000_0000_0000 ensures r == vsize(self.0) { unimplemented!() }
}
/// bytes a QUIC varint takes (VarInt::size; its real body is under contract in unit frame_codec)
pub open spec fn vsize(x: u64) -> usize { if x < 0x40 { 1 } else if x < 0x4000 { 2 } else if x < 0x4000_0000 { 4 } else { 8 } }
/// bytes the offset field of a STREAM frame takes (omitted for offset 0)
pub open spec fn osize(start: u64) -> usize { if start != 0 { vsize(start) } else { 0 } }
}
pub mod spec {
use super::*; use super::shims::*;
pub open spec fn concat(s: Seq<Bytes>) -> Seq<u8> decreases s.len() {
    if s.len() == 0 { Seq::empty() } else { concat(s.drop_last()) + s.last()@ }
}
pub open spec fn prefix_len(s: Seq<Bytes>, n: int) -> int decreases n {
    if n <= 0 { 0 } else { prefix_len(s, n - 1) + s[n - 1]@.len() }
}
pub proof fn lemma_concat_len(s: Seq<Bytes>)
    ensures concat(s).len() == prefix_len(s, s.len() as int)
    decreases s.len()
{
    if s.len() > 0 {
        lemma_concat_len(s.drop_last());
        lemma_prefix_len_take(s, s.len() - 1);
    }
}
pub proof fn lemma_prefix_len_take(s: Seq<Bytes>, n: int)
    requires 0 <= n <= s.len() - 1
    ensures prefix_len(s.drop_last(), n) == prefix_len(s, n)
    decreases n
{
    if n > 0 { lemma_prefix_len_take(s, n - 1); }
}
/// byte at absolute position p of the concatenation lives in segment i at p - prefix_len(i)
pub proof fn lemma_concat_index(s: Seq<Bytes>, i: int, j: int)
    requires 0 <= i < s.len(), 0 <= j < s[i]@.len()
    ensures prefix_len(s, i) + j < concat(s).len(), concat(s)[prefix_len(s, i) + j] == s[i]@[j]
    decreases s.len()
{
    lemma_concat_len(s);
    lemma_concat_len(s.drop_last());
    if i == s.len() - 1 {
        lemma_prefix_len_take(s, i);
    } else {
        lemma_concat_index(s.drop_last(), i, j);
        lemma_prefix_len_take(s, i);
        lemma_prefix_len_mono(s, i + 1, s.len() - 1);
        lemma_prefix_len_take(s, s.len() - 1);
    }
}
pub proof fn lemma_concat_skip_first(s: Seq<Bytes>)
    requires s.len() > 0
    ensures concat(s.skip(1)) == concat(s).skip(s[0]@.len() as int), concat(s).len() >= s[0]@.len()
    decreases s.len()
{
    if s.len() == 1 {
        assert(s.drop_last() =~= Seq::<Bytes>::empty());
        assert(s.skip(1) =~= Seq::<Bytes>::empty());
        assert(concat(s.drop_last()) =~= Seq::<u8>::empty());
    } else {
        lemma_concat_skip_first(s.drop_last());
        assert(s.skip(1).drop_last() =~= s.drop_last().skip(1));
        assert(s.skip(1).last() == s.last());
        assert(s.drop_last()[0] == s[0]);
    }
}
/// replacing the first segment by a suffix of itself drops that many leading bytes
pub proof fn lemma_concat_advance_first(s: Seq<Bytes>, t: Seq<Bytes>, n: int)
    requires s.len() > 0, t.len() == s.len(), 0 <= n <= s[0]@.len(), t[0]@ == s[0]@.skip(n),
        forall|i: int| 1 <= i < s.len() ==> t[i]@ == s[i]@,
    ensures concat(t) == concat(s).skip(n), concat(s).len() >= n
    decreases s.len()
{
    if s.len() == 1 {
        assert(concat(s.drop_last()) =~= Seq::<u8>::empty()) by { assert(s.drop_last() =~= Seq::<Bytes>::empty()); }
        assert(concat(t.drop_last()) =~= Seq::<u8>::empty()) by { assert(t.drop_last() =~= Seq::<Bytes>::empty()); }
    } else {
        lemma_concat_advance_first(s.drop_last(), t.drop_last(), n);
        lemma_concat_skip_first(s.drop_last());
    }
}
pub proof fn lemma_skip_skip(s: Seq<u8>, a: int, b: int)
    requires 0 <= a, 0 <= b, a + b <= s.len()
    ensures s.skip(a).skip(b) == s.skip(a + b)
{
    assert(s.skip(a).skip(b) =~= s.skip(a + b));
}
pub proof fn lemma_slice_matches(segs: Seq<Bytes>, i: int, start: int, res: Seq<u8>, base: int, off_start: int)
    requires 0 <= i < segs.len(), 0 <= start, start + res.len() <= segs[i]@.len(),
        res == segs[i]@.subrange(start, start + res.len()), off_start == base + prefix_len(segs, i) + start,
    ensures forall|j: int| 0 <= j < res.len() ==> #[trigger] res[j] == concat(segs)[off_start + j - base]
        && base <= off_start + j < base + concat(segs).len(),
{
    assert forall|j: int| 0 <= j < res.len() implies (#[trigger] res[j] == concat(segs)[off_start + j - base]
        && base <= off_start + j < base + concat(segs).len()) by {
        lemma_prefix_len_mono(segs, 0, i);
        lemma_concat_index(segs, i, start + j);
    }
}
pub proof fn lemma_prefix_len_mono(s: Seq<Bytes>, a: int, b: int)
    requires 0 <= a <= b <= s.len()
    ensures prefix_len(s, a) <= prefix_len(s, b)
    decreases b - a
{
    if a < b { lemma_prefix_len_mono(s, a, b - 1); }
}
}
pub mod code {
use super::*; use super::shims::*; use super::spec::*;
broadcast use axiom_deque_len_bound;

//@ extract quinn-proto/src/connection/send_buffer.rs :: struct SendBuffer
//@ derive
//@ end
// R7: `#[derive(Default)]` written out
impl Default for SendBuffer {
    fn default() -> (r: Self)
        ensures r.unacked_segments@ =~= Seq::<Bytes>::empty(), r.unacked_len == 0, r.offset == 0, r.unsent == 0,
            r.acks.view() == ISet::<u64>::empty(), r.retransmits.view() == ISet::<u64>::empty()
    { SendBuffer { unacked_segments: VecDeque::new(), unacked_len: 0, offset: 0, unsent: 0, acks: RangeSet::new(), retransmits: RangeSet::new() } }
}

impl SendBuffer {
    pub open spec fn stored(&self) -> Seq<u8> { concat(self.unacked_segments@) }
    pub open spec fn base(&self) -> int { self.offset - self.unacked_len }
    pub open spec fn wf(&self) -> bool {
        &&& self.unacked_len == self.stored().len()
        &&& self.unacked_len <= self.offset
        &&& self.unsent <= self.offset
        &&& self.offset < 0x4000_0000_0000_0000
        &&& forall|v: u64| #[trigger] self.retransmits.view().contains(v) ==> v < self.unsent
    }
    /// caller discipline (Connection acknowledges a range only through the one in-flight packet that carries it, and a range is queued
    /// for retransmission only once that packet is declared lost): nothing queued for retransmission, and nothing unsent, lies below the
    /// first stored offset
    pub open spec fn rwf(&self) -> bool {
        self.base() <= self.unsent && forall|v: u64| #[trigger] self.retransmits.view().contains(v) ==> self.base() <= v
    }
    pub open spec fn acks_wf(&self) -> bool {
        forall|v: u64| #[trigger] self.acks.view().contains(v) ==> self.base() <= v < self.offset
    }

//@ extract quinn-proto/src/connection/send_buffer.rs :: impl SendBuffer::fn new
//@ ret r
//@ contract
        ensures r.wf(), r.acks_wf(), r.offset == 0, r.unsent == 0, r.stored() =~= Seq::<u8>::empty(), r.unacked_len == 0,
            r.retransmits.view() == ISet::<u64>::empty(),
//@ at-start
        proof { assert(concat(Seq::<Bytes>::empty()) =~= Seq::<u8>::empty()); }
//@ end

//@ extract quinn-proto/src/connection/send_buffer.rs :: impl SendBuffer::fn write
//@ contract
        requires old(self).wf(), old(self).offset + data@.len() < 0x4000_0000_0000_0000
        ensures final(self).wf(),
            final(self).stored() =~= old(self).stored() + data@,
            final(self).base() == old(self).base(),
            final(self).offset == old(self).offset + data@.len(),
            final(self).unsent == old(self).unsent, final(self).retransmits == old(self).retransmits, final(self).acks == old(self).acks,
//@ at-end
        proof { assert(self.unacked_segments@.drop_last() =~= old(self).unacked_segments@); }
//@ end

//@ extract quinn-proto/src/connection/send_buffer.rs :: impl SendBuffer::fn ack
//@ contract
        requires old(self).wf(), old(self).acks_wf(),
            range.start <= range.end <= old(self).offset,
        ensures
            final(self).wf(), final(self).acks_wf(),
            final(self).offset == old(self).offset, final(self).unsent == old(self).unsent, final(self).retransmits == old(self).retransmits,
            old(self).base() <= final(self).base() <= final(self).offset,
            // what is still stored is exactly the old content from the new base on: nothing altered, nothing lost behind the base
            final(self).stored() =~= old(self).stored().skip(final(self).base() - old(self).base()),
            // every byte dropped had been acknowledged (now or earlier)
            forall|v: u64| old(self).base() <= v < final(self).base() ==> #[trigger] old(self).acks.view().contains(v) || range.start <= v < range.end,
//@ loop 0
            invariant
                self.wf(), old(self).wf(),
                self.offset == old(self).offset, self.unsent == old(self).unsent, self.retransmits == old(self).retransmits,
                old(self).base() <= self.base() <= self.offset,
                self.stored() == old(self).stored().skip(self.base() - old(self).base()),
                forall|v: u64| #[trigger] self.acks.view().contains(v) ==> self.base() <= v < self.offset,
                forall|v: u64| old(self).base() <= v < self.base() ==> #[trigger] old(self).acks.view().contains(v) || range.start <= v < range.end,
                forall|v: u64| #[trigger] self.acks.view().contains(v) ==> old(self).acks.view().contains(v) || range.start <= v < range.end,
            decreases self.unacked_len
//@ loop-start 0
            let ghost acks_before = self.acks.view();
            let ghost base_before = self.base();
//@ after let prefix =
            proof {
                assert(acks_before.contains(prefix.start));
                assert(acks_before.contains((prefix.end - 1) as u64));
                assert(prefix.start == base_before);
                assert(prefix.end <= self.offset);
            }
//@ after let mut to_advance
            let ghost s0 = self.stored();
            let ghost adv0 = to_advance;
//@ loop 1
                invariant
                    self.offset == old(self).offset, self.unsent == old(self).unsent, self.retransmits == old(self).retransmits,
                    to_advance <= adv0,
                    self.stored() == s0.skip(adv0 - to_advance),
                    self.stored().len() == self.unacked_len + to_advance,
                    s0.len() == self.unacked_len + adv0,
                decreases to_advance, self.unacked_segments@.len()
//@ loop-start 1
                let ghost segs_before = self.unacked_segments@;
                proof { if segs_before.len() == 0 { assert(concat(segs_before) =~= Seq::<u8>::empty()); } }
//@ after self.unacked_segments.pop_front()
                    proof {
                        lemma_concat_skip_first(segs_before);
                        assert(self.unacked_segments@ =~= segs_before.skip(1));
                        lemma_skip_skip(s0, adv0 - (to_advance + segs_before[0]@.len()), segs_before[0]@.len() as int);
                    }
//@ after front.advance(
                    proof {
                        assert(self.unacked_segments@.len() == segs_before.len());
                        assert(self.unacked_segments@[0]@ == segs_before[0]@.skip(to_advance as int));
                        lemma_concat_advance_first(segs_before, self.unacked_segments@, to_advance as int);
                        lemma_skip_skip(s0, adv0 - to_advance, to_advance as int);
                    }
//@ loop-end 0
            proof {
                lemma_skip_skip(old(self).stored(), base_before - old(self).base(), adv0 as int);
                assert(self.base() == prefix.end);
                assert forall|v: u64| #[trigger] self.acks.view().contains(v) implies self.base() <= v < self.offset by {
                    assert(acks_before.contains(v));
                }
                assert forall|v: u64| old(self).base() <= v < self.base() implies #[trigger] old(self).acks.view().contains(v) || range.start <= v < range.end by {
                    if v >= base_before { assert(acks_before.contains(v)); }
                }
            }
//@ end

//@ extract quinn-proto/src/connection/send_buffer.rs :: impl SendBuffer::fn poll_transmit
//@ ret res
//@ contract
        requires old(self).wf(), max_len >= 8 + 8 + 1,
        ensures
            final(self).wf(),
            final(self).stored() == old(self).stored(), final(self).base() == old(self).base(), final(self).offset == old(self).offset,
            final(self).acks == old(self).acks,
            res.0.start <= res.0.end <= final(self).offset,
            res.0.end - res.0.start <= max_len,
            // exact space accounting: offset field, the data, and 8 bytes set aside for a length field when one is to be written all fit
            // into max_len; a frame without a length field fills max_len exactly (it runs to the end of the packet)
            (res.0.end - res.0.start) + osize(res.0.start) + (if res.1 { 8int } else { 0int }) <= max_len,
            !res.1 ==> (res.0.end - res.0.start) + osize(res.0.start) == max_len,
            // what is handed out is still stored, provided nothing that is queued for retransmission has been acknowledged (rwf)
            old(self).rwf() ==> final(self).rwf() && (res.0.start < res.0.end ==> final(self).base() <= res.0.start),
            // either a retransmission: exactly the returned range leaves the retransmit set, new data untouched
            old(self).retransmits.view() != ISet::<u64>::empty() ==> (
                final(self).unsent == old(self).unsent
                && res.0.start < res.0.end
                && final(self).retransmits.view() =~= old(self).retransmits.view().difference(rng(res.0.start, res.0.end))
                && forall|v: u64| res.0.start <= v < res.0.end ==> #[trigger] old(self).retransmits.view().contains(v)),
            // or new data: the returned range starts at the old `unsent` and `unsent` moves to its end
            old(self).retransmits.view() == ISet::<u64>::empty() ==> (
                res.0.start == old(self).unsent && final(self).unsent == res.0.end
                && final(self).retransmits.view() == old(self).retransmits.view()
                // progress: with data left to send, something is sent
                && (old(self).unsent < old(self).offset ==> res.0.start < res.0.end)),
//@ before if range.start != 0
            proof {
                assert(old(self).retransmits.view().contains(range.start));
                assert(old(self).retransmits.view().contains((range.end - 1) as u64));
                assert(range.end <= old(self).unsent);
            }
//@ before return (range.start..end
            proof {
                assert forall|v: u64| #[trigger] self.retransmits.view().contains(v) implies v < self.unsent by {
                    if end <= v < range.end { assert(old(self).retransmits.view().contains(v)); }
                }
            }
//@ end

//@ extract quinn-proto/src/connection/send_buffer.rs :: impl SendBuffer::fn get
//@ ret r
//@ contract
        requires self.wf(), offsets.start <= offsets.end
        ensures
            r@.len() <= offsets.end - offsets.start,
            // every returned byte is the stored byte at that stream offset
            forall|j: int| 0 <= j < r@.len() ==> #[trigger] r@[j] == self.stored()[offsets.start + j - self.base()]
                && self.base() <= offsets.start + j < self.offset,
            // progress: something is returned whenever the start offset is still stored and the range is non-empty
            (self.base() <= offsets.start < self.offset && offsets.start < offsets.end) ==> r@.len() > 0,
//@ before for segment in
        proof { lemma_concat_len(self.unacked_segments@); }
//@ loop-iter 0 it
//@ loop 0
            invariant
                self.wf(), base_offset == self.base(), offsets.start <= offsets.end,
                segment_offset == base_offset + prefix_len(self.unacked_segments@, it.index@),
                segment_offset <= self.offset,
                concat(self.unacked_segments@).len() == prefix_len(self.unacked_segments@, self.unacked_segments@.len() as int),
                // not found so far
                offsets.start < base_offset || offsets.start >= segment_offset,
//@ loop-start 0
            proof {
                lemma_prefix_len_mono(self.unacked_segments@, it.index@ + 1, self.unacked_segments@.len() as int);
            }
//@ replace return &segment[start..end.min(segment.len())]; => let res = &segment[start..end.min(segment.len())]; proof { assert(*segment == self.unacked_segments@[it.index@]); lemma_slice_matches(self.unacked_segments@, it.index@, start as int, res@, self.base(), offsets.start as int); assert(self.base() + self.stored().len() == self.offset); assert(self.stored() == concat(self.unacked_segments@)); } return res;
//@ end

//@ extract quinn-proto/src/connection/send_buffer.rs :: impl SendBuffer::fn retransmit
//@ contract
        requires old(self).wf(), range.end <= old(self).unsent,
        ensures final(self).wf(), final(self).retransmits.view() == old(self).retransmits.view().union(rng(range.start, range.end)),
            final(self).stored() == old(self).stored(), final(self).offset == old(self).offset, final(self).unsent == old(self).unsent,
            final(self).base() == old(self).base(), final(self).acks == old(self).acks,
//@ end

//@ extract quinn-proto/src/connection/send_buffer.rs :: impl SendBuffer::fn retransmit_all_for_0rtt
//@ contract
        requires old(self).wf(), old(self).offset == old(self).unacked_len, old(self).retransmits.view() == ISet::<u64>::empty(),
        ensures final(self).wf(), final(self).unsent == 0, final(self).stored() == old(self).stored(), final(self).offset == old(self).offset,
            final(self).base() == 0,
//@ end

//@ extract quinn-proto/src/connection/send_buffer.rs :: impl SendBuffer::fn offset
//@ ret r
//@ contract
        ensures r == self.offset
//@ end

//@ extract quinn-proto/src/connection/send_buffer.rs :: impl SendBuffer::fn is_fully_acked
//@ ret r
//@ contract
        requires self.wf()
        ensures r == (self.stored().len() == 0), r == (self.base() == self.offset)
//@ end

//@ extract quinn-proto/src/connection/send_buffer.rs :: impl SendBuffer::fn has_unsent_data
//@ ret r
//@ contract
        ensures r == (self.unsent != self.offset || self.retransmits.view() != ISet::<u64>::empty())
//@ end
}
}
}
fn main() {}
