//! unit: send_stream -- the sending half of a stream: `Send` (write budget + state machine tables) and both `BytesSource` impls
//! props: C05 C11
//! cross-unit: shims::SendBuffer::{write,ack,offset,is_fully_acked,has_unsent_data} are proved on the real SendBuffer in unit send_buffer
#![feature(allocator_api)]
#![allow(unused_imports, dead_code, non_camel_case_types, unused_variables, unused_mut, unused_assignments)]
use vstd::prelude::*;
use std::ops::Range;
verus! {
global size_of usize == 8;
pub mod shims {
use super::*;
#[verifier::external_body]
pub struct Bytes { inner: Vec<u8> }
impl View for Bytes { type V = Seq<u8>; uninterp spec fn view(&self) -> Seq<u8>; }
impl Bytes {
    #[verifier::external_body]
    pub fn new() -> (r: Bytes) ensures r@ == Seq::<u8>::empty() { unimplemented!() }
    #[verifier::external_body]
    pub fn len(&self) -> (r: usize) ensures r == self@.len() { unimplemented!() }
    #[verifier::external_body]
    pub fn is_empty(&self) -> (r: bool) ensures r == (self@.len() == 0) { unimplemented!() }
    #[verifier::external_body]
    pub fn split_to(&mut self, at: usize) -> (r: Bytes) requires at <= old(self)@.len() ensures r@ == old(self)@.take(at as int), final(self)@ == old(self)@.skip(at as int) { unimplemented!() }
    #[verifier::external_body]
    pub fn from(v: Vec<u8>) -> (r: Bytes) ensures r@ == v@ { unimplemented!() }
}
impl Default for Bytes {
    #[verifier::external_body]
    fn default() -> (r: Bytes) ensures r@ == Seq::<u8>::empty() { unimplemented!() }
}
pub assume_specification<T: Clone> [<[T] as std::borrow::ToOwned>::to_owned] (s: &[T]) -> (r: std::vec::Vec<T>)
    ensures r@ == s@;
pub assume_specification<T: core::default::Default> [core::mem::take::<T>] (b: &mut T) -> (r: T)
    ensures r == *old(b), call_ensures(T::default, (), *final(b));
pub assume_specification [<usize as core::convert::From<bool>>::from] (b: bool) -> (r: usize)
    ensures r == (if b { 1usize } else { 0usize });

#[derive(Copy, Clone, PartialEq, Eq)] pub struct VarInt(pub u64);
impl vstd::std_specs::cmp::PartialEqSpecImpl for VarInt { open spec fn obeys_eq_spec() -> bool { true } open spec fn eq_spec(&self, o: &VarInt) -> bool { *self == *o } }
impl From<VarInt> for u64 { fn from(x: VarInt) -> (r: u64) ensures r == x.0 { x.0 } }
impl vstd::std_specs::convert::FromSpecImpl<VarInt> for u64 { open spec fn obeys_from_spec() -> bool { true } open spec fn from_spec(v: VarInt) -> u64 { v.0 } }
#[derive(Copy, Clone)] pub struct StreamId(pub u64);
pub mod frame { use super::*; pub struct StreamMeta { pub id: StreamId, pub offsets: Range<u64>, pub fin: bool } }

/// contract boundary: SendBuffer is verified in unit `send_buffer`; `written` is the sequence of all bytes ever passed to `write`
#[verifier::external_body] pub struct SendBuffer { x: u8 }
impl SendBuffer {
    pub uninterp spec fn offset_spec(&self) -> u64;
    pub uninterp spec fn written(&self) -> Seq<u8>;
    pub uninterp spec fn fully_acked_spec(&self) -> bool;
    pub uninterp spec fn ack_pre(&self, r: Range<u64>) -> bool;
    pub uninterp spec fn acked_from(&self, old: SendBuffer, r: Range<u64>) -> bool;
    pub uninterp spec fn unsent_spec(&self) -> bool;
    pub open spec fn wf(&self) -> bool { self.offset_spec() == self.written().len() }
    #[verifier::external_body] pub fn new() -> (r: Self) ensures r.offset_spec() == 0, r.written() == Seq::<u8>::empty() { unimplemented!() }
    #[verifier::external_body] pub fn write(&mut self, data: Bytes)
        requires old(self).wf(), old(self).offset_spec() + data@.len() <= u64::MAX
        ensures final(self).wf(), final(self).written() == old(self).written() + data@, final(self).offset_spec() == old(self).offset_spec() + data@.len()
    { unimplemented!() }
    #[verifier::external_body] pub fn ack(&mut self, range: Range<u64>) requires old(self).ack_pre(range)
        ensures final(self).acked_from(*old(self), range), final(self).written() == old(self).written(), final(self).offset_spec() == old(self).offset_spec() { unimplemented!() }
    #[verifier::external_body] pub fn is_fully_acked(&self) -> (r: bool) ensures r == self.fully_acked_spec() { unimplemented!() }
    #[verifier::external_body] pub fn offset(&self) -> (r: u64) ensures r == self.offset_spec() { unimplemented!() }
    #[verifier::external_body] pub fn has_unsent_data(&self) -> (r: bool) ensures r == self.unsent_spec() { unimplemented!() }
}
}
pub mod code {
use super::*; use super::shims::*;

//@ extract quinn-proto/src/connection/streams/send.rs :: struct Written
//@ end
// R7: `#[derive(Default)]` has no Verus spec; explicit all-default impl (trusted to equal the derive)
impl Default for Written { fn default() -> (r: Self) ensures r.bytes == 0, r.chunks == 0 { Written { bytes: 0, chunks: 0 } } }
//@ extract quinn-proto/src/connection/streams/send.rs :: enum WriteError
//@ derive
//@ end
//@ extract quinn-proto/src/connection/streams/send.rs :: enum SendState
//@ end
impl vstd::std_specs::cmp::PartialEqSpecImpl for SendState { open spec fn obeys_eq_spec() -> bool { true } open spec fn eq_spec(&self, o: &SendState) -> bool { *self == *o } }
//@ extract quinn-proto/src/connection/streams/send.rs :: enum FinishError
//@ derive
//@ end

pub trait BytesSource {
    spec fn remaining(&self) -> Seq<u8>;
    spec fn chunk_budget(&self) -> nat;
    /// representation invariant of the source (BytesArray: the cursor is inside the chunk array)
    spec fn src_wf(&self) -> bool;
//@ extract quinn-proto/src/connection/streams/send.rs :: trait BytesSource::fn pop_chunk
//@ ret r
//@ contract
        requires old(self).src_wf(),
        ensures final(self).src_wf(), r.0@.len() <= limit,
            r.1 + final(self).chunk_budget() <= old(self).chunk_budget(),
            old(self).remaining() =~= r.0@ + final(self).remaining(),
            r.0@.len() == 0 ==> (limit == 0 || final(self).remaining().len() == 0)
//@ end
}

//@ extract quinn-proto/src/connection/streams/send.rs :: struct ByteSlice
//@ end

impl BytesSource for ByteSlice<'_> {
    open spec fn remaining(&self) -> Seq<u8> { self.data@ }
    open spec fn chunk_budget(&self) -> nat { if self.data@.len() > 0 { 1 } else { 0 } }
    open spec fn src_wf(&self) -> bool { true }
//@ extract quinn-proto/src/connection/streams/send.rs :: impl BytesSource for ByteSlice<'_>::fn pop_chunk
//@ end
}

//@ extract quinn-proto/src/connection/streams/send.rs :: struct BytesArray
//@ end
pub open spec fn concat_bytes(s: Seq<Bytes>) -> Seq<u8> decreases s.len() {
    if s.len() == 0 { Seq::empty() } else { s[0]@ + concat_bytes(s.skip(1)) }
}
pub proof fn lemma_concat_step(s: Seq<Bytes>, i: int)
    requires 0 <= i < s.len()
    ensures concat_bytes(s.skip(i)) =~= s[i]@ + concat_bytes(s.skip(i + 1))
{ assert(s.skip(i).skip(1) =~= s.skip(i + 1)); assert(s.skip(i)[0] == s[i]); }
pub proof fn lemma_concat_empty(s: Seq<Bytes>, i: int)
    requires i == s.len()
    ensures concat_bytes(s.skip(i)) =~= Seq::<u8>::empty()
{ assert(s.skip(i) =~= Seq::<Bytes>::empty()); }
impl BytesSource for BytesArray<'_> {
    /// what is left: the unconsumed chunks, concatenated
    open spec fn remaining(&self) -> Seq<u8> { concat_bytes(self.chunks@.skip(self.consumed as int)) }
    open spec fn chunk_budget(&self) -> nat { (self.chunks@.len() - self.consumed) as nat }
    open spec fn src_wf(&self) -> bool { self.consumed <= self.chunks@.len() }
//@ extract quinn-proto/src/connection/streams/send.rs :: impl BytesSource for BytesArray<'_>::fn pop_chunk
//@ at-start
        let ghost rem0 = self.remaining();
        let ghost c0 = self.consumed;
//@ loop 0
            invariant_except_break
                concat_bytes(self.chunks@.skip(self.consumed as int)) =~= rem0,
            invariant
                c0 <= self.consumed <= self.chunks@.len(), self.chunks@.len() == old(self).chunks@.len(),
                chunks_consumed == self.consumed - c0,
                rem0 == old(self).remaining(), c0 == old(self).consumed,
            ensures
                self.remaining() =~= rem0,
                limit == 0 || self.remaining().len() == 0,
            decreases self.chunks@.len() - self.consumed
//@ loop-start 0
            proof { lemma_concat_step(self.chunks@, self.consumed as int); }
            let ghost before = self.chunks@;
//@ after let chunk = std::mem::take(chunk);
                proof {
                    assert(self.chunks@.skip(self.consumed as int + 1) =~= before.skip(self.consumed as int + 1));
                }
//@ before break;
                proof { assert(self.chunks@ =~= before); }
//@ after let chunk = chunk.split_to(limit);
                proof {
                    lemma_concat_step(self.chunks@, self.consumed as int);
                    assert(self.chunks@.skip(self.consumed as int + 1) =~= before.skip(self.consumed as int + 1));
                    assert(chunk@ + self.chunks@[self.consumed as int]@ =~= before[self.consumed as int]@);
                }
//@ end
}

//@ extract quinn-proto/src/connection/streams/send.rs :: struct Send
//@ end

impl Send {
//@ extract quinn-proto/src/connection/streams/send.rs :: impl Send::fn new
//@ ret r
//@ contract
        ensures r.max_data == max_data.0, r.state == SendState::Ready, r.stop_reason.is_none(), !r.fin_pending,
            r.pending.offset_spec() == 0, r.pending.wf()
//@ end
//@ extract quinn-proto/src/connection/streams/send.rs :: impl Send::fn is_reset
//@ ret r
//@ contract
        ensures r == (self.state == SendState::ResetSent)
//@ end
//@ extract quinn-proto/src/connection/streams/send.rs :: impl Send::fn finish
//@ props C11
//@ ret res
//@ contract
        ensures
            final(self).max_data == old(self).max_data, final(self).pending == old(self).pending, final(self).stop_reason == old(self).stop_reason,
            match res {
                Ok(()) => old(self).stop_reason.is_none() && old(self).state == SendState::Ready
                    && final(self).state == (SendState::DataSent { finish_acked: false }) && final(self).fin_pending,
                Err(FinishError::Stopped(c)) => old(self).stop_reason == Some(c) && *final(self) == *old(self),
                Err(FinishError::ClosedStream) => old(self).stop_reason.is_none() && old(self).state != SendState::Ready && *final(self) == *old(self),
            }
//@ end
//@ extract quinn-proto/src/connection/streams/send.rs :: impl Send::fn write
//@ ret res
//@ contract
        requires
            old(self).pending.wf(),
            old(self).pending.offset_spec() <= old(self).max_data,
            old(source).chunk_budget() <= usize::MAX,
            old(source).src_wf(),
        ensures
            final(self).pending.wf(), final(source).src_wf(),
            final(self).max_data == old(self).max_data,
            final(self).state == old(self).state,
            final(self).stop_reason == old(self).stop_reason,
            final(self).pending.offset_spec() <= final(self).max_data,
            match res {
                Ok(w) => {
                    &&& old(self).state == SendState::Ready && old(self).stop_reason.is_none()
                    &&& final(self).pending.offset_spec() == old(self).pending.offset_spec() + w.bytes
                    &&& w.bytes <= limit
                    &&& w.bytes <= old(self).max_data - old(self).pending.offset_spec()
                    &&& final(self).pending.written() =~= old(self).pending.written() + old(source).remaining().take(w.bytes as int)
                    &&& old(source).remaining() =~= old(source).remaining().take(w.bytes as int) + final(source).remaining()
                },
                Err(WriteError::ClosedStream) => old(self).state != SendState::Ready && final(self).pending == old(self).pending,
                Err(WriteError::Stopped(c)) => old(self).state == SendState::Ready && old(self).stop_reason == Some(c) && final(self).pending == old(self).pending,
                Err(WriteError::Blocked) => old(self).state == SendState::Ready && old(self).stop_reason.is_none()
                    && old(self).max_data == old(self).pending.offset_spec() && final(self).pending == old(self).pending,
            },
//@ at-start
        let ghost limit_in = limit;
//@ loop 0
            invariant
                self.pending.wf(),
                self.max_data == old(self).max_data, self.state == old(self).state, self.stop_reason == old(self).stop_reason,
                self.pending.offset_spec() + limit <= self.max_data,
                self.pending.offset_spec() == old(self).pending.offset_spec() + result.bytes,
                result.bytes + limit <= budget, budget == old(self).max_data - old(self).pending.offset_spec(),
                result.bytes + limit <= limit_in,
                result.bytes + source.remaining().len() == old(source).remaining().len(),
                self.pending.written() =~= old(self).pending.written() + old(source).remaining().take(result.bytes as int),
                old(source).remaining() =~= old(source).remaining().take(result.bytes as int) + source.remaining(),
                result.chunks + source.chunk_budget() <= old(source).chunk_budget(),
                old(source).chunk_budget() <= usize::MAX, source.src_wf(),
            decreases limit
//@ end
//@ extract quinn-proto/src/connection/streams/send.rs :: impl Send::fn reset
//@ props C11
//@ contract
        ensures final(self).state == SendState::ResetSent,
            final(self).max_data == old(self).max_data, final(self).pending == old(self).pending, final(self).stop_reason == old(self).stop_reason, final(self).fin_pending == old(self).fin_pending
//@ end
//@ extract quinn-proto/src/connection/streams/send.rs :: impl Send::fn try_stop
//@ props C11
//@ ret r
//@ contract
        ensures r == old(self).stop_reason.is_none(),
            final(self).stop_reason == (if r { Some(error_code) } else { old(self).stop_reason }),
            final(self).state == old(self).state, final(self).pending == old(self).pending, final(self).max_data == old(self).max_data
//@ end
//@ extract quinn-proto/src/connection/streams/send.rs :: impl Send::fn ack
//@ props C11
//@ ret r
//@ boolops
//@ contract
        requires old(self).pending.ack_pre(frame.offsets)
        ensures
            final(self).pending.acked_from(old(self).pending, frame.offsets),
            r <==> (old(self).state is DataSent) && (old(self).state->finish_acked || frame.fin) && final(self).pending.fully_acked_spec(),
            (old(self).state is DataSent) ==> final(self).state == (SendState::DataSent { finish_acked: old(self).state->finish_acked || frame.fin }),
            !(old(self).state is DataSent) ==> final(self).state == old(self).state,
            final(self).stop_reason == old(self).stop_reason, final(self).max_data == old(self).max_data,
//@ end
//@ extract quinn-proto/src/connection/streams/send.rs :: impl Send::fn increase_max_data
//@ props C05
//@ ret r
//@ contract
        ensures
            final(self).max_data == (if offset > old(self).max_data && old(self).state == SendState::Ready { offset } else { old(self).max_data }),
            final(self).max_data >= old(self).max_data,
            r ==> old(self).pending.offset_spec() == old(self).max_data && final(self).max_data > old(self).max_data,
            final(self).state == old(self).state, final(self).pending == old(self).pending,
//@ end
//@ extract quinn-proto/src/connection/streams/send.rs :: impl Send::fn offset
//@ ret r
//@ contract
        ensures r == self.pending.offset_spec()
//@ end
//@ extract quinn-proto/src/connection/streams/send.rs :: impl Send::fn is_pending
//@ ret r
//@ contract
        ensures r == (self.pending.unsent_spec() || self.fin_pending)
//@ end
//@ extract quinn-proto/src/connection/streams/send.rs :: impl Send::fn is_writable
//@ ret r
//@ contract
        ensures r == (self.state == SendState::Ready)
//@ end
}
}
}
fn main() {}
