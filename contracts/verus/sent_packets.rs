//! unit: sent_packets -- SentPackets, the ring buffer of unacknowledged packets: a sparse map packet number -> SentPacket with an exact count of in-flight entries
//! props: C12
//! trusted: VecDeque::{front, get_mut, is_empty} specs (assume_specification); Instant / retransmit payload types opaque and Clone; Default impl written out (R7)
#![feature(allocator_api)]
#![allow(unused_imports, dead_code, non_camel_case_types, non_snake_case, unused_variables, unused_mut, unused_assignments)]
use vstd::prelude::*;
use std::collections::VecDeque;
verus! {
global size_of usize == 8;
pub mod shims {
use super::*;
#[verifier::external_body] pub struct Instant { x: u64 }
impl Clone for Instant { #[verifier::external_body] fn clone(&self) -> (r: Self) ensures r == *self { unimplemented!() } }
#[verifier::external_body] pub struct ThinRetransmits { x: u64 }
impl Clone for ThinRetransmits { #[verifier::external_body] fn clone(&self) -> (r: Self) ensures r == *self { unimplemented!() } }
pub mod frame {
    use super::*;
    #[verifier::external_body] pub struct StreamMetaVec { x: u64 }
    impl Clone for StreamMetaVec { #[verifier::external_body] fn clone(&self) -> (r: Self) ensures r == *self { unimplemented!() } }
}
pub assume_specification<T, A: std::alloc::Allocator> [std::collections::VecDeque::<T, A>::front] (v: &std::collections::VecDeque<T, A>) -> (r: std::option::Option<&T>)
    ensures match r { Some(x) => v@.len() > 0 && *x == v@[0], None => v@.len() == 0 };
pub assume_specification<T, A: std::alloc::Allocator> [std::collections::VecDeque::<T, A>::get_mut] (v: &mut std::collections::VecDeque<T, A>, i: usize) -> (r: std::option::Option<&mut T>)
    ensures match r {
        Some(x) => i < old(v)@.len() && *x == old(v)@[i as int] && final(v)@ == old(v)@.update(i as int, *final(x)),
        None => i >= old(v)@.len() && final(v)@ == old(v)@,
    };
pub assume_specification<T, A: std::alloc::Allocator> [std::collections::VecDeque::<T, A>::get] (v: &std::collections::VecDeque<T, A>, i: usize) -> (r: std::option::Option<&T>)
    ensures match r { Some(x) => i < v@.len() && *x == v@[i as int], None => i >= v@.len() };
pub assume_specification<T, A: std::alloc::Allocator> [std::collections::VecDeque::<T, A>::is_empty] (v: &std::collections::VecDeque<T, A>) -> (r: bool)
    ensures r == (v@.len() == 0);
}
pub mod spec {
use super::*; use super::shims::*; use super::code::*;
pub type Slots = Seq<Option<SentPacket>>;
pub open spec fn ind(x: Option<SentPacket>) -> nat { if x is Some && x->0.size != 0 { 1 } else { 0 } }
/// number of present entries that count as in flight (size != 0)
pub open spec fn cnt(s: Slots) -> nat decreases s.len() {
    if s.len() == 0 { 0 } else { cnt(s.drop_last()) + ind(s.last()) }
}
pub broadcast proof fn lemma_update_same(s: Slots, i: int)
    requires 0 <= i < s.len()
    ensures #[trigger] s.update(i, s[i]) == s
{ assert(s.update(i, s[i]) =~= s); }
pub proof fn lemma_cnt_push(s: Slots, x: Option<SentPacket>)
    ensures cnt(s.push(x)) == cnt(s) + ind(x)
{ assert(s.push(x).drop_last() =~= s); }
pub proof fn lemma_cnt_pad(s: Slots, t: Slots)
    requires t.len() >= s.len(), t.take(s.len() as int) =~= s, forall|i: int| s.len() <= i < t.len() ==> t[i] is None
    ensures cnt(t) == cnt(s)
    decreases t.len()
{
    if t.len() == s.len() { assert(t =~= s); } else {
        assert(t.drop_last().take(s.len() as int) =~= s);
        lemma_cnt_pad(s, t.drop_last());
    }
}
pub proof fn lemma_cnt_update(s: Slots, i: int, x: Option<SentPacket>)
    requires 0 <= i < s.len()
    ensures cnt(s.update(i, x)) == cnt(s) - ind(s[i]) + ind(x)
    decreases s.len()
{
    if i == s.len() - 1 { assert(s.update(i, x).drop_last() =~= s.drop_last()); }
    else { assert(s.update(i, x).drop_last() =~= s.drop_last().update(i, x)); lemma_cnt_update(s.drop_last(), i, x); }
}
pub proof fn lemma_cnt_skip1(s: Slots)
    requires s.len() > 0
    ensures cnt(s.skip(1)) == cnt(s) - ind(s[0])
    decreases s.len()
{
    if s.len() == 1 { assert(s.skip(1) =~= Seq::<Option<SentPacket>>::empty()); assert(s.drop_last() =~= Seq::<Option<SentPacket>>::empty()); }
    else { assert(s.skip(1).drop_last() =~= s.drop_last().skip(1)); lemma_cnt_skip1(s.drop_last()); assert(s.drop_last()[0] == s[0]); }
}
pub proof fn lemma_cnt_zero_iff(s: Slots)
    ensures cnt(s) == 0 <==> forall|i: int| 0 <= i < s.len() ==> ind(#[trigger] s[i]) == 0
    decreases s.len()
{
    if s.len() > 0 {
        lemma_cnt_zero_iff(s.drop_last());
        assert forall|i: int| 0 <= i < s.len() - 1 implies s.drop_last()[i] == s[i] by {}
        if cnt(s) == 0 {
            assert forall|i: int| 0 <= i < s.len() implies ind(#[trigger] s[i]) == 0 by { if i < s.len() - 1 { assert(s.drop_last()[i] == s[i]); } }
        }
    }
}
}
pub mod code {
use super::*; use super::shims::*; use super::spec::*;
broadcast use lemma_update_same;
//@ extract quinn-proto/src/connection/spaces.rs :: struct SentPacket
//@ derive Clone
//@ end
//@ extract quinn-proto/src/connection/sent_packets.rs :: struct SentPackets
//@ derive
//@ end
impl Default for SentPackets {
    fn default() -> (r: Self) ensures r.slots@ =~= Seq::<Option<SentPacket>>::empty(), r.in_flight == 0, r.offset == 0
    { SentPackets { offset: 0, slots: VecDeque::new(), in_flight: 0 } }
}
impl SentPackets {
    /// the abstract map
    pub open spec fn get_spec(&self, pn: u64) -> Option<SentPacket> {
        if self.offset <= pn < self.offset + self.slots@.len() { self.slots@[pn - self.offset] } else { None }
    }
    pub open spec fn wf(&self) -> bool {
        &&& self.in_flight == cnt(self.slots@)
        &&& (self.slots@.len() > 0 ==> self.slots@[0] is Some)
        &&& self.offset + self.slots@.len() < 0x8000_0000_0000_0000
    }
//@ extract quinn-proto/src/connection/sent_packets.rs :: impl SentPackets::fn insert
//@ contract
        requires old(self).wf(), pn < 0x4000_0000_0000_0000, old(self).in_flight < usize::MAX,
            // packet numbers are inserted in increasing order
            old(self).slots@.len() > 0 ==> pn >= old(self).offset + old(self).slots@.len(),
            old(self).slots@.len() > 0 ==> pn - old(self).offset < 0x4000_0000,
        ensures final(self).wf(),
            // exactly one key is added, nothing else changes
            forall|q: u64| final(self).get_spec(q) == (if q == pn { Some(value) } else { old(self).get_spec(q) }),
            final(self).in_flight == old(self).in_flight + (if value.size != 0 { 1int } else { 0int }),
//@ after self.slots.resize(
        let ghost padded = self.slots@;
        proof {
            assert(padded.take(old(self).slots@.len() as int) =~= old(self).slots@);
            lemma_cnt_pad(old(self).slots@, padded);
        }
//@ at-end
        proof {
            lemma_cnt_push(padded, Some(value));
            assert forall|q: u64| self.get_spec(q) == (if q == pn { Some(value) } else { old(self).get_spec(q) }) by {
                if q != pn && self.offset <= q < self.offset + padded.len() {
                    if q - self.offset < old(self).slots@.len() { assert(padded[q - self.offset] == padded.take(old(self).slots@.len() as int)[q - self.offset]); }
                }
            }
        }
//@ end
//@ extract quinn-proto/src/connection/sent_packets.rs :: impl SentPackets::fn remove
//@ ret r
//@ contract
        requires old(self).wf(),
        ensures final(self).wf(),
            // the entry is returned once; afterwards it is gone and nothing else changed
            r == old(self).get_spec(pn),
            forall|q: u64| final(self).get_spec(q) == (if q == pn { None } else { old(self).get_spec(q) }),
            final(self).in_flight == old(self).in_flight - (if r is Some && r->0.size != 0 { 1int } else { 0int }),
//@ after let value = self.slots.get_mut(index)?.take()?;
        let ghost s1 = self.slots@;
        proof {
            assert(s1 =~= old(self).slots@.update(index as int, None));
            lemma_cnt_update(old(self).slots@, index as int, None);
        }
//@ loop 0
            invariant
                self.offset + self.slots@.len() == old(self).offset + s1.len(),
                self.offset >= old(self).offset,
                self.slots@ =~= s1.skip(self.offset - old(self).offset),
                forall|i: int| 0 <= i < self.offset - old(self).offset ==> s1[i] is None,
                cnt(self.slots@) == cnt(s1),
                s1.len() == old(self).slots@.len(), old(self).offset + s1.len() < 0x8000_0000_0000_0000,
            ensures
                self.offset + self.slots@.len() == old(self).offset + s1.len(),
                self.offset >= old(self).offset,
                self.slots@ =~= s1.skip(self.offset - old(self).offset),
                forall|i: int| 0 <= i < self.offset - old(self).offset ==> s1[i] is None,
                cnt(self.slots@) == cnt(s1),
                s1.len() == old(self).slots@.len(), old(self).offset + s1.len() < 0x8000_0000_0000_0000,
                // the loop stops at a present entry (or when the buffer is empty)
                self.slots@.len() > 0 ==> self.slots@[0] is Some,
            decreases self.slots@.len()
//@ loop-start 0
            proof { lemma_cnt_skip1(self.slots@); assert(self.slots@.skip(1) =~= s1.skip(self.offset - old(self).offset + 1)); }
//@ before Some(value)
        proof {
            assert(value == old(self).slots@[index as int]->0);
            assert(self.in_flight == cnt(self.slots@));
            assert(self.slots@.len() > 0 ==> self.slots@[0] is Some);
            assert forall|q: u64| self.get_spec(q) == (if q == pn { None } else { old(self).get_spec(q) }) by {
                let k = self.offset - old(self).offset;
                if old(self).offset <= q < old(self).offset + s1.len() {
                    if q < self.offset { assert(s1[q - old(self).offset] is None); }
                    else { assert(self.slots@[q - self.offset] == s1[q - old(self).offset]); }
                }
            }
        }
//@ end
//@ extract quinn-proto/src/connection/sent_packets.rs :: impl SentPackets::fn get
//@ ret r
//@ contract
        ensures match r { Some(p) => self.get_spec(pn) == Some(*p), None => self.get_spec(pn) is None }
//@ end
//@ extract quinn-proto/src/connection/sent_packets.rs :: impl SentPackets::fn has_in_flight
//@ ret r
//@ contract
        requires self.wf()
        // true iff some tracked packet counts towards bytes in flight
        ensures r == exists|i: int| 0 <= i < self.slots@.len() && ind(#[trigger] self.slots@[i]) != 0
//@ at-start
        proof { lemma_cnt_zero_iff(self.slots@); }
//@ end
}
}
}
fn main() {}
