//! unit: streams_state -- connection-level flow control and stream-count arithmetic of StreamsState / Streams
//! props: C05 C06 C11
//! trusted: StreamsState::{insert, stream_recv_freed, on_stream_frame} (hash-map / event-queue code) are opaque contracts (change no counter / no flow-control field); connection State::is_closed opaque; the hash-map access expressions of received, received_reset, set_params and SendStream::reset are routed through shims (recv_entry, recv_take, send_entry, send_get: one logged rewrite each); FxHashMap::{contains_key,get} as key membership
//! cross-unit: shims::Recv::{reset,ingest,is_receiving} and shims::Send::reset carry clauses proved on the real functions in units recv / send_stream
#![feature(allocator_api)]
#![allow(unused_imports, dead_code, non_camel_case_types, non_snake_case, unused_variables, unused_mut, unused_assignments)]
use vstd::prelude::*;
use std::collections::VecDeque;
use std::ops::Range;
use vstd::std_specs::iter::IteratorSpec;
verus! {
global size_of usize == 8;
pub mod shims {
use super::*;
// opaque stand-ins for field types no verified function touches (R8)
#[verifier::external_body] #[verifier::reject_recursive_types(K)] #[verifier::reject_recursive_types(V)] pub struct FxHashMap<K, V> { k: core::marker::PhantomData<(K, V)> }
impl<K, V> Default for FxHashMap<K, V> { #[verifier::external_body] fn default() -> (r: Self) ensures forall|k: K| !r.has(k) { unimplemented!() } }
impl<K, V> FxHashMap<K, V> {
    /// whether the map has an entry for the key (whatever the value)
    pub uninterp spec fn has(&self, k: K) -> bool;
    #[verifier::external_body] pub fn contains_key(&self, k: &K) -> (r: bool) ensures r == self.has(*k) { unimplemented!() }
    #[verifier::external_body] pub fn get(&self, k: &K) -> (r: Option<&V>) ensures r.is_some() == self.has(*k) { unimplemented!() }
    #[verifier::external_body] pub fn remove(&mut self, k: &K) -> (r: Option<V>)
        ensures r.is_some() == old(self).has(*k), !final(self).has(*k), forall|k2: K| k2 != *k ==> final(self).has(k2) == old(self).has(k2)
    { unimplemented!() }
}
/// `Dir::iter()`: both directions, Bi first (`[Self::Bi, Self::Uni].iter().cloned()`)
#[verifier::external_body] pub struct DirIter { x: u8 }
impl DirIter { pub uninterp spec fn left(&self) -> nat; }
impl Iterator for DirIter {
    type Item = super::code::Dir;
    #[verifier::external_body] fn next(&mut self) -> (r: Option<super::code::Dir>) { unimplemented!() }
}
impl vstd::std_specs::iter::IteratorSpecImpl for DirIter {
    open spec fn obeys_prophetic_iter_laws(&self) -> bool { true }
    #[verifier::prophetic] uninterp spec fn remaining(&self) -> Seq<super::code::Dir>;
    #[verifier::prophetic] open spec fn will_return_none(&self) -> bool { true }
    open spec fn decrease(&self) -> Option<nat> { Some(self.left()) }
    open spec fn peek(&self, i: int) -> Option<super::code::Dir> { None }
}
#[verifier::external_body] pub fn dir_iter() -> (it: DirIter) ensures it.remaining() == seq![super::code::Dir::Bi, super::code::Dir::Uni] { unimplemented!() }
#[verifier::external_body] pub struct PendingStreamsQueue { x: u8 }
pub struct PendingStream { pub priority: i32, pub recency: u64, pub id: super::code::StreamId }
impl PendingStreamsQueue {
    #[verifier::external_body] pub fn new() -> (r: Self) ensures r.qlen() == 0 { unimplemented!() }
    #[verifier::external_body] pub fn clear(&mut self) { unimplemented!() }
    /// how many entries are queued (reinserted one included)
    pub uninterp spec fn qlen(&self) -> nat;
    /// the streams that have an entry in the queue
    pub uninterp spec fn ids(&self) -> Set<super::code::StreamId>;
    #[verifier::external_body] pub fn pop(&mut self) -> (r: Option<PendingStream>)
        ensures r.is_some() ==> old(self).qlen() > 0 && final(self).qlen() == old(self).qlen() - 1, r.is_none() ==> final(self).qlen() == old(self).qlen(),
            // queued ids were built by StreamId::new (index < 2^60)
            r matches Some(p) ==> p.id.0 < 0x4000_0000_0000_0000
    { unimplemented!() }
    #[verifier::external_body] pub fn push_pending(&mut self, id: super::code::StreamId, priority: i32) ensures final(self).qlen() == old(self).qlen() + 1, final(self).ids() == old(self).ids().insert(id) { unimplemented!() }
    #[verifier::external_body] pub fn reinsert_pending(&mut self, id: super::code::StreamId, priority: i32) ensures final(self).qlen() == old(self).qlen() + 1 { unimplemented!() }
}
impl From<super::code::StreamId> for VarInt { fn from(x: super::code::StreamId) -> (r: VarInt) ensures r.0 == x.0 { VarInt(x.0) } }
impl vstd::std_specs::convert::FromSpecImpl<super::code::StreamId> for VarInt { open spec fn obeys_from_spec() -> bool { true } open spec fn from_spec(v: super::code::StreamId) -> VarInt { VarInt(v.0) } }
/// bytes::BufMut for Vec<u8>, as far as write_stream_frames uses it
pub trait BufMut { fn put_slice(&mut self, src: &[u8]); }
impl BufMut for Vec<u8> { #[verifier::external_body] fn put_slice(&mut self, src: &[u8]) ensures final(self)@ == old(self)@ + src@ { unimplemented!() } }
pub assume_specification<Idx: Clone> [<Range<Idx> as Clone>::clone] (r: &Range<Idx>) -> (o: Range<Idx>) ensures o == *r;
#[verifier::external_body] pub struct StreamRecv { x: u8 }
#[derive(Copy, Clone, PartialEq, Eq)] pub struct VarInt(pub u64);
impl vstd::std_specs::cmp::PartialEqSpecImpl for VarInt { open spec fn obeys_eq_spec() -> bool { true } open spec fn eq_spec(&self, o: &VarInt) -> bool { *self == *o } }
impl VarInt {
    pub const MAX: Self = Self(4611686018427387903);
    pub const fn into_inner(self) -> (r: u64) ensures r == self.0 { self.0 }
    #[verifier::external_body] pub const fn size(self) -> (r: usize) requires self.0 < 0x4000_0000_0000_0000 ensures r == vsize(self.0) { unimplemented!() }
}
impl vstd::std_specs::cmp::PartialOrdSpecImpl for VarInt {
    open spec fn obeys_partial_cmp_spec() -> bool { true }
    open spec fn partial_cmp_spec(&self, o: &VarInt) -> Option<core::cmp::Ordering> {
        if self.0 < o.0 { Some(core::cmp::Ordering::Less) } else if self.0 == o.0 { Some(core::cmp::Ordering::Equal) } else { Some(core::cmp::Ordering::Greater) }
    }
}
impl PartialOrd for VarInt {
    fn partial_cmp(&self, o: &VarInt) -> Option<core::cmp::Ordering> {
        if self.0 < o.0 { Some(core::cmp::Ordering::Less) } else if self.0 == o.0 { Some(core::cmp::Ordering::Equal) } else { Some(core::cmp::Ordering::Greater) }
    }
}
impl From<u32> for VarInt { fn from(x: u32) -> (r: VarInt) ensures r.0 == x { VarInt(x as u64) } }
impl vstd::std_specs::convert::FromSpecImpl<u32> for VarInt { open spec fn obeys_from_spec() -> bool { true } open spec fn from_spec(v: u32) -> VarInt { VarInt(v as u64) } }
impl From<VarInt> for u64 { fn from(x: VarInt) -> (r: u64) ensures r == x.0 { x.0 } }
impl vstd::std_specs::convert::FromSpecImpl<VarInt> for u64 { open spec fn obeys_from_spec() -> bool { true } open spec fn from_spec(v: VarInt) -> u64 { v.0 } }
#[derive(Copy, Clone, PartialEq, Eq)] pub enum Code { STREAM_STATE_ERROR, STREAM_LIMIT_ERROR, FRAME_ENCODING_ERROR, FINAL_SIZE_ERROR }
pub struct TransportError { pub code: Code }
impl TransportError {
    pub fn STREAM_STATE_ERROR(_r: &'static str) -> (r: Self) ensures r.code == Code::STREAM_STATE_ERROR { TransportError { code: Code::STREAM_STATE_ERROR } }
    pub fn STREAM_LIMIT_ERROR(_r: &'static str) -> (r: Self) ensures r.code == Code::STREAM_LIMIT_ERROR { TransportError { code: Code::STREAM_LIMIT_ERROR } }
    pub fn FRAME_ENCODING_ERROR(_r: &'static str) -> (r: Self) ensures r.code == Code::FRAME_ENCODING_ERROR { TransportError { code: Code::FRAME_ENCODING_ERROR } }
    pub fn FINAL_SIZE_ERROR(_r: &'static str) -> (r: Self) ensures r.code == Code::FINAL_SIZE_ERROR { TransportError { code: Code::FINAL_SIZE_ERROR } }
}
/// the send half of a stream as far as the glue code here looks at it; `Send::reset` / `SendBuffer::unacked` are proved in units send_stream / send_buffer
#[derive(Copy, Clone, PartialEq, Eq)] pub enum SendState { Ready, DataSent { finish_acked: bool }, ResetSent }
/// The send buffer of a stream as far as the code here looks at it.  `un` = unacked(); the remaining observers are ghost: `stored` =
/// the bytes written and not yet acknowledged, starting at stream offset `base`; `end` = offset().  poll_transmit / get carry the
/// clauses proved on the real SendBuffer in unit send_buffer.
pub struct SendBuffer { pub un: u64, pub g: Ghost<(Seq<u8>, u64, u64, bool)>,
    /// ghost: the offset from which data is still (or again) to be transmitted, relative to `base` (`unsent` of the real buffer)
    pub unsent: Ghost<nat>,
    /// ghost: stream offsets queued for retransmission (`retransmits` of the real buffer)
    pub lost: Ghost<Set<int>> }
impl SendBuffer {
    pub open spec fn stored(&self) -> Seq<u8> { self.g@.0 }
    pub open spec fn base(&self) -> u64 { self.g@.1 }
    pub open spec fn end(&self) -> u64 { self.g@.2 }
    /// SendBuffer::wf && rwf of unit send_buffer
    pub open spec fn ok(&self) -> bool { self.g@.3 && self.base() + self.stored().len() == self.end() && self.end() < 0x4000_0000_0000_0000 }
    pub fn unacked(&self) -> (r: u64) ensures r == self.un { self.un }
    /// everything written has been acknowledged (vacuously true for a stream nothing was written on)
    pub uninterp spec fn fully_acked(&self) -> bool;
    #[verifier::external_body] pub fn is_fully_acked(&self) -> (r: bool) ensures r == self.fully_acked() { unimplemented!() }
    /// the whole buffer is marked unsent again, so that the stream is transmitted from its first unacknowledged byte -- and its FIN
    /// with the last frame -- once more (`unsent = 0`)
    pub open spec fn resend_all(&self) -> bool { self.unsent@ == 0 }
    /// SendBuffer::retransmit (unit send_buffer): the range is added to what has to be sent again, nothing else changes
    #[verifier::external_body] pub fn retransmit(&mut self, range: Range<u64>)
        ensures final(self).lost@ == old(self).lost@.union(vstd::set_lib::set_int_range(range.start as int, range.end as int)), final(self).un == old(self).un, final(self).g@ == old(self).g@, final(self).unsent@ == old(self).unsent@
    { unimplemented!() }
    #[verifier::external_body] pub fn retransmit_all_for_0rtt(&mut self)
        ensures final(self).resend_all(), final(self).un == old(self).un, final(self).g@ == old(self).g@, final(self).fully_acked() == old(self).fully_acked()
    { unimplemented!() }
    #[verifier::external_body] pub fn offset(&self) -> (r: u64) ensures r == self.end() { unimplemented!() }
    #[verifier::external_body] pub fn poll_transmit(&mut self, max_len: usize) -> (res: (Range<u64>, bool))
        requires old(self).ok(), max_len >= 8 + 8 + 1
        ensures final(self).ok(), final(self).stored() == old(self).stored(), final(self).base() == old(self).base(), final(self).end() == old(self).end(),
            final(self).un == old(self).un,
            res.0.start <= res.0.end <= final(self).end(),
            (res.0.end - res.0.start) + osize(res.0.start) + (if res.1 { 8int } else { 0int }) <= max_len,
            !res.1 ==> (res.0.end - res.0.start) + osize(res.0.start) == max_len,
            res.0.start < res.0.end ==> final(self).base() <= res.0.start,
    { unimplemented!() }
    #[verifier::external_body] pub fn get(&self, offsets: Range<u64>) -> (r: &[u8])
        requires self.ok(), offsets.start <= offsets.end
        ensures r@.len() <= offsets.end - offsets.start,
            forall|j: int| 0 <= j < r@.len() ==> #[trigger] r@[j] == self.stored()[offsets.start + j - self.base()] && self.base() <= offsets.start + j < self.end(),
            (self.base() <= offsets.start < self.end() && offsets.start < offsets.end) ==> r@.len() > 0,
    { unimplemented!() }
}
/// bytes a QUIC varint takes (VarInt::size: real body under contract in unit frame_codec, all 2^62 values checked by Kani varint_roundtrip)
pub open spec fn vsize(x: u64) -> usize { if x < 0x40 { 1 } else if x < 0x4000 { 2 } else if x < 0x4000_0000 { 4 } else { 8 } }
pub open spec fn osize(start: u64) -> usize { if start != 0 { vsize(start) } else { 0 } }
pub struct Send { pub state: SendState, pub pending: SendBuffer, pub max_data: u64, pub connection_blocked: bool, pub priority: i32, pub fin_pending: bool, pub stop_reason: Option<VarInt> }
impl Send {
    #[verifier::external_body] pub fn reset(&mut self) ensures final(self).state == SendState::ResetSent, final(self).pending == old(self).pending { unimplemented!() }
    pub fn is_reset(&self) -> (r: bool) ensures r == (self.state is ResetSent) { matches!(self.state, SendState::ResetSent) }
    /// clauses of Send::write proved on the real function in unit send_stream: at most `limit` bytes are taken, errors change nothing
    pub fn is_writable(&self) -> (r: bool) ensures r == (self.state is Ready) { matches!(self.state, SendState::Ready) }
    /// Send::try_stop as proved on the real function in unit send_stream: the first STOP_SENDING is recorded, later ones change nothing
    #[verifier::external_body] pub fn try_stop(&mut self, error_code: VarInt) -> (r: bool)
        ensures r == old(self).stop_reason.is_none(), final(self).stop_reason == (if r { Some(error_code) } else { old(self).stop_reason }),
            final(self).state == old(self).state, final(self).pending == old(self).pending, final(self).max_data == old(self).max_data
    { unimplemented!() }
    /// the error table of Send::write as proved on the real function in unit send_stream
    #[verifier::external_body] pub fn write<B: BytesSource>(&mut self, source: &mut B, limit: u64) -> (res: Result<Written, WriteError>)
        ensures match res {
                Ok(w) => w.bytes <= limit && old(self).state is Ready && old(self).stop_reason.is_none(),
                Err(WriteError::ClosedStream) => !(old(self).state is Ready) && *final(self) == *old(self),
                Err(WriteError::Stopped(c)) => old(self).state is Ready && old(self).stop_reason == Some(c) && *final(self) == *old(self),
                Err(WriteError::Blocked) => old(self).state is Ready && old(self).stop_reason.is_none() && *final(self) == *old(self),
            },
            final(self).state == old(self).state, final(self).stop_reason == old(self).stop_reason,
            final(self).priority == old(self).priority, final(self).connection_blocked == old(self).connection_blocked
    { unimplemented!() }
    /// Send::ack (proved against its own contract in unit send_stream): never changes whether the stream is reset
    #[verifier::external_body] pub fn ack(&mut self, frame: frame::StreamMeta) -> (r: bool)
        ensures (final(self).state is ResetSent) == (old(self).state is ResetSent), r ==> old(self).state is DataSent, r == old(self).ack_done(frame)
    { unimplemented!() }
    /// the answer of Send::ack: the FIN and every byte of the stream are acknowledged once this frame is (unit send_stream states it exactly)
    pub uninterp spec fn ack_done(&self, frame: frame::StreamMeta) -> bool;
    /// `self.pending.offset()`: how much the application has written; never beyond the peer's stream limit, which is a varint
    #[verifier::external_body] pub fn offset(&self) -> (r: u64) ensures r == self.pending.end() { unimplemented!() }
    /// `pending.has_unsent_data() || fin_pending`
    #[verifier::external_body] pub fn is_pending(&self) -> (r: bool) ensures r == self.pending_spec() { unimplemented!() }
    /// whether the stream has something to transmit (unsent or rewound data, or a FIN); a function of the whole send half
    pub uninterp spec fn pending_spec(&self) -> bool;
    /// clauses of Send::increase_max_data proved on the real function in unit send_stream
    #[verifier::external_body] pub fn increase_max_data(&mut self, offset: u64) -> (r: bool)
        ensures final(self).max_data == (if offset > old(self).max_data && old(self).state == SendState::Ready { offset } else { old(self).max_data }),
            final(self).state == old(self).state, final(self).pending == old(self).pending, final(self).connection_blocked == old(self).connection_blocked
    { unimplemented!() }
}
pub struct ClosedStream { pub _private: () }
pub trait BytesSource { }
pub struct Written { pub bytes: usize, pub chunks: usize }
pub enum WriteError { Blocked, Stopped(VarInt), ClosedStream }
pub struct Retransmits { pub reset_stream: Vec<(super::code::StreamId, VarInt)>, pub stop_sending: Vec<frame::StopSending>, pub max_data: bool,
    pub max_stream_id: [bool; 2], pub streams_blocked: [bool; 2], pub max_stream_data: IdSet }
/// FxHashSet<StreamId> as far as write_control_frames uses it
#[verifier::external_body] pub struct IdSet { x: u8 }
impl View for IdSet { type V = Set<super::code::StreamId>; uninterp spec fn view(&self) -> Set<super::code::StreamId>; }
impl IdSet {
    /// `set.iter().next()` with the `Some(&id)` pattern: some element of the set, if it has one
    #[verifier::external_body] pub fn pick(&self) -> (r: Option<super::code::StreamId>) ensures match r { Some(x) => self@.contains(x), None => self@.len() == 0 } { unimplemented!() }
    #[verifier::external_body] pub fn remove(&mut self, x: &super::code::StreamId) -> (r: bool) ensures final(self)@ == old(self)@.remove(*x) { unimplemented!() }
    #[verifier::external_body] pub fn insert(&mut self, x: super::code::StreamId) -> (r: bool) ensures final(self)@ == old(self)@.insert(x) { unimplemented!() }
}
/// ThinRetransmits: lazily allocated Retransmits of the packet being built (what has to be sent again if the packet is lost)
#[verifier::external_body] pub struct ThinRetransmits { x: u8 }
impl ThinRetransmits { #[verifier::external_body] pub fn get_or_create(&mut self) -> (r: &mut Retransmits) { unimplemented!() } }
/// FrameStats: statistics counters (u64); `stats.x += 1` is routed through `bump` -- counter overflow is not modelled
#[verifier::external_body] pub struct FrameStats { x: u8 }
impl FrameStats { #[verifier::external_body] pub fn bump(&mut self) { unimplemented!() } }
/// `VarInt::try_from(x)`
pub fn varint_try_from(x: u64) -> (r: Result<VarInt, ()>) ensures match r { Ok(v) => v.0 == x && x < 0x4000_0000_0000_0000, Err(_) => x >= 0x4000_0000_0000_0000 }
{ if x < 0x4000_0000_0000_0000 { Ok(VarInt(x)) } else { Err(()) } }
pub assume_specification<T, F: FnOnce(T) -> bool> [std::option::Option::<T>::is_some_and] (o: std::option::Option<T>, f: F) -> (r: bool)
    requires o.is_some() ==> call_requires(f, (o.unwrap(),)),
    ensures o.is_none() ==> !r, o.is_some() ==> call_ensures(f, (o.unwrap(),), r);
pub assume_specification<T, E> [Result::<T, E>::unwrap_or] (r: Result<T, E>, d: T) -> (v: T) ensures v == (match r { Ok(x) => x, Err(_) => d });
/// what `buf.write(x)` / `buf.write_var(x)` append: a varint, VarInt::size bytes (unit frame_codec proves the encoders against their images)
pub trait Enc { spec fn enc_len(&self) -> usize; }
impl Enc for VarInt { open spec fn enc_len(&self) -> usize { vsize(self.0) } }
impl Enc for super::code::StreamId { open spec fn enc_len(&self) -> usize { vsize(self.0) } }
impl Enc for frame::FrameType { open spec fn enc_len(&self) -> usize { vsize(self.0) } }
pub trait BufMutExt { fn write<U: Enc>(&mut self, x: U); fn write_var(&mut self, x: u64) requires x < 0x4000_0000_0000_0000; }
impl BufMutExt for Vec<u8> {
    #[verifier::external_body] fn write<U: Enc>(&mut self, x: U) ensures final(self)@.len() == old(self)@.len() + x.enc_len(), final(self)@.take(old(self)@.len() as int) == old(self)@ { unimplemented!() }
    /// the real body is `VarInt::from_u64(x).unwrap().encode(self)`: panics for x >= 2^62
    #[verifier::external_body] fn write_var(&mut self, x: u64) ensures final(self)@.len() == old(self)@.len() + vsize(x), final(self)@.take(old(self)@.len() as int) == old(self)@ { unimplemented!() }
}
/// `self.recv.get_mut(&id).and_then(|s| s.as_mut()).and_then(|s| s.as_open_recv_mut())`: the receive half, if it exists and has been materialised
#[verifier::external_body]
pub fn recv_open<'a>(m: &'a mut FxHashMap<super::code::StreamId, Option<StreamRecv>>, id: super::code::StreamId) -> (r: Option<&'a mut Recv>)
    ensures match r {
        Some(rs) => rs.wf_spec() && (forall|w: u64| #[trigger] recv_headroom(*old(m), w) ==> rs.assembler.br + w < 0x4000_0000_0000_0000)
            && (final(rs).assembler.br == rs.assembler.br ==> forall|w: u64| #[trigger] recv_headroom(*final(m), w) == recv_headroom(*old(m), w)),
        None => *final(m) == *old(m),
    }
{ unimplemented!() }
/// every materialised receive half has bytes_read + w below 2^62 (so that the MAX_STREAM_DATA value fits a varint)
pub uninterp spec fn recv_headroom(m: FxHashMap<super::code::StreamId, Option<StreamRecv>>, w: u64) -> bool;
/// what the map holds for `id` once a lazily created Send has been materialised (None: no such stream)
pub uninterp spec fn send_abs(m: FxHashMap<super::code::StreamId, Option<Box<Send>>>, id: super::code::StreamId) -> Option<Send>;
/// `self.state.send.get_mut(&self.id).map(get_or_insert_send(max_send_data))`
#[verifier::external_body]
pub fn send_entry<'a>(m: &'a mut FxHashMap<super::code::StreamId, Option<Box<Send>>>, id: super::code::StreamId, max_send_data: VarInt) -> (r: Option<&'a mut Send>)
    ensures match r {
        Some(st) => send_abs(*old(m), id) == Some(*st) && send_abs(*final(m), id) == Some(*final(st)),
        None => send_abs(*old(m), id).is_none() && *final(m) == *old(m),
    }
{ unimplemented!() }
/// `HashMap::entry(id)` of the send map when occupied (same modelling as RecvOcc): `slot()` is what the slot holds (None: the stream's
/// Send has not been materialised), `fut` the map once the entry is gone
#[verifier::external_body] pub struct SendOcc<'a> { m: &'a mut FxHashMap<super::code::StreamId, Option<Box<Send>>> }
impl<'a> SendOcc<'a> {
    pub uninterp spec fn slot(&self) -> Option<Send>;
    pub uninterp spec fn key(&self) -> super::code::StreamId;
    pub uninterp spec fn fut(&self) -> FxHashMap<super::code::StreamId, Option<Box<Send>>>;
    pub uninterp spec fn removed(&self) -> bool;
    /// `entry.get_mut().as_mut()`
    #[verifier::external_body] pub fn get_send<'b>(&'b mut self) -> (r: Option<&'b mut Send>)
        requires !old(self).removed()
        ensures final(self).key() == old(self).key(), final(self).fut() == old(self).fut(), !final(self).removed(),
            match r { Some(st) => old(self).slot() == Some(*st) && final(self).slot() == Some(*final(st)), None => old(self).slot().is_none() && final(self).slot().is_none() }
    { unimplemented!() }
    /// `e.get().as_ref().map(|s| s.state)`
    #[verifier::external_body] pub fn peek_state(&self) -> (r: Option<SendState>)
        requires !self.removed()
        ensures r == (match self.slot() { Some(s) => Some(s.state), None => None })
    { unimplemented!() }
    /// `entry.remove_entry()` (borrowing instead of consuming, see RecvOcc::remove)
    #[verifier::external_body] pub fn remove_entry(&mut self)
        requires !old(self).removed()
        ensures final(self).removed(), final(self).key() == old(self).key(), final(self).fut() == old(self).fut()
    { unimplemented!() }
}
/// when the entry is gone the map holds its (possibly modified) slot, or no entry for that id if it was removed; other ids are untouched
#[verifier::external_body]
pub broadcast proof fn axiom_send_occ_resolved<'a>(e: SendOcc<'a>)
    ensures #[trigger] has_resolved(e) ==> e.fut().has(e.key()) == !e.removed() && (!e.removed() ==> send_slot(e.fut(), e.key()) == e.slot())
{}
/// what the send map holds for `id`: Some(slot) when there is an entry
pub uninterp spec fn send_slot(m: FxHashMap<super::code::StreamId, Option<Box<Send>>>, id: super::code::StreamId) -> Option<Send>;
/// `match self.send.entry(id) { Vacant(_) => .., Occupied(e) => e }`
#[verifier::external_body]
pub fn send_occupied<'a>(m: &'a mut FxHashMap<super::code::StreamId, Option<Box<Send>>>, id: super::code::StreamId) -> (r: Option<SendOcc<'a>>)
    ensures match r {
        Some(e) => old(m).has(id) && send_slot(*old(m), id) == e.slot() && e.key() == id && *final(m) == e.fut() && !e.removed(),
        None => !old(m).has(id) && *final(m) == *old(m),
    }
{ unimplemented!() }
/// `self.send.get_mut(&id).and_then(|s| s.as_mut())`: an already materialised send half, if any
#[verifier::external_body]
pub fn send_get<'a>(m: &'a mut FxHashMap<super::code::StreamId, Option<Box<Send>>>, id: super::code::StreamId) -> (r: Option<&'a mut Send>)
    // every Send kept in the map has a well-formed buffer (SendBuffer::wf, kept by every SendBuffer operation: unit send_buffer) and
    // nothing queued for retransmission has been acknowledged (caller discipline, see rwf there)
    ensures match r {
        Some(st) => st.pending.ok() && send_abs(*old(m), id) == Some(*st) && send_abs(*final(m), id) == Some(*final(st))
            && forall|o: super::code::StreamId| o != id ==> send_abs(*final(m), o) == send_abs(*old(m), o),
        // no entry, or a send half nothing has been done with yet (it is materialised on first use: Ready, nothing written, no FIN)
        None => *final(m) == *old(m) && (send_abs(*old(m), id) matches Some(s) ==> s.state is Ready && s.pending.fully_acked() && !s.fin_pending),
    }
{ unimplemented!() }
/// concatenation of frame images
pub open spec fn flat(s: Seq<Seq<u8>>) -> Seq<u8> decreases s.len() { if s.len() == 0 { Seq::empty() } else { flat(s.drop_last()) + s.last() } }
pub proof fn lemma_flat_push(s: Seq<Seq<u8>>, x: Seq<u8>) ensures flat(s.push(x)) == flat(s) + x { assert(s.push(x).drop_last() =~= s); }
/// the bytes stream `s` stores at the offsets of `m` (nothing for an empty frame, e.g. a bare FIN)
pub open spec fn stream_payload(s: Send, m: frame::StreamMeta) -> Seq<u8> {
    if m.offsets.start < m.offsets.end { s.pending.stored().subrange(m.offsets.start - s.pending.base(), m.offsets.end - s.pending.base()) } else { Seq::empty() }
}
/// `img` is a STREAM frame for `m`: header image (with or without length field) followed by exactly the bytes the stream stores at m.offsets
pub open spec fn stream_frame_ok(img: Seq<u8>, m: frame::StreamMeta, sends: FxHashMap<super::code::StreamId, Option<Box<Send>>>) -> bool {
    match send_abs(sends, m.id) {
        Some(s) => m.offsets.start <= m.offsets.end <= s.pending.end() && (m.offsets.start < m.offsets.end ==> s.pending.base() <= m.offsets.start)
            && exists|lf: bool| img =~= #[trigger] frame::meta_image(m, lf) + stream_payload(s, m),
        None => false,
    }
}
/// the peer's transport parameters, as far as StreamsState::set_params reads them
pub struct TransportParameters {
    pub initial_max_stream_data_uni: VarInt, pub initial_max_stream_data_bidi_local: VarInt, pub initial_max_stream_data_bidi_remote: VarInt,
    pub initial_max_streams_bidi: VarInt, pub initial_max_streams_uni: VarInt, pub initial_max_data: VarInt,
}
/// the reassembly buffer as far as StreamsState's own code looks at it
pub struct Assembler { pub br: u64 }
impl Assembler { pub fn bytes_read(&self) -> (r: u64) ensures r == self.br { self.br } }
/// The receive half of a stream as far as StreamsState's own code looks at it (`stopped`, `end`, `assembler.bytes_read()`), plus
/// `reset` standing for `state is ResetRecvd`.  `Recv::reset` carries the clauses proved on the real function in unit recv.
pub struct Recv { pub stopped: bool, pub end: u64, pub assembler: Assembler, pub reset: bool, pub sent_max_stream_data: u64 }
impl Recv {
    /// Recv::wf of unit recv (bytes_read <= end <= sent_max_stream_data < 2^62, ...)
    pub uninterp spec fn wf_spec(&self) -> bool;
    #[verifier::external_body] pub proof fn lemma_wf(&self) ensures self.wf_spec() ==> self.assembler.br <= self.end && self.end < 0x4000_0000_0000_0000 {}
    /// how much of this stream has already been returned to the connection-level window: everything received once the application
    /// stopped the stream (Recv::stop credits `end - bytes_read`, later frames are credited as they arrive), otherwise what was read
    pub open spec fn credited(&self) -> u64 { if self.stopped { self.end } else { self.assembler.br } }
    #[verifier::external_body]
    pub fn reset(&mut self, error_code: VarInt, final_offset: VarInt, received: u64, max_data: u64) -> (res: Result<bool, TransportError>)
        requires old(self).wf_spec(), received <= max_data < 0x4000_0000_0000_0000, final_offset.0 < 0x4000_0000_0000_0000
        ensures final(self).wf_spec(),
            match res {
                Ok(fresh) => final_offset.0 >= old(self).end && received + (final_offset.0 - old(self).end) <= max_data
                    && fresh == !old(self).reset && (fresh ==> final(self).reset) && (!fresh ==> *final(self) == *old(self))
                    && final(self).end == old(self).end && final(self).stopped == old(self).stopped && final(self).assembler.br == old(self).assembler.br,
                Err(_) => *final(self) == *old(self),
            }
    { unimplemented!() }
}
#[verifier::external_body] pub struct Bytes { inner: Vec<u8> }
impl View for Bytes { type V = Seq<u8>; uninterp spec fn view(&self) -> Seq<u8>; }
impl Bytes { #[verifier::external_body] pub fn len(&self) -> (r: usize) ensures r == self@.len() { unimplemented!() } }
impl Recv {
    #[verifier::external_body] pub fn is_receiving(&self) -> (r: bool) ensures r == !self.reset { unimplemented!() }
    #[verifier::external_body] pub fn can_send_flow_control(&self) -> (r: bool) { unimplemented!() }
    /// clauses of Recv::max_stream_data / record_sent_max_stream_data proved on the real functions in unit recv
    #[verifier::external_body] pub fn max_stream_data(&mut self, stream_receive_window: u64) -> (r: (u64, super::code::ShouldTransmit))
        requires old(self).wf_spec(), stream_receive_window < 0x4000_0000_0000_0000
        ensures *final(self) == *old(self), r.0 == old(self).assembler.br + stream_receive_window
    { unimplemented!() }
    #[verifier::external_body] pub fn record_sent_max_stream_data(&mut self, sent_value: u64) ensures final(self).wf_spec() == old(self).wf_spec(), final(self).assembler.br == old(self).assembler.br { unimplemented!() }
    /// the stream's final size once a FIN or a RESET_STREAM has fixed it (a reset always fixes it)
    pub uninterp spec fn final_size(&self) -> Option<u64>;
    #[verifier::external_body] pub fn final_offset(&self) -> (r: Option<u64>) ensures r == self.final_size(), self.reset ==> r.is_some() { unimplemented!() }
    /// whether the stream's final size is still unknown (no FIN seen, not reset)
    pub uninterp spec fn open_ended(&self) -> bool;
    #[verifier::external_body] pub fn final_offset_unknown(&self) -> (r: bool) ensures r == self.open_ended() { unimplemented!() }
    /// clauses of Recv::stop proved on the real function in unit recv: credit for everything received and not yet read, once
    #[verifier::external_body] pub fn stop(&mut self) -> (res: Result<(u64, super::code::ShouldTransmit), ClosedStream>)
        requires old(self).wf_spec()
        ensures final(self).wf_spec(), match res {
            Ok((credits, _)) => !old(self).stopped && final(self).stopped && credits == (if old(self).reset { 0 } else { old(self).end - old(self).assembler.br })
                && final(self).end == old(self).end && final(self).assembler.br == old(self).assembler.br && final(self).reset == old(self).reset
                && final(self).open_ended() == old(self).open_ended(),
            Err(_) => old(self).stopped && *final(self) == *old(self),
        }
    { unimplemented!() }
    /// clauses of Recv::ingest proved on the real function in unit recv (flow-control part)
    #[verifier::external_body]
    pub fn ingest(&mut self, frame: frame::Stream, payload_len: usize, received: u64, max_data: u64) -> (res: Result<(u64, bool), TransportError>)
        requires old(self).wf_spec(), !old(self).reset, frame.offset < 0x4000_0000_0000_0000, frame.data@.len() < 0x1_0000_0000, frame.data@.len() <= payload_len,
            received <= max_data < 0x4000_0000_0000_0000,
        ensures final(self).wf_spec(), final(self).stopped == old(self).stopped, final(self).assembler.br == old(self).assembler.br, final(self).reset == old(self).reset,
            match res {
                Ok((n, closed)) => {
                    let end = (frame.offset + frame.data@.len()) as u64;
                    &&& received + n <= max_data
                    &&& n == (if end > old(self).end { end - old(self).end } else { 0 })
                    &&& final(self).end == (if end > old(self).end { end } else { old(self).end })
                    &&& closed == (frame.fin && old(self).stopped)
                },
                Err(_) => final(self).end == old(self).end,
            }
    { unimplemented!() }
}
pub mod frame { use super::*; pub struct Stream { pub id: super::super::code::StreamId, pub offset: u64, pub fin: bool, pub data: Bytes }
impl Stream { pub const SIZE_BOUND: usize = 1 + 8 + 8 + 8; }
pub struct StreamMeta { pub id: super::super::code::StreamId, pub offsets: Range<u64>, pub fin: bool }
pub struct StopSending { pub id: super::super::code::StreamId, pub error_code: VarInt }
#[derive(Copy, Clone, PartialEq, Eq)] pub struct FrameType(pub u64);
impl FrameType {
//@ expand-consts quinn-proto/src/frame.rs :: macro frame_types :: pub const {name}: FrameType = FrameType({val});
}
impl StopSending {
    pub const SIZE_BOUND: usize = 1 + 8 + 8;
    /// STOP_SENDING: type, stream id, error code (unit frame_codec proves the real encoder against its image)
    #[verifier::external_body] pub fn encode(&self, out: &mut Vec<u8>) ensures final(out)@.len() <= old(out)@.len() + 17, final(out)@.len() >= old(out)@.len(), final(out)@.take(old(out)@.len() as int) == old(out)@ { unimplemented!() }
}
impl ResetStream {
    pub const SIZE_BOUND: usize = 1 + 8 + 8 + 8;
    /// RESET_STREAM: type, stream id, error code, final size
    #[verifier::external_body] pub fn encode(&self, out: &mut Vec<u8>) ensures final(out)@.len() <= old(out)@.len() + 25, final(out)@.len() >= old(out)@.len(), final(out)@.take(old(out)@.len() as int) == old(out)@ { unimplemented!() }
}
/// wire image of the frame header (type byte, stream id, offset unless 0, length if asked for): proved for the real encoder in unit frame_codec
pub uninterp spec fn meta_image(m: StreamMeta, length: bool) -> Seq<u8>;
impl StreamMeta {
    #[verifier::external_body]
    pub fn encode(&self, length: bool, out: &mut Vec<u8>)
        requires self.id.0 < 0x4000_0000_0000_0000, self.offsets.start <= self.offsets.end, self.offsets.end < 0x4000_0000_0000_0000
        ensures final(out)@ == old(out)@ + meta_image(*self, length),
            // sizes: every varint takes VarInt::size bytes (Kani: varint_roundtrip, all values)
            meta_image(*self, length).len() == 1 + vsize(self.id.0) + osize(self.offsets.start) + (if length { vsize((self.offsets.end - self.offsets.start) as u64) as int } else { 0int }),
    { unimplemented!() }
}
#[verifier::external_body] pub struct StreamMetaVec { x: u8 }
impl View for StreamMetaVec { type V = Seq<StreamMeta>; uninterp spec fn view(&self) -> Seq<StreamMeta>; }
impl StreamMetaVec {
    #[verifier::external_body] pub fn new() -> (r: Self) ensures r@ == Seq::<StreamMeta>::empty() { unimplemented!() }
    #[verifier::external_body] pub fn push(&mut self, m: StreamMeta) ensures final(self)@ == old(self)@.push(m) { unimplemented!() }
}
pub struct ResetStream { pub id: super::super::code::StreamId, pub error_code: VarInt, pub final_offset: VarInt } }
/// what the map holds for `id` once a lazily created Recv has been materialised (None: no such stream)
pub uninterp spec fn recv_abs(m: FxHashMap<super::code::StreamId, Option<StreamRecv>>, id: super::code::StreamId) -> Option<Recv>;
/// `self.recv.get_mut(&id).map(get_or_insert_recv(self.stream_receive_window))`: the stream's receive half, created on first use.
/// Every Recv kept in the map satisfies Recv::wf (established by Recv::new / reinit, kept by every Recv operation: unit recv).
#[verifier::external_body]
pub fn recv_entry<'a>(m: &'a mut FxHashMap<super::code::StreamId, Option<StreamRecv>>, id: super::code::StreamId, window: u64) -> (r: Option<&'a mut Recv>)
    ensures match r {
        Some(rs) => recv_abs(*old(m), id) == Some(*rs) && rs.wf_spec() && recv_abs(*final(m), id) == Some(*final(rs)),
        None => recv_abs(*old(m), id).is_none() && *final(m) == *old(m),
    }
{ unimplemented!() }
/// `HashMap::entry(id)` when occupied: exclusive access to one stream's slot.  `fut` is a prophecy: the map once the entry is gone.
#[verifier::external_body] pub struct RecvOcc<'a> { m: &'a mut FxHashMap<super::code::StreamId, Option<StreamRecv>> }
impl<'a> RecvOcc<'a> {
    pub uninterp spec fn cur(&self) -> Recv;
    pub uninterp spec fn key(&self) -> super::code::StreamId;
    pub uninterp spec fn fut(&self) -> FxHashMap<super::code::StreamId, Option<StreamRecv>>;
    /// `get_or_insert_recv(window)(entry.get_mut())`
    #[verifier::external_body] pub fn get_recv<'b>(&'b mut self, window: u64) -> (r: &'b mut Recv)
        requires !old(self).removed()
        ensures *r == old(self).cur(), final(self).cur() == *final(r), final(self).key() == old(self).key(), final(self).fut() == old(self).fut(), !final(self).removed()
    { unimplemented!() }
    /// whether `remove` was called on this entry
    pub uninterp spec fn removed(&self) -> bool;
    /// `entry.remove()`.  The real method consumes the entry; the shim borrows it instead, so that the one axiom below describes both
    /// ways an entry can end (a by-value shim plus a "dropped" axiom is vacuous at the join after a conditional move: Verus then assumes
    /// has_resolved of the moved value as well).
    #[verifier::external_body] pub fn remove(&mut self) -> (r: Option<StreamRecv>)
        requires !old(self).removed()
        ensures r.is_some(), final(self).removed(), final(self).key() == old(self).key(), final(self).fut() == old(self).fut()
    { unimplemented!() }
}
/// when the entry is gone the map holds its (possibly modified) stream, or nothing for that id if it was removed
#[verifier::external_body]
pub broadcast proof fn axiom_recv_occ_resolved<'a>(e: RecvOcc<'a>)
    ensures #[trigger] has_resolved(e) ==> recv_abs(e.fut(), e.key()) == (if e.removed() { None } else { Some(e.cur()) })
{}
/// `match self.state.recv.entry(id) { Occupied(s) => s, Vacant(_) => .. }`
#[verifier::external_body]
pub fn recv_occupied<'a>(m: &'a mut FxHashMap<super::code::StreamId, Option<StreamRecv>>, id: super::code::StreamId) -> (r: Option<RecvOcc<'a>>)
    ensures match r {
        Some(e) => recv_abs(*old(m), id) == Some(e.cur()) && e.cur().wf_spec() && e.key() == id && *final(m) == e.fut() && !e.removed(),
        None => recv_abs(*old(m), id).is_none() && *final(m) == *old(m),
    }
{ unimplemented!() }
/// `self.recv.remove(&id).flatten().unwrap()`
#[verifier::external_body]
pub fn recv_take(m: &mut FxHashMap<super::code::StreamId, Option<StreamRecv>>, id: super::code::StreamId) -> (r: StreamRecv)
    requires recv_abs(*old(m), id).is_some()
    ensures recv_abs(*final(m), id).is_none()
{ unimplemented!() }
pub assume_specification<T, E, F: FnOnce(&E)> [Result::<T, E>::inspect_err] (r: Result<T, E>, f: F) -> (o: Result<T, E>)
    ensures o == r;
/// connection::State: only `is_closed` is used here
#[verifier::external_body] pub struct State { x: u8 }
impl State {
    pub uninterp spec fn closed(&self) -> bool;
    #[verifier::external_body] pub fn is_closed(&self) -> (r: bool) ensures r == self.closed() { unimplemented!() }
}
pub proof fn lemma_stream_id_bits(index: u64, d: u64, s: u64)
    requires index < 0x4000_0000_0000_0000, d <= 1, s <= 1
    ensures ((index << 2) | (d << 1) | s) >> 2 == index, ((index << 2) | (d << 1) | s) & 0x1 == s, ((index << 2) | (d << 1) | s) & 0x2 == d << 1,
        (d << 1) == 2 * d
{
    assert(((index << 2) | (d << 1) | s) >> 2 == index) by (bit_vector) requires index < 0x4000_0000_0000_0000, d <= 1, s <= 1;
    assert(((index << 2) | (d << 1) | s) & 0x1 == s) by (bit_vector) requires d <= 1, s <= 1;
    assert(((index << 2) | (d << 1) | s) & 0x2 == d << 1) by (bit_vector) requires d <= 1, s <= 1;
    assert((d << 1) == 2 * d) by (bit_vector) requires d <= 1;
}
}
pub mod code {
use super::*; use super::shims::*; use super::shims::frame::StreamMetaVec;

//@ extract quinn-proto/src/lib.rs :: enum Side
//@ end
//@ extract quinn-proto/src/lib.rs :: enum Dir
//@ end
// (Verus quirk: an enum with explicit discriminants must precede any impl block in its module, else E0081)
impl vstd::std_specs::cmp::PartialEqSpecImpl for Side { open spec fn obeys_eq_spec() -> bool { true } open spec fn eq_spec(&self, other: &Side) -> bool { *self == *other } }
//@ extract quinn-proto/src/connection/streams/mod.rs :: enum StreamHalf
//@ end
impl vstd::std_specs::cmp::PartialEqSpecImpl for StreamHalf { open spec fn obeys_eq_spec() -> bool { true } open spec fn eq_spec(&self, other: &StreamHalf) -> bool { *self == *other } }
impl vstd::std_specs::cmp::PartialEqSpecImpl for Dir { open spec fn obeys_eq_spec() -> bool { true } open spec fn eq_spec(&self, other: &Dir) -> bool { *self == *other } }
// R9: states that `!side` has the obvious meaning (checked against the real body by the `ensures` below)
impl vstd::std_specs::ops::NotSpecImpl for Side {
    open spec fn obeys_not_spec() -> bool { true }
    open spec fn not_req(self) -> bool { true }
    open spec fn not_spec(self) -> Side { match self { Side::Client => Side::Server, Side::Server => Side::Client } }
}
impl core::ops::Not for Side {
    type Output = Self;
//@ extract quinn-proto/src/lib.rs :: impl ops::Not for Side::fn not
//@ ret r
//@ contract
        ensures r == (match self { Side::Client => Side::Server, Side::Server => Side::Client })
//@ end
}
//@ extract quinn-proto/src/lib.rs :: struct StreamId
//@ end
impl vstd::std_specs::cmp::PartialEqSpecImpl for StreamId { open spec fn obeys_eq_spec() -> bool { true } open spec fn eq_spec(&self, other: &StreamId) -> bool { *self == *other } }
//@ extract quinn-proto/src/lib.rs :: const MAX_STREAM_COUNT
//@ end
//@ extract quinn-proto/src/connection/streams/mod.rs :: struct ShouldTransmit
//@ derive Copy Clone
//@ end
impl ShouldTransmit {
//@ extract quinn-proto/src/connection/streams/mod.rs :: impl ShouldTransmit::fn should_transmit
//@ ret r
//@ contract
        ensures r == self.0
//@ end
}
pub enum StreamEvent { Opened { dir: Dir }, Readable { id: StreamId }, Writable { id: StreamId }, Finished { id: StreamId }, Stopped { id: StreamId, error_code: VarInt }, Available { dir: Dir } }

impl StreamId {
    pub open spec fn spec_initiator(self) -> Side { if self.0 & 0x1 == 0 { Side::Client } else { Side::Server } }
    pub open spec fn spec_dir(self) -> Dir { if self.0 & 0x2 == 0 { Dir::Bi } else { Dir::Uni } }
    pub open spec fn spec_index(self) -> u64 { self.0 >> 2 }
    pub open spec fn spec_new(initiator: Side, dir: Dir, index: u64) -> StreamId { StreamId((index << 2) | ((dir as u64) << 1) | (initiator as u64)) }
    /// distinct (direction, index) pairs give distinct ids
    pub proof fn lemma_new_distinct(s: Side, d1: Dir, i1: u64, d2: Dir, i2: u64)
        requires i1 < 0x4000_0000_0000_0000, i2 < 0x4000_0000_0000_0000, d1 != d2 || i1 != i2
        ensures Self::spec_new(s, d1, i1) != Self::spec_new(s, d2, i2)
    {
        lemma_stream_id_bits(i1, d1 as u64, s as u64);
        lemma_stream_id_bits(i2, d2 as u64, s as u64);
    }
//@ extract quinn-proto/src/lib.rs :: impl StreamId::fn new
//@ ret r
//@ contract
        requires index < 0x4000_0000_0000_0000
        ensures r.spec_index() == index, r.spec_dir() == dir, r.spec_initiator() == initiator, r == Self::spec_new(initiator, dir, index)
//@ at-start
        proof { lemma_stream_id_bits(index, dir as u64, initiator as u64); }
//@ end
//@ extract quinn-proto/src/lib.rs :: impl StreamId::fn initiator
//@ attr #[verifier::when_used_as_spec(spec_initiator)]
//@ ret r
//@ contract
        ensures r == self.spec_initiator()
//@ end
//@ extract quinn-proto/src/lib.rs :: impl StreamId::fn dir
//@ attr #[verifier::when_used_as_spec(spec_dir)]
//@ ret r
//@ contract
        ensures r == self.spec_dir()
//@ end
//@ extract quinn-proto/src/lib.rs :: impl StreamId::fn index
//@ attr #[verifier::when_used_as_spec(spec_index)]
//@ ret r
//@ contract
        ensures r == self.spec_index()
//@ end
}

//@ extract quinn-proto/src/connection/streams/state.rs :: struct StreamsState
//@ end

/// stream `id`, if it has a materialised send half on which something was sent (bytes not yet acknowledged, a FIN still to send, or a
/// FIN already sent: state DataSent), is marked for transmission from the start again and otherwise untouched
pub open spec fn resent(m0: FxHashMap<StreamId, Option<Box<Send>>>, m1: FxHashMap<StreamId, Option<Box<Send>>>, id: StreamId) -> bool {
    match send_abs(m0, id) {
        Some(s0) => (s0.state is DataSent || !s0.pending.fully_acked() || s0.fin_pending) ==>
            (send_abs(m1, id) matches Some(s1) && s1.pending.resend_all() && s1.state == s0.state && s1.fin_pending == s0.fin_pending && s1.pending.g@ == s0.pending.g@),
        None => true,
    }
}
/// stream `id`, if something was sent on it (see `resent`), has an entry in the scheduling queue
pub open spec fn queued(m0: FxHashMap<StreamId, Option<Box<Send>>>, q: Set<StreamId>, id: StreamId) -> bool {
    send_abs(m0, id) matches Some(s0) ==> ((s0.state is DataSent || !s0.pending.fully_acked() || s0.fin_pending) ==> q.contains(id))
}
pub open spec fn sat_sub(a: u64, b: u64) -> u64 { if a >= b { (a - b) as u64 } else { 0 } }
pub open spec fn sat_add(a: u64, b: u64) -> u64 { if a + b > u64::MAX { u64::MAX } else { (a + b) as u64 } }
pub open spec fn di(d: Dir) -> int { d as int }

impl StreamsState {
    /// opaque: hash-map insertion of the new stream's halves; touches no counter
    #[verifier::external_body]
    pub fn insert(&mut self, remote: bool, id: StreamId)
        ensures final(self).side == old(self).side, final(self).next == old(self).next, final(self).max == old(self).max, final(self).max_remote == old(self).max_remote,
            final(self).next_remote == old(self).next_remote, final(self).next_reported_remote == old(self).next_reported_remote,
            final(self).allocated_remote_count == old(self).allocated_remote_count, final(self).max_concurrent_remote_count == old(self).max_concurrent_remote_count,
            final(self).send_streams == old(self).send_streams, final(self).streams_blocked == old(self).streams_blocked,
            final(self).max_data == old(self).max_data, final(self).data_sent == old(self).data_sent, final(self).unacked_data == old(self).unacked_data,
            final(self).fc() == old(self).fc(), final(self).send_window == old(self).send_window,
    { unimplemented!() }

    /// flow-control part of the state, which the hash-map / event-queue helpers below do not touch
    pub open spec fn fc(&self) -> (u64, u64, u64, VarInt, u64, u64) {
        (self.local_max_data, self.data_recvd, self.receive_window_shrink_debt, self.sent_max_data, self.receive_window, self.stream_receive_window)
    }
    /// the application is only ever handed remote streams within the advertised stream count (`accept` hands out ids below next_remote)
    pub open spec fn remote_bounded(&self) -> bool { self.next_remote[0] <= self.max_remote[0] && self.next_remote[1] <= self.max_remote[1] }
    /// what was announced to the peer never exceeds the limit itself
    pub open spec fn announce_ok(&self) -> bool { self.sent_max_remote[0] <= self.max_remote[0] && self.sent_max_remote[1] <= self.max_remote[1] }
    /// the limit on remote streams of direction k has moved far enough past the last announcement (1/8 of the concurrency window)
    pub open spec fn announce_due(&self, k: int) -> bool { self.max_remote[k] - self.sent_max_remote[k] > self.max_concurrent_remote_count[k] / 8 }
    /// send-side connection flow-control counters
    pub open spec fn sfc(&self) -> (u64, u64, u64, u64) { (self.max_data, self.data_sent, self.unacked_data, self.send_window) }
    /// opaque: bookkeeping when a receive half is dropped (recycling the allocation, then stream_freed(id, Recv), which is under
    /// contract above: the window of remote streams only ever grows and no stream is opened); touches no flow-control field
    #[verifier::external_body]
    pub fn stream_recv_freed(&mut self, id: StreamId, recv: StreamRecv)
        ensures final(self).fc() == old(self).fc(), final(self).recv == old(self).recv, final(self).side == old(self).side,
            final(self).next_remote == old(self).next_remote, final(self).max_remote[0] >= old(self).max_remote[0], final(self).max_remote[1] >= old(self).max_remote[1],
            final(self).sent_max_remote == old(self).sent_max_remote, final(self).max_concurrent_remote_count == old(self).max_concurrent_remote_count,
    { unimplemented!() }
//@ extract quinn-proto/src/connection/streams/state.rs :: impl StreamsState::fn queue_max_stream_id
//@ props C11
//@ ret r
//@ replace Dir::iter() => dir_iter()
//@ loop-iter 0 itq
//@ loop 0
            invariant
                *self == *old(self), self.announce_ok(),
                forall|k: int| 0 <= k < 2 ==> #[trigger] pending.max_stream_id[k] == (old(pending).max_stream_id[k] || (k < itq.index@ && self.announce_due(k))),
                pending.reset_stream == old(pending).reset_stream, pending.stop_sending == old(pending).stop_sending, pending.max_data == old(pending).max_data,
//@ contract
        requires old(self).announce_ok(),
        ensures *final(self) == *old(self),
            // MAX_STREAMS is queued for a direction exactly when the raised limit is worth announcing (or was queued already)
            forall|k: int| 0 <= k < 2 ==> #[trigger] final(pending).max_stream_id[k] == (old(pending).max_stream_id[k] || old(self).announce_due(k)),
            final(pending).reset_stream == old(pending).reset_stream, final(pending).stop_sending == old(pending).stop_sending, final(pending).max_data == old(pending).max_data,
//@ end
//@ extract quinn-proto/src/connection/streams/state.rs :: impl StreamsState::fn on_stream_frame
//@ props C06
//@ at-start
        proof { let x = stream.0; assert(x >> 2 < 0x4000_0000_0000_0000u64) by (bit_vector); }
//@ contract
        ensures final(self).fc() == old(self).fc(), final(self).sfc() == old(self).sfc(), final(self).recv == old(self).recv, final(self).side == old(self).side, final(self).send == old(self).send,
            final(self).max_remote == old(self).max_remote, final(self).next == old(self).next, final(self).max == old(self).max,
            final(self).allocated_remote_count == old(self).allocated_remote_count, final(self).max_concurrent_remote_count == old(self).max_concurrent_remote_count,
            final(self).send_streams == old(self).send_streams, final(self).next_reported_remote == old(self).next_reported_remote,
            !notify_readable ==> final(self).events@ == old(self).events@,
            // a frame naming a remote stream implicitly opens it and every lower-numbered stream of its kind -- and nothing else
            ({ let d = di(stream.dir());
               &&& final(self).next_remote[d] == (if stream.initiator() != old(self).side && stream.index() >= old(self).next_remote[d] { (stream.index() + 1) as u64 } else { old(self).next_remote[d] })
               &&& final(self).next_remote[1 - d] == old(self).next_remote[1 - d] }),
//@ end

//@ extract quinn-proto/src/connection/streams/state.rs :: impl StreamsState::fn new
//@ props C05 C06
//@ ret r
//@ replace Dir::iter() => dir_iter()
//@ contract
        requires max_remote_uni.0 <= 0x1000_0000_0000_0000, max_remote_bi.0 <= 0x1000_0000_0000_0000
        ensures
            // a fresh connection: nothing sent, nothing granted by the peer yet, the configured windows advertised
            r.side == side, r.data_sent == 0 && r.max_data == 0 && r.unacked_data == 0 && r.send_window == send_window,
            r.next[0] == 0 && r.next[1] == 0 && r.max[0] == 0 && r.max[1] == 0 && r.send_streams == 0,
            r.data_recvd == 0 && r.local_max_data == receive_window.0 && r.sent_max_data == receive_window && r.receive_window == receive_window.0
                && r.receive_window_shrink_debt == 0 && r.stream_receive_window == stream_receive_window.0,
            r.max_remote[0] == max_remote_bi.0 && r.max_remote[1] == max_remote_uni.0,
            r.allocated_remote_count == r.max_remote && r.max_concurrent_remote_count == r.max_remote,
//@ loop-iter 0 od
//@ loop 0
            invariant
                this.side == side, this.data_sent == 0 && this.max_data == 0 && this.unacked_data == 0 && this.send_window == send_window,
                this.next[0] == 0 && this.next[1] == 0 && this.max[0] == 0 && this.max[1] == 0 && this.send_streams == 0,
                this.data_recvd == 0 && this.local_max_data == receive_window.0 && this.sent_max_data == receive_window && this.receive_window == receive_window.0
                    && this.receive_window_shrink_debt == 0 && this.stream_receive_window == stream_receive_window.0,
                this.max_remote[0] == max_remote_bi.0 && this.max_remote[1] == max_remote_uni.0, max_remote_uni.0 <= 0x1000_0000_0000_0000, max_remote_bi.0 <= 0x1000_0000_0000_0000,
                this.allocated_remote_count == this.max_remote && this.max_concurrent_remote_count == this.max_remote,
//@ loop-iter 1 ir
//@ loop 1
                invariant
                    ir.seq().len() <= 0x1000_0000_0000_0000, i == ir.index@,
                    this.side == side, this.data_sent == 0 && this.max_data == 0 && this.unacked_data == 0 && this.send_window == send_window,
                    this.next[0] == 0 && this.next[1] == 0 && this.max[0] == 0 && this.max[1] == 0 && this.send_streams == 0,
                    this.data_recvd == 0 && this.local_max_data == receive_window.0 && this.sent_max_data == receive_window && this.receive_window == receive_window.0
                        && this.receive_window_shrink_debt == 0 && this.stream_receive_window == stream_receive_window.0,
                    this.max_remote[0] == max_remote_bi.0 && this.max_remote[1] == max_remote_uni.0, max_remote_uni.0 <= 0x1000_0000_0000_0000, max_remote_bi.0 <= 0x1000_0000_0000_0000,
                    this.allocated_remote_count == this.max_remote && this.max_concurrent_remote_count == this.max_remote,
//@ end
//@ extract quinn-proto/src/connection/streams/state.rs :: impl StreamsState::fn write_control_frames
//@ props C13 C03
//@ vis pub
//@ replace self.send.get_mut(&id).and_then(|s| s.as_mut()) => send_get(&mut self.send, id)
//@ replace ws:self .recv .get_mut(&id) .and_then(|s| s.as_mut()) .and_then(|s| s.as_open_recv_mut()) => recv_open(&mut self.recv, id)
//@ replace let Some(&id) = pending.max_stream_data.iter().next() else { => let Some(id) = pending.max_stream_data.pick() else {
//@ replace VarInt::try_from(stream.offset()).expect("impossibly large offset") => varint_try_from(stream.offset()).expect("impossibly large offset")
//@ replace VarInt::try_from(self.local_max_data).unwrap_or(VarInt::MAX) => varint_try_from(self.local_max_data).unwrap_or(VarInt::MAX)
//@ replace stats.reset_stream += 1 => stats.bump()
//@ replace stats.stop_sending += 1 => stats.bump()
//@ replace stats.max_data += 1 => stats.bump()
//@ replace stats.max_stream_data += 1 => stats.bump()
//@ replace stats.max_streams_uni += 1 => stats.bump()
//@ replace stats.max_streams_bidi += 1 => stats.bump()
//@ replace stats.streams_blocked_uni += 1 => stats.bump()
//@ replace stats.streams_blocked_bidi += 1 => stats.bump()
//@ replace Dir::iter() => dir_iter()
//@ loop 0
            invariant
                self.stream_receive_window == old(self).stream_receive_window, self.max_remote == old(self).max_remote, self.max == old(self).max, max_size <= 0x7fff_ffff_ffff_0000,
                self.max_remote[0] <= 0x1000_0000_0000_0000, self.max_remote[1] <= 0x1000_0000_0000_0000, self.max[0] <= 0x1000_0000_0000_0000, self.max[1] <= 0x1000_0000_0000_0000,
                forall|i: StreamId| (#[trigger] send_abs(self.send, i)) matches Some(st) ==> st.pending.end() < 0x4000_0000_0000_0000,
                recv_headroom(self.recv, self.stream_receive_window),
                buf@.len() <= max_size, buf@.len() >= old(buf)@.len(), buf@.take(old(buf)@.len() as int) == old(buf)@,
            decreases pending.reset_stream@.len()
//@ loop 1
            invariant
                self.stream_receive_window == old(self).stream_receive_window, self.max_remote == old(self).max_remote, self.max == old(self).max, max_size <= 0x7fff_ffff_ffff_0000,
                self.max_remote[0] <= 0x1000_0000_0000_0000, self.max_remote[1] <= 0x1000_0000_0000_0000, self.max[0] <= 0x1000_0000_0000_0000, self.max[1] <= 0x1000_0000_0000_0000,
                forall|i: StreamId| (#[trigger] send_abs(self.send, i)) matches Some(st) ==> st.pending.end() < 0x4000_0000_0000_0000,
                recv_headroom(self.recv, self.stream_receive_window),
                buf@.len() <= max_size, buf@.len() >= old(buf)@.len(), buf@.take(old(buf)@.len() as int) == old(buf)@,
            decreases pending.stop_sending@.len()
//@ loop 2
            invariant
                self.stream_receive_window == old(self).stream_receive_window, self.max_remote == old(self).max_remote, self.max == old(self).max, max_size <= 0x7fff_ffff_ffff_0000,
                self.max_remote[0] <= 0x1000_0000_0000_0000, self.max_remote[1] <= 0x1000_0000_0000_0000, self.max[0] <= 0x1000_0000_0000_0000, self.max[1] <= 0x1000_0000_0000_0000,
                forall|i: StreamId| (#[trigger] send_abs(self.send, i)) matches Some(st) ==> st.pending.end() < 0x4000_0000_0000_0000,
                recv_headroom(self.recv, self.stream_receive_window),
                buf@.len() <= max_size, buf@.len() >= old(buf)@.len(), buf@.take(old(buf)@.len() as int) == old(buf)@,
            decreases pending.max_stream_data@.len()
//@ loop-iter 3 it3
//@ loop 3
            invariant
                self.stream_receive_window == old(self).stream_receive_window, self.max_remote == old(self).max_remote, self.max == old(self).max, max_size <= 0x7fff_ffff_ffff_0000,
                self.max_remote[0] <= 0x1000_0000_0000_0000, self.max_remote[1] <= 0x1000_0000_0000_0000, self.max[0] <= 0x1000_0000_0000_0000, self.max[1] <= 0x1000_0000_0000_0000,
                forall|i: StreamId| (#[trigger] send_abs(self.send, i)) matches Some(st) ==> st.pending.end() < 0x4000_0000_0000_0000,
                recv_headroom(self.recv, self.stream_receive_window),
                buf@.len() <= max_size, buf@.len() >= old(buf)@.len(), buf@.take(old(buf)@.len() as int) == old(buf)@,
//@ loop-iter 4 it4
//@ loop 4
            invariant
                self.stream_receive_window == old(self).stream_receive_window, self.max_remote == old(self).max_remote, self.max == old(self).max, max_size <= 0x7fff_ffff_ffff_0000,
                self.max_remote[0] <= 0x1000_0000_0000_0000, self.max_remote[1] <= 0x1000_0000_0000_0000, self.max[0] <= 0x1000_0000_0000_0000, self.max[1] <= 0x1000_0000_0000_0000,
                forall|i: StreamId| (#[trigger] send_abs(self.send, i)) matches Some(st) ==> st.pending.end() < 0x4000_0000_0000_0000,
                recv_headroom(self.recv, self.stream_receive_window),
                buf@.len() <= max_size, buf@.len() >= old(buf)@.len(), buf@.take(old(buf)@.len() as int) == old(buf)@,
//@ contract
        requires old(buf)@.len() <= max_size, max_size <= 0x7fff_ffff_ffff_0000, recv_headroom(old(self).recv, old(self).stream_receive_window),
            // history: every send buffer's end is below the peer's stream limit (a varint); stream counts are at most 2^60; the receive window is a varint
            forall|id: StreamId| (#[trigger] send_abs(old(self).send, id)) matches Some(st) ==> st.pending.end() < 0x4000_0000_0000_0000,
            old(self).stream_receive_window < 0x4000_0000_0000_0000,
            old(self).max_remote[0] <= 0x1000_0000_0000_0000, old(self).max_remote[1] <= 0x1000_0000_0000_0000,
            old(self).max[0] <= 0x1000_0000_0000_0000, old(self).max[1] <= 0x1000_0000_0000_0000,
        ensures
            // control frames never take the packet past the space it was given, and what was already in it is untouched
            final(buf)@.len() <= max_size, final(buf)@.len() >= old(buf)@.len(), final(buf)@.take(old(buf)@.len() as int) == old(buf)@,
//@ end
//@ extract quinn-proto/src/connection/streams/state.rs :: impl StreamsState::fn write_stream_frames
//@ props C01 C13 C10
//@ ret r
//@ attr #[verifier::rlimit(100)]
//@ replace self.send.get_mut(&id).and_then(|s| s.as_mut()) => send_get(&mut self.send, id)
//@ contract
        requires old(buf)@.len() <= max_buf_size, max_buf_size <= 0x7fff_ffff_ffff_0000,
        ensures
            // STREAM frames never take the packet past the space it was given, and what was already in it is untouched
            final(buf)@.len() <= max_buf_size,
            final(buf)@.len() >= old(buf)@.len(), final(buf)@.take(old(buf)@.len() as int) == old(buf)@,
            // every frame reported to the caller is a well-formed range
            forall|i: int| 0 <= i < r@.len() ==> (#[trigger] r@[i]).offsets.start <= r@[i].offsets.end,
            // C01 / C10: what was appended is one STREAM frame per reported range, each carrying exactly the bytes its stream stores there
            exists|imgs: Seq<Seq<u8>>| imgs.len() == r@.len() && final(buf)@ == old(buf)@ + flat(imgs)
                && forall|i: int| 0 <= i < r@.len() ==> stream_frame_ok(#[trigger] imgs[i], r@[i], old(self).send),
//@ at-start
        let ghost maxb = max_buf_size;
        let ghost buf0 = buf@;
        let ghost mut nolen = false;
        let ghost mut imgs: Seq<Seq<u8>> = Seq::empty();
        let ghost sends0 = self.send;
//@ loop 0
            invariant
                max_buf_size == maxb, maxb <= 0x7fff_ffff_ffff_0000, buf@.len() <= maxb, buf@.len() >= buf0.len(), buf@.take(buf0.len() as int) == buf0, buf0 == old(buf)@,
                forall|i: int| 0 <= i < stream_frames@.len() ==> (#[trigger] stream_frames@[i]).offsets.start <= stream_frames@[i].offsets.end,
                // a frame written without a length field runs to the end of the packet: nothing may follow it
                nolen ==> buf@.len() == maxb,
                imgs.len() == stream_frames@.len(), buf@ == buf0 + flat(imgs),
                forall|i: int| 0 <= i < stream_frames@.len() ==> stream_frame_ok(#[trigger] imgs[i], stream_frames@[i], sends0),
                // sending does not change what a stream stores
                forall|o: StreamId| (#[trigger] send_abs(self.send, o)) matches Some(s1) ==> (send_abs(sends0, o) matches Some(s0)
                    && s1.pending.stored() == s0.pending.stored() && s1.pending.base() == s0.pending.base() && s1.pending.end() == s0.pending.end()),
            decreases maxb - buf@.len(), self.pending.qlen()
//@ loop-start 0
            let ghost l0 = buf@.len();
            let ghost bufl0 = buf@;
//@ after let Some(stream) = self.send.get_mut(&id)
            let ghost sg = *stream;
            proof {
                assert(send_abs(sends0, id) matches Some(s0) && sg.pending.stored() == s0.pending.stored() && sg.pending.base() == s0.pending.base() && sg.pending.end() == s0.pending.end());
            }
//@ after meta.encode(
            let ghost lm = buf@.len();
            let ghost bufm = buf@;
            proof {
                assert(lm == l0 + 1 + vsize(id.0) + osize(meta.offsets.start) + (if encode_length { vsize((meta.offsets.end - meta.offsets.start) as u64) as int } else { 0int }));
            }
//@ loop 1
                invariant
                    meta.offsets.start <= offsets.start <= offsets.end, offsets.end == meta.offsets.end,
                    stream.pending.ok(), offsets.end <= stream.pending.end(), offsets.start < offsets.end ==> stream.pending.base() <= offsets.start,
                    stream.pending.stored() == sg.pending.stored() && stream.pending.base() == sg.pending.base() && stream.pending.end() == sg.pending.end(),
                    buf@.len() == lm + (offsets.start - meta.offsets.start),
                    buf@.take(lm as int) == bufm,
                    // C01: the payload of the frame is what the stream stores at these offsets
                    meta.offsets.start < offsets.start ==> stream.pending.base() <= meta.offsets.start,
                    buf@.skip(lm as int) =~= stream.pending.stored().subrange(meta.offsets.start - stream.pending.base(), offsets.start - stream.pending.base()) || meta.offsets.start == offsets.start,
                decreases offsets.end - offsets.start
//@ after stream_frames.push(meta);
            proof {
                nolen = !encode_length;
                assert(buf@.take(buf0.len() as int) =~= buf0) by { assert(bufm.take(buf0.len() as int) == buf0); }
                let img = buf@.skip(l0 as int);
                let st0 = send_abs(sends0, id)->Some_0;
                let mi = frame::meta_image(meta, encode_length);
                assert(bufm =~= bufl0 + mi);
                assert(buf@.len() >= lm && lm == l0 + mi.len());
                assert(buf@.take(l0 as int) =~= bufl0) by { assert(buf@.take(lm as int).take(l0 as int) =~= buf@.take(l0 as int)); assert(bufm.take(l0 as int) =~= bufl0); }
                assert(img =~= mi + buf@.skip(lm as int)) by {
                    assert forall|j: int| 0 <= j < mi.len() implies img[j] == mi[j] by { assert(buf@.take(lm as int)[l0 + j] == bufm[l0 + j]); }
                }
                assert(stream.pending.stored() == st0.pending.stored() && stream.pending.base() == st0.pending.base() && stream.pending.end() == st0.pending.end());
                assert(stream_frame_ok(img, meta, sends0)) by {
                    if meta.offsets.start < meta.offsets.end {
                        assert(buf@.skip(lm as int) =~= st0.pending.stored().subrange(meta.offsets.start - st0.pending.base(), meta.offsets.end - st0.pending.base()));
                    } else {
                        assert(buf@.skip(lm as int) =~= Seq::<u8>::empty());
                    }
                    assert(img =~= frame::meta_image(meta, encode_length) + stream_payload(st0, meta));
                }
                lemma_flat_push(imgs, img);
                assert(buf@ =~= bufl0 + img);
                imgs = imgs.push(img);
            }
//@ end
//@ extract quinn-proto/src/connection/streams/state.rs :: impl StreamsState::fn received_max_stream_data
//@ props C05 C03 C06
//@ ret res
//@ replace ws:self .send .get_mut(&id) .map(get_or_insert_send(max_send_data)) => send_entry(&mut self.send, id, max_send_data)
//@ contract
        requires old(self).data_sent <= old(self).max_data
        ensures
            final(self).max_data == old(self).max_data, final(self).data_sent == old(self).data_sent, final(self).unacked_data == old(self).unacked_data,
            // a frame naming a stream beyond the advertised count never opens it (C06)
            old(self).remote_bounded() ==> final(self).remote_bounded(),
            res is Err ==> final(self).next_remote == old(self).next_remote,
            match res {
                // a stream's limit only ever moves up, to the value just received (and only while the stream can still send)
                Ok(()) => !(id.initiator() != old(self).side && id.dir() == Dir::Uni) && match send_abs(old(self).send, id) {
                    Some(s0) => send_abs(final(self).send, id) matches Some(s1) && s1.max_data == (if offset > s0.max_data && s0.state == SendState::Ready { offset } else { s0.max_data })
                        && s1.state == s0.state && s1.pending == s0.pending,
                    None => final(self).send == old(self).send,
                },
                Err(e) => final(self).send == old(self).send && if e.code == Code::STREAM_LIMIT_ERROR {
                        id.initiator() != old(self).side && id.index() >= old(self).max_remote[di(id.dir())]
                    } else {
                        e.code == Code::STREAM_STATE_ERROR
                            && ((id.initiator() != old(self).side && id.dir() == Dir::Uni) || (id.initiator() == old(self).side && send_abs(old(self).send, id).is_none()))
                    },
            }
//@ end
//@ extract quinn-proto/src/connection/streams/state.rs :: impl StreamsState::fn zero_rtt_rejected
//@ props C05 C17
//@ replace Dir::iter() => dir_iter()
//@ contract
        requires
            // every stream this side has opened has its entries (they are created together with the stream)
            old(self).next[0] <= 0x1000_0000_0000_0000, old(self).next[1] <= 0x1000_0000_0000_0000,
            forall|d: Dir, i: u64| i < old(self).next[di(d)] ==> #[trigger] old(self).send.has(StreamId::spec_new(old(self).side, d, i)),
            forall|i: u64| i < old(self).next[0] ==> #[trigger] old(self).recv.has(StreamId::spec_new(old(self).side, Dir::Bi, i)),
        ensures
            // back to the state of a connection on which the peer has not granted anything yet: no stream is open, nothing counts as
            // sent, and no credit remembered from the previous connection survives
            final(self).next[0] == 0 && final(self).next[1] == 0, final(self).send_streams == 0, final(self).data_sent == 0,
            final(self).max_data == 0,
            // ... and nothing counts against the send window: the discarded streams' bytes can never be acknowledged
            final(self).unacked_data == 0,
//@ loop-iter 0 od
//@ loop 0
            invariant
                od.seq() == seq![Dir::Bi, Dir::Uni], self.side == old(self).side,
                forall|j: int| 0 <= j < od.index@ ==> self.next[di(od.seq()[j])] == 0,
                forall|j: int| od.index@ <= j < 2 ==> self.next[di(od.seq()[j])] == old(self).next[di(od.seq()[j])],
                old(self).next[0] <= 0x1000_0000_0000_0000, old(self).next[1] <= 0x1000_0000_0000_0000, self.next[0] <= 0x1000_0000_0000_0000, self.next[1] <= 0x1000_0000_0000_0000,
                forall|d: Dir, i: u64| i < self.next[di(d)] ==> #[trigger] self.send.has(StreamId::spec_new(self.side, d, i)),
                od.index@ == 0 ==> forall|i: u64| i < self.next[0] ==> #[trigger] self.recv.has(StreamId::spec_new(self.side, Dir::Bi, i)),
                self.max_data == old(self).max_data, self.data_sent == old(self).data_sent,
//@ loop 1
                invariant
                    self.side == old(self).side, self.next == me_next, self.max_data == old(self).max_data, self.data_sent == old(self).data_sent,
                    self.next[0] <= 0x1000_0000_0000_0000, self.next[1] <= 0x1000_0000_0000_0000,
                    forall|d: Dir, k: u64| (d != dir || k >= i) && k < self.next[di(d)] ==> #[trigger] self.send.has(StreamId::spec_new(self.side, d, k)),
                    dir == Dir::Bi ==> forall|k: u64| i <= k < self.next[0] ==> #[trigger] self.recv.has(StreamId::spec_new(self.side, Dir::Bi, k)),
//@ loop-start 0
            let ghost me_next = self.next;
//@ after let id = StreamId::new(self.side, dir, i);
                proof {
                    assert forall|d2: Dir, k: u64| (d2 != dir || k != i) && k < 0x4000_0000_0000_0000 implies #[trigger] StreamId::spec_new(self.side, d2, k) != id by {
                        StreamId::lemma_new_distinct(self.side, d2, k, dir, i);
                    }
                }
//@ end
//@ extract quinn-proto/src/connection/streams/state.rs :: impl StreamsState::fn retransmit
//@ props C01
//@ boolops
//@ replace self.send.get_mut(&frame.id).and_then(|s| s.as_mut()) => send_get(&mut self.send, frame.id)
//@ contract
        requires
            // scheduling invariant: a stream that has something to transmit has an entry in the queue
            forall|i: StreamId| (#[trigger] send_abs(old(self).send, i)) matches Some(st) && st.pending_spec() ==> old(self).pending.ids().contains(i),
        ensures
            // C01: a lost STREAM frame is sent again - its byte range joins what the stream has to retransmit, a lost FIN is pending
            // again, and the stream is scheduled; a stream that no longer exists is left alone
            match send_abs(old(self).send, frame.id) {
                // (a send half nothing has been done with yet - Ready, nothing outstanding, no FIN - may still be unmaterialised)
                Some(s0) => (s0.state is Ready && s0.pending.fully_acked() && !s0.fin_pending && final(self).send == old(self).send)
                    || (send_abs(final(self).send, frame.id) matches Some(s1)
                        && s1.pending.lost@ == s0.pending.lost@.union(vstd::set_lib::set_int_range(frame.offsets.start as int, frame.offsets.end as int))
                        && s1.fin_pending == (s0.fin_pending || frame.fin) && s1.state == s0.state
                        && final(self).pending.ids().contains(frame.id)),
                None => final(self).send == old(self).send,
            },
            final(self).fc() == old(self).fc(), final(self).sfc() == old(self).sfc(),
//@ end
//@ extract quinn-proto/src/connection/streams/state.rs :: impl StreamsState::fn retransmit_all_for_0rtt
//@ props C01 C17
//@ replace self.send.get_mut(&id).and_then(|s| s.as_mut()) => send_get(&mut self.send, id)
//@ replace Dir::iter() => dir_iter()
//@ loop-iter 0 od
//@ loop 0
            invariant
                od.seq() == seq![Dir::Bi, Dir::Uni], self.next == old(self).next, self.next[0] <= 0x1000_0000_0000_0000, self.next[1] <= 0x1000_0000_0000_0000,
                old(self).pending.ids().subset_of(self.pending.ids()),
                forall|i: StreamId| (#[trigger] send_abs(old(self).send, i)) matches Some(st) && st.pending_spec() ==> old(self).pending.ids().contains(i),
                forall|j: int, k: u64| 0 <= j < od.index@ && k < self.next[di(od.seq()[j])] ==> queued(old(self).send, self.pending.ids(), #[trigger] StreamId::spec_new(Side::Client, od.seq()[j], k)),
                forall|j: int, k: u64| 0 <= j < od.index@ && k < self.next[di(od.seq()[j])] ==> resent(old(self).send, self.send, #[trigger] StreamId::spec_new(Side::Client, od.seq()[j], k)),
                forall|j: int, k: u64| od.index@ <= j < 2 && k < self.next[di(od.seq()[j])] ==> send_abs(self.send, #[trigger] StreamId::spec_new(Side::Client, od.seq()[j], k)) == send_abs(old(self).send, StreamId::spec_new(Side::Client, od.seq()[j], k)),
//@ loop 1
                invariant
                    self.next == old(self).next, self.next[0] <= 0x1000_0000_0000_0000, self.next[1] <= 0x1000_0000_0000_0000,
                    od.seq() == seq![Dir::Bi, Dir::Uni], dir == od.seq()[od.index@], 0 <= od.index@ < 2,
                    old(self).pending.ids().subset_of(self.pending.ids()),
                    forall|i: StreamId| (#[trigger] send_abs(old(self).send, i)) matches Some(st) && st.pending_spec() ==> old(self).pending.ids().contains(i),
                    forall|j: int, k: u64| 0 <= j < od.index@ && k < self.next[di(od.seq()[j])] ==> queued(old(self).send, self.pending.ids(), #[trigger] StreamId::spec_new(Side::Client, od.seq()[j], k)),
                    forall|k: u64| k < index ==> queued(old(self).send, self.pending.ids(), #[trigger] StreamId::spec_new(Side::Client, dir, k)),
                    forall|j: int, k: u64| 0 <= j < od.index@ && k < self.next[di(od.seq()[j])] ==> resent(old(self).send, self.send, #[trigger] StreamId::spec_new(Side::Client, od.seq()[j], k)),
                    forall|k: u64| k < index ==> resent(old(self).send, self.send, #[trigger] StreamId::spec_new(Side::Client, dir, k)),
                    forall|k: u64| index <= k < self.next[di(dir)] ==> send_abs(self.send, #[trigger] StreamId::spec_new(Side::Client, dir, k)) == send_abs(old(self).send, StreamId::spec_new(Side::Client, dir, k)),
                    forall|j: int, k: u64| od.index@ < j < 2 && k < self.next[di(od.seq()[j])] ==> send_abs(self.send, #[trigger] StreamId::spec_new(Side::Client, od.seq()[j], k)) == send_abs(old(self).send, StreamId::spec_new(Side::Client, od.seq()[j], k)),
//@ after let id = StreamId::new(Side::Client, dir, index);
                proof {
                    assert forall|d2: Dir, k: u64| (d2 != dir || k != index) && k < 0x4000_0000_0000_0000 implies #[trigger] StreamId::spec_new(Side::Client, d2, k) != id by {
                        StreamId::lemma_new_distinct(Side::Client, d2, k, dir, index);
                    }
                }
//@ contract
        requires old(self).next[0] <= 0x1000_0000_0000_0000, old(self).next[1] <= 0x1000_0000_0000_0000,
            // scheduling invariant: a stream that has something to transmit has an entry in the queue
            forall|i: StreamId| (#[trigger] send_abs(old(self).send, i)) matches Some(st) && st.pending_spec() ==> old(self).pending.ids().contains(i),
        ensures
            // ... and is scheduled: it has an entry in the queue of streams with something to transmit
            forall|d: Dir, k: u64| k < old(self).next[di(d)] ==> queued(old(self).send, final(self).pending.ids(), #[trigger] StreamId::spec_new(Side::Client, d, k)),
            // C01: after a Retry the 0-RTT packets are gone for good, so every stream on which anything was sent -- data, or just the FIN of
            // an empty stream -- is transmitted again from the start
            forall|d: Dir, k: u64| k < old(self).next[di(d)] ==> resent(old(self).send, final(self).send, #[trigger] StreamId::spec_new(Side::Client, d, k)),
//@ end
//@ extract quinn-proto/src/connection/streams/state.rs :: impl StreamsState::fn set_params
//@ props C05 C17
//@ replace self.send.get_mut(&id).and_then(|s| s.as_mut()) => send_get(&mut self.send, id)
//@ contract
        requires old(self).max_remote[0] <= 0x1000_0000_0000_0000
        ensures
            // the stream-count and per-stream limits are the ones the peer has just declared (a remembered 0-RTT value does not survive),
            // the connection data limit never goes down
            final(self).max[0] == params.initial_max_streams_bidi.0, final(self).max[1] == params.initial_max_streams_uni.0,
            final(self).max_data == (if params.initial_max_data.0 > old(self).max_data { params.initial_max_data.0 } else { old(self).max_data }),
            final(self).initial_max_stream_data_uni == params.initial_max_stream_data_uni,
            final(self).initial_max_stream_data_bidi_local == params.initial_max_stream_data_bidi_local,
            final(self).initial_max_stream_data_bidi_remote == params.initial_max_stream_data_bidi_remote,
            final(self).next == old(self).next, final(self).data_sent == old(self).data_sent,
//@ loop 0
            invariant
                self.max[0] == params.initial_max_streams_bidi.0, self.max[1] == params.initial_max_streams_uni.0,
                self.max_data == (if params.initial_max_data.0 > old(self).max_data { params.initial_max_data.0 } else { old(self).max_data }),
                self.initial_max_stream_data_uni == params.initial_max_stream_data_uni,
                self.initial_max_stream_data_bidi_local == params.initial_max_stream_data_bidi_local,
                self.initial_max_stream_data_bidi_remote == params.initial_max_stream_data_bidi_remote,
                self.next == old(self).next, self.data_sent == old(self).data_sent, self.max_remote == old(self).max_remote, self.side == old(self).side,
                old(self).max_remote[0] <= 0x1000_0000_0000_0000,
//@ end
//@ extract quinn-proto/src/connection/streams/state.rs :: impl StreamsState::fn ensure_remote_streams
//@ props C06 C11
//@ contract
        requires old(self).max_remote[di(dir)] + old(self).max_concurrent_remote_count[di(dir)] <= 0x1000_0000_0000_0000,
        ensures
            // the window of remotely-initiated streams is topped up to the configured concurrency, never beyond it
            final(self).allocated_remote_count[di(dir)] == (if old(self).max_concurrent_remote_count[di(dir)] > old(self).allocated_remote_count[di(dir)] { old(self).max_concurrent_remote_count[di(dir)] } else { old(self).allocated_remote_count[di(dir)] }),
            final(self).max_remote[di(dir)] - old(self).max_remote[di(dir)] == final(self).allocated_remote_count[di(dir)] - old(self).allocated_remote_count[di(dir)],
            final(self).allocated_remote_count[1 - di(dir)] == old(self).allocated_remote_count[1 - di(dir)], final(self).max_remote[1 - di(dir)] == old(self).max_remote[1 - di(dir)],
            final(self).side == old(self).side, final(self).send_streams == old(self).send_streams, final(self).max_concurrent_remote_count == old(self).max_concurrent_remote_count,
            final(self).next == old(self).next, final(self).max == old(self).max, final(self).fc() == old(self).fc(), final(self).sfc() == old(self).sfc(),
//@ loop 0
            invariant
                self.fc() == old(self).fc(), self.sfc() == old(self).sfc(),
                self.side == old(self).side, self.next == old(self).next, self.max == old(self).max, self.max_remote == old(self).max_remote,
                self.allocated_remote_count == old(self).allocated_remote_count, self.send_streams == old(self).send_streams,
                self.max_concurrent_remote_count == old(self).max_concurrent_remote_count,
                new_count <= old(self).max_concurrent_remote_count[di(dir)], old(self).max_remote[di(dir)] + old(self).max_concurrent_remote_count[di(dir)] <= 0x1000_0000_0000_0000,
//@ end
//@ extract quinn-proto/src/connection/streams/state.rs :: impl StreamsState::fn stream_freed
//@ props C06 C11
//@ contract
        requires
            // history: the half being freed was counted
            half == StreamHalf::Send ==> old(self).send_streams >= 1,
            id.initiator() != old(self).side ==> old(self).allocated_remote_count[di(id.dir())] >= 1,
            old(self).max_remote[di(id.dir())] + old(self).max_concurrent_remote_count[di(id.dir())] <= 0x1000_0000_0000_0000,
        ensures
            final(self).fc() == old(self).fc(), final(self).sfc() == old(self).sfc(), final(self).side == old(self).side,
            final(self).send_streams == (if half == StreamHalf::Send { old(self).send_streams - 1 } else { old(self).send_streams as int }),
            ({
                let d = di(id.dir());
                // a remote stream's slot is released only when the stream is entirely gone: unidirectional, or the other half has no entry any more
                let fully_free = id.initiator() != old(self).side && (id.dir() == Dir::Uni
                    || (half == StreamHalf::Send && !old(self).recv.has(id)) || (half == StreamHalf::Recv && !old(self).send.has(id)));
                let freed = (old(self).allocated_remote_count[d] - 1) as u64;
                &&& (fully_free ==> final(self).allocated_remote_count[d] == (if old(self).max_concurrent_remote_count[d] > freed { old(self).max_concurrent_remote_count[d] } else { freed })
                        && final(self).max_remote[d] - old(self).max_remote[d] == final(self).allocated_remote_count[d] - freed)
                &&& (!fully_free ==> final(self).allocated_remote_count[d] == old(self).allocated_remote_count[d] && final(self).max_remote[d] == old(self).max_remote[d])
                &&& final(self).allocated_remote_count[1 - d] == old(self).allocated_remote_count[1 - d] && final(self).max_remote[1 - d] == old(self).max_remote[1 - d]
            }),
//@ end

//@ extract quinn-proto/src/connection/streams/state.rs :: impl StreamsState::fn received
//@ props C06
//@ ret res
//@ closure 0 : &TransportError -> (u: ())
//@ replace ws:self .recv .get_mut(&id) .map(get_or_insert_recv(self.stream_receive_window)) => recv_entry(&mut self.recv, id, self.stream_receive_window)
//@ replace self.recv.remove(&id).flatten().unwrap() => recv_take(&mut self.recv, id)
//@ contract
        requires
            old(self).sent_max_data.0 <= old(self).local_max_data || old(self).local_max_data > VarInt::MAX.0,
            old(self).data_recvd <= old(self).local_max_data < 0x4000_0000_0000_0000,
            frame.offset < 0x4000_0000_0000_0000, frame.data@.len() < 0x1_0000_0000, frame.data@.len() <= payload_len,
        ensures
            // a frame naming a stream beyond the advertised count never opens it
            old(self).remote_bounded() ==> final(self).remote_bounded(),
            match res {
            Ok(_) => match recv_abs(old(self).recv, frame.id) {
                Some(r0) => if !r0.reset {
                    let end = (frame.offset + frame.data@.len()) as u64;
                    let n = if end > r0.end { (end - r0.end) as u64 } else { 0u64 };
                    // new bytes count against the connection limit exactly once and never take it over the advertised value ...
                    &&& old(self).data_recvd + n <= old(self).local_max_data
                    &&& final(self).data_recvd == old(self).data_recvd + n
                    // ... and credit is returned at once only for a stream the application has stopped (its data is discarded on arrival)
                    &&& final(self).local_max_data == (if r0.stopped { sat_add(old(self).local_max_data, sat_sub(n, old(self).receive_window_shrink_debt)) } else { old(self).local_max_data })
                } else {
                    // a frame for a reset stream is dropped -- but only if it is consistent with the final size the reset fixed
                    &&& final(self).fc() == old(self).fc()
                    &&& (r0.final_size() matches Some(f) ==> frame.offset + frame.data@.len() <= f && (frame.fin ==> frame.offset + frame.data@.len() == f))
                },
                None => final(self).fc() == old(self).fc(),
            },
            Err(_) => final(self).fc() == old(self).fc(),
        }
//@ end

//@ extract quinn-proto/src/connection/streams/state.rs :: impl StreamsState::fn received_reset
//@ props C06
//@ ret res
//@ closure 0 : &TransportError -> (u: ())
//@ replace ws:self .recv .get_mut(&id) .map(get_or_insert_recv(self.stream_receive_window)) => recv_entry(&mut self.recv, id, self.stream_receive_window)
//@ replace self.recv.remove(&id).flatten().unwrap() => recv_take(&mut self.recv, id)
//@ contract
        requires
            old(self).sent_max_data.0 <= old(self).local_max_data || old(self).local_max_data > VarInt::MAX.0,
            old(self).data_recvd <= old(self).local_max_data < 0x4000_0000_0000_0000,
            frame.final_offset.0 < 0x4000_0000_0000_0000,
        ensures
            // a frame naming a stream beyond the advertised count never opens it
            old(self).remote_bounded() ==> final(self).remote_bounded(),
            match res {
            Ok(_) => match recv_abs(old(self).recv, frame.id) {
                // the first RESET_STREAM for a known stream: the bytes up to the final size that never arrived now count as received, and
                // credit is returned for exactly the part of the stream that had not been credited yet -- each byte once
                Some(r0) => if !r0.reset {
                    &&& frame.final_offset.0 >= r0.end
                    &&& final(self).data_recvd == sat_add(old(self).data_recvd, (frame.final_offset.0 - r0.end) as u64)
                    &&& final(self).local_max_data == sat_add(old(self).local_max_data, sat_sub((frame.final_offset.0 - r0.credited()) as u64, old(self).receive_window_shrink_debt))
                } else {
                    final(self).fc() == old(self).fc()
                },
                None => final(self).fc() == old(self).fc(),
            },
            Err(_) => final(self).fc() == old(self).fc(),
        }
//@ after let end = rs.end;
        proof { rs.lemma_wf(); }
//@ end

//@ extract quinn-proto/src/connection/streams/state.rs :: impl StreamsState::fn received_ack_of
//@ props C05
//@ replace ws:match self.send.entry(frame.id) { hash_map::Entry::Vacant(_) => return, hash_map::Entry::Occupied(e) => e, } ==>> match send_occupied(&mut self.send, frame.id) { None => return, Some(e) => e }
//@ replace entry.get_mut().as_mut() => entry.get_send()
//@ at-start
        broadcast use axiom_send_occ_resolved;
//@ contract
        requires
            frame.offsets.start <= frame.offsets.end,
            // history: what is acknowledged on a stream that was not reset had been counted as unacknowledged when it was written
            (send_slot(old(self).send, frame.id) matches Some(st) && old(self).send.has(frame.id) && !(st.state is ResetSent)) ==> frame.offsets.end - frame.offsets.start <= old(self).unacked_data,
            old(self).send_streams >= 1,
            frame.id.initiator() != old(self).side ==> old(self).allocated_remote_count[di(frame.id.dir())] >= 1,
            old(self).max_remote[di(frame.id.dir())] + old(self).max_concurrent_remote_count[di(frame.id.dir())] <= 0x1000_0000_0000_0000,
        ensures
            // acknowledged bytes stop counting against the send window exactly once: data of a reset stream was written off when it was reset
            final(self).unacked_data == (if old(self).send.has(frame.id) && (send_slot(old(self).send, frame.id) matches Some(st) && !(st.state is ResetSent))
                { (old(self).unacked_data - (frame.offsets.end - frame.offsets.start)) as u64 } else { old(self).unacked_data }),
            final(self).data_sent == old(self).data_sent, final(self).max_data == old(self).max_data, final(self).send_window == old(self).send_window,
            final(self).fc() == old(self).fc(),
            // the send half is freed only when the stream says that everything, FIN included, is acknowledged
            final(self).send_streams == (if old(self).send.has(frame.id) && (send_slot(old(self).send, frame.id) matches Some(st) && !(st.state is ResetSent) && st.ack_done(frame))
                { (old(self).send_streams - 1) as usize } else { old(self).send_streams }),
//@ end

//@ extract quinn-proto/src/connection/streams/state.rs :: impl StreamsState::fn received_stop_sending
//@ props C11
//@ replace ws:self .send .get_mut(&id) .map(get_or_insert_send(max_send_data)) => send_entry(&mut self.send, id, max_send_data)
//@ contract
        ensures
            // Stopped is reported once per stopped stream: exactly when this STOP_SENDING is the first one for an existing send half
            ({ let first = send_abs(old(self).send, id) matches Some(s0) && s0.stop_reason.is_none();
               &&& final(self).events@ == (if first { old(self).events@.push(StreamEvent::Stopped { id, error_code }) } else { old(self).events@ })
               &&& (first ==> (send_abs(final(self).send, id) matches Some(s1) && s1.stop_reason == Some(error_code)))
               &&& (!first ==> final(self).next_remote == old(self).next_remote) }),
            final(self).fc() == old(self).fc(), final(self).sfc() == old(self).sfc(),
//@ end
//@ extract quinn-proto/src/connection/streams/state.rs :: impl StreamsState::fn reset_acked
//@ props C11
//@ replace match self.send.entry(id) { => match send_occupied(&mut self.send, id) {
//@ replace hash_map::Entry::Vacant(_) => {} ==>> None => {}
//@ replace hash_map::Entry::Occupied(e) => { ==>> Some(mut e) => {
//@ replace e.get().as_ref().map(|s| s.state) => e.peek_state()
//@ at-start
        broadcast use axiom_send_occ_resolved;
//@ contract
        requires old(self).send_streams >= 1,
            id.initiator() != old(self).side ==> old(self).allocated_remote_count[di(id.dir())] >= 1,
            old(self).max_remote[di(id.dir())] + old(self).max_concurrent_remote_count[di(id.dir())] <= 0x1000_0000_0000_0000,
        ensures
            // the acknowledgement of a RESET_STREAM frees the send half exactly when the stream is in ResetSent, and nothing else
            ({ let hit = old(self).send.has(id) && (send_slot(old(self).send, id) matches Some(st) && st.state is ResetSent);
               &&& final(self).send_streams == (if hit { (old(self).send_streams - 1) as usize } else { old(self).send_streams })
               &&& (!hit ==> final(self).max_remote == old(self).max_remote && final(self).allocated_remote_count == old(self).allocated_remote_count) }),
            final(self).fc() == old(self).fc(), final(self).sfc() == old(self).sfc(),
//@ end
//@ extract quinn-proto/src/connection/streams/state.rs :: impl StreamsState::fn write_limit
//@ props C05
//@ ret r
//@ contract
        requires self.data_sent <= self.max_data
        ensures r == (if self.max_data - self.data_sent <= sat_sub(self.send_window, self.unacked_data) { (self.max_data - self.data_sent) as u64 } else { sat_sub(self.send_window, self.unacked_data) }),
            // never more than the peer's connection credit, never more than the local unacked-data bound leaves
            self.data_sent + r <= self.max_data, self.unacked_data + r <= self.send_window || r == 0,
//@ end

//@ extract quinn-proto/src/connection/streams/state.rs :: impl StreamsState::fn received_max_data
//@ props C05
//@ contract
        ensures final(self).max_data == (if n.0 > old(self).max_data { n.0 } else { old(self).max_data }),
            final(self).max_data >= old(self).max_data, final(self).data_sent == old(self).data_sent, final(self).unacked_data == old(self).unacked_data,
            final(self).max == old(self).max, final(self).next == old(self).next, final(self).max_remote == old(self).max_remote, final(self).side == old(self).side,
            final(self).initial_max_stream_data_uni == old(self).initial_max_stream_data_uni,
            final(self).initial_max_stream_data_bidi_local == old(self).initial_max_stream_data_bidi_local,
            final(self).initial_max_stream_data_bidi_remote == old(self).initial_max_stream_data_bidi_remote,
//@ end

//@ extract quinn-proto/src/connection/streams/state.rs :: impl StreamsState::fn received_max_streams
//@ props C05 C03
//@ ret res
//@ contract
        ensures
            res.is_err() <==> count > MAX_STREAM_COUNT,
            res.is_err() ==> *final(self) == *old(self) && res->Err_0.code == Code::FRAME_ENCODING_ERROR,
            res.is_ok() ==> final(self).max[di(dir)] == (if count > old(self).max[di(dir)] { count } else { old(self).max[di(dir)] })
                && final(self).max[1 - di(dir)] == old(self).max[1 - di(dir)]
                && final(self).next == old(self).next && final(self).max_data == old(self).max_data && final(self).data_sent == old(self).data_sent,
//@ end

//@ extract quinn-proto/src/connection/streams/state.rs :: impl StreamsState::fn validate_receive_id
//@ props C06 C03
//@ ret res
//@ contract
        ensures *final(self) == *old(self),
            match res {
                Ok(()) => if old(self).side == id.initiator() { id.dir() == Dir::Bi && id.index() < old(self).next[0] } else { id.index() < old(self).max_remote[di(id.dir())] },
                Err(e) => if old(self).side == id.initiator() { e.code == Code::STREAM_STATE_ERROR && (id.dir() == Dir::Uni || id.index() >= old(self).next[0]) }
                          else { e.code == Code::STREAM_LIMIT_ERROR && id.index() >= old(self).max_remote[di(id.dir())] },
            }
//@ end

//@ extract quinn-proto/src/connection/streams/state.rs :: impl StreamsState::fn is_local_unopened
//@ ret r
//@ contract
        ensures r == (id.index() >= self.next[di(id.dir())])
//@ end

//@ extract quinn-proto/src/connection/streams/state.rs :: impl StreamsState::fn max_concurrent
//@ ret r
//@ contract
        ensures r == self.allocated_remote_count[di(dir)]
//@ end

//@ extract quinn-proto/src/connection/streams/state.rs :: impl StreamsState::fn set_send_window
//@ props C05
//@ contract
        ensures final(self).send_window == send_window, final(self).max_data == old(self).max_data, final(self).data_sent == old(self).data_sent, final(self).unacked_data == old(self).unacked_data
//@ end

//@ extract quinn-proto/src/connection/streams/state.rs :: impl StreamsState::fn set_receive_window
//@ props C06
//@ ret r
//@ contract
        ensures
            final(self).receive_window == receive_window.0,
            r == (receive_window.0 > old(self).receive_window),
            // what the peer may have in flight and unread is local_max_data - debt: it follows the configured window exactly, so an expansion
            // first cancels debt left over from an earlier shrink and only the remainder is granted as new credit
            (old(self).local_max_data + receive_window.0 <= u64::MAX && old(self).receive_window_shrink_debt + old(self).receive_window <= u64::MAX) ==>
                final(self).local_max_data - final(self).receive_window_shrink_debt - receive_window.0
                    == old(self).local_max_data - old(self).receive_window_shrink_debt - old(self).receive_window,
            r ==> final(self).local_max_data == sat_add(old(self).local_max_data, sat_sub((receive_window.0 - old(self).receive_window) as u64, old(self).receive_window_shrink_debt))
                && final(self).receive_window_shrink_debt == sat_sub(old(self).receive_window_shrink_debt, (receive_window.0 - old(self).receive_window) as u64),
            // shrinking never takes back credit already granted: the difference becomes debt repaid out of future read credits
            !r ==> final(self).local_max_data == old(self).local_max_data
                && final(self).receive_window_shrink_debt == sat_add(old(self).receive_window_shrink_debt, (old(self).receive_window - receive_window.0) as u64),
            final(self).data_recvd == old(self).data_recvd, final(self).sent_max_data == old(self).sent_max_data,
//@ end

//@ extract quinn-proto/src/connection/streams/state.rs :: impl StreamsState::fn add_read_credits
//@ props C06
//@ ret r
//@ contract
        requires old(self).sent_max_data.0 <= old(self).local_max_data || old(self).local_max_data > VarInt::MAX.0,
        ensures
            // credit is returned only for what was consumed, and a shrink debt is repaid first
            final(self).local_max_data >= old(self).local_max_data,
            final(self).local_max_data - old(self).local_max_data <= sat_sub(credits, old(self).receive_window_shrink_debt),
            final(self).local_max_data == sat_add(old(self).local_max_data, sat_sub(credits, old(self).receive_window_shrink_debt)),
            final(self).receive_window_shrink_debt == sat_sub(old(self).receive_window_shrink_debt, credits),
            final(self).data_recvd == old(self).data_recvd, final(self).sent_max_data == old(self).sent_max_data, final(self).receive_window == old(self).receive_window,
            final(self).recv == old(self).recv, final(self).send == old(self).send, final(self).next_remote == old(self).next_remote, final(self).max_remote == old(self).max_remote, final(self).sent_max_remote == old(self).sent_max_remote, final(self).max_concurrent_remote_count == old(self).max_concurrent_remote_count,
            r.0 == (final(self).local_max_data <= VarInt::MAX.0 && final(self).local_max_data - final(self).sent_max_data.0 >= final(self).receive_window / 8),
//@ end

//@ extract quinn-proto/src/connection/streams/state.rs :: impl StreamsState::fn max_send_data
//@ ret r
//@ contract
        ensures r == (if id.dir() == Dir::Uni { self.initial_max_stream_data_uni } else if self.side != id.initiator() { self.initial_max_stream_data_bidi_local } else { self.initial_max_stream_data_bidi_remote })
//@ end
}

//@ extract quinn-proto/src/connection/streams/mod.rs :: struct Streams
//@ replace super::State => State
//@ end
//@ extract quinn-proto/src/connection/streams/mod.rs :: struct SendStream
//@ replace super::State => State
//@ end

//@ extract quinn-proto/src/connection/streams/mod.rs :: struct RecvStream
//@ end
impl<'a> RecvStream<'a> {
//@ extract quinn-proto/src/connection/streams/mod.rs :: impl RecvStream<'_>::fn stop
//@ props C06 C11
//@ ret res
//@ replace ws:match self.state.recv.entry(self.id) { hash_map::Entry::Occupied(s) => s, hash_map::Entry::Vacant(_) => return Err(ClosedStream { _private: () }), } ==>> match recv_occupied(&mut self.state.recv, self.id) { Some(s) => s, None => return Err(ClosedStream { _private: () }) }
//@ replace get_or_insert_recv(self.state.stream_receive_window)(entry.get_mut()) => entry.get_recv(self.state.stream_receive_window)
//@ at-start
        broadcast use axiom_recv_occ_resolved;
//@ contract
        requires
            old(self).state.sent_max_data.0 <= old(self).state.local_max_data || old(self).state.local_max_data > VarInt::MAX.0,
            old(self).state.announce_ok(),
        ensures
            // C11: when stopping releases the stream (its final size is known), the raised stream limit is announced like on every other
            // path that frees a stream
            (res is Ok && (recv_abs(old(self).state.recv, old(self).id) matches Some(r0) && !r0.open_ended())) ==>
                forall|k: int| 0 <= k < 2 && final(self).state.announce_due(k) ==> #[trigger] final(self).pending.max_stream_id[k],
            match res {
            // the application discards what it has not read: exactly that much credit goes back to the connection window, once (none if a
            // RESET_STREAM already returned the credit for the whole stream), and the stream is kept (marked stopped) for as long as its
            // final size is unknown
            Ok(()) => recv_abs(old(self).state.recv, old(self).id) matches Some(r0) && !r0.stopped
                && final(self).state.local_max_data == sat_add(old(self).state.local_max_data, sat_sub((if r0.reset { 0 } else { r0.end - r0.assembler.br }) as u64, old(self).state.receive_window_shrink_debt))
                && final(self).state.data_recvd == old(self).state.data_recvd
                && (r0.open_ended() ==> (recv_abs(final(self).state.recv, old(self).id) matches Some(r1) && r1.stopped && r1.end == r0.end && r1.assembler.br == r0.assembler.br)),
            // unknown or already stopped stream: nothing changes
            Err(_) => final(self).state.fc() == old(self).state.fc()
                && (recv_abs(old(self).state.recv, old(self).id) matches Some(r0) ==> (r0.stopped && recv_abs(final(self).state.recv, old(self).id) == Some(r0))),
        }
//@ end
}
impl<'a> SendStream<'a> {
//@ extract quinn-proto/src/connection/streams/mod.rs :: impl SendStream<'a>::fn write_source
//@ props C05 C11
//@ ret res
//@ replace ws:self .state .send .get_mut(&self.id) .map(get_or_insert_send(max_send_data)) => send_entry(&mut self.state.send, self.id, max_send_data)
//@ contract
        requires old(self).state.data_sent <= old(self).state.max_data,
        ensures
            final(self).state.max_data == old(self).state.max_data, final(self).state.send_window == old(self).state.send_window,
            match res {
                // what the application's write is charged: exactly the bytes taken, never past the peer's connection limit and never past the
                // local bound on unacknowledged data
                Ok(w) => final(self).state.data_sent == old(self).state.data_sent + w.bytes && final(self).state.data_sent <= old(self).state.max_data
                    && final(self).state.unacked_data == old(self).state.unacked_data + w.bytes
                    && (w.bytes > 0 ==> final(self).state.unacked_data <= old(self).state.send_window),
                Err(_) => final(self).state.data_sent == old(self).state.data_sent && final(self).state.unacked_data == old(self).state.unacked_data,
            },
            // C11: while the connection is open the result is determined by the state of the sending half, whatever the connection-level
            // credit: closed after finish / reset, the peer's STOP_SENDING code once stopped, and only otherwise Ok or Blocked
            !old(self).conn_state.closed() ==> match send_abs(old(self).state.send, old(self).id) {
                None => res matches Err(WriteError::ClosedStream),
                Some(s0) => if !(s0.state is Ready) { res matches Err(WriteError::ClosedStream) }
                    else if s0.stop_reason is Some { res matches Err(WriteError::Stopped(c)) && Some(c) == s0.stop_reason }
                    else { res is Ok || res matches Err(WriteError::Blocked) },
            },
//@ end
//@ extract quinn-proto/src/connection/streams/mod.rs :: impl SendStream<'a>::fn reset
//@ props C05 C11
//@ ret res
//@ replace ws:self .state .send .get_mut(&self.id) .map(get_or_insert_send(max_send_data)) => send_entry(&mut self.state.send, self.id, max_send_data)
//@ contract
        requires
            // StreamsState invariant: the connection-wide count of unacknowledged bytes includes this stream's
            send_abs(old(self).state.send, old(self).id) matches Some(s) ==> s.state is ResetSent || old(self).state.unacked_data >= s.pending.un,
        ensures match res {
            // the stream is reset once: its outstanding bytes leave the connection-wide count exactly once, and one RESET_STREAM is queued
            Ok(()) => send_abs(old(self).state.send, old(self).id) matches Some(s0) && !(s0.state is ResetSent)
                && final(self).state.unacked_data == old(self).state.unacked_data - s0.pending.un
                && (send_abs(final(self).state.send, old(self).id) matches Some(s1) && s1.state is ResetSent)
                && final(self).pending.reset_stream@ == old(self).pending.reset_stream@.push((old(self).id, error_code)),
            // unknown stream or redundant call: nothing changes
            Err(_) => final(self).state.unacked_data == old(self).state.unacked_data && final(self).pending.reset_stream@ == old(self).pending.reset_stream@
                && (send_abs(old(self).state.send, old(self).id) matches Some(s0) ==> s0.state is ResetSent && send_abs(final(self).state.send, old(self).id) == Some(s0)),
        }
//@ end
}

impl<'a> Streams<'a> {
//@ extract quinn-proto/src/connection/streams/mod.rs :: impl Streams<'a>::fn open
//@ at-start
        proof { assert((1u64 << 60) == 0x1000_0000_0000_0000u64) by (bit_vector); }
//@ props C05 C11
//@ ret r
//@ contract
        requires old(self).state.next[di(dir)] <= old(self).state.max[di(dir)], old(self).state.max[di(dir)] <= MAX_STREAM_COUNT, old(self).state.send_streams < usize::MAX,
        ensures
            final(self).state.max == old(self).state.max, final(self).state.next[1 - di(dir)] == old(self).state.next[1 - di(dir)],
            // a stream is opened only while stream credit remains, and the count never passes the peer's limit
            final(self).state.next[di(dir)] <= final(self).state.max[di(dir)],
            match r {
                Some(id) => !old(self).conn_state.closed() && old(self).state.next[di(dir)] < old(self).state.max[di(dir)]
                    && final(self).state.next[di(dir)] == old(self).state.next[di(dir)] + 1
                    && id.index() == old(self).state.next[di(dir)] && id.dir() == dir && id.initiator() == old(self).state.side
                    && final(self).state.send_streams == old(self).state.send_streams + 1,
                None => final(self).state.next == old(self).state.next && final(self).state.send_streams == old(self).state.send_streams
                    && (old(self).conn_state.closed() || (old(self).state.next[di(dir)] >= old(self).state.max[di(dir)] && final(self).state.streams_blocked[di(dir)])),
            }
//@ end
//@ extract quinn-proto/src/connection/streams/mod.rs :: impl Streams<'a>::fn accept
//@ at-start
        proof { assert((1u64 << 60) == 0x1000_0000_0000_0000u64) by (bit_vector); }
//@ props C11
//@ ret r
//@ contract
        requires old(self).state.next_reported_remote[di(dir)] <= old(self).state.next_remote[di(dir)], old(self).state.next_remote[di(dir)] <= MAX_STREAM_COUNT,
            old(self).state.send_streams < usize::MAX,
        ensures
            final(self).state.next_remote == old(self).state.next_remote,
            final(self).state.next_reported_remote[di(dir)] <= final(self).state.next_remote[di(dir)],
            match r {
                // streams are reported in order, each once, and only streams the peer actually opened
                Some(id) => old(self).state.next_reported_remote[di(dir)] < old(self).state.next_remote[di(dir)]
                    && id.index() == old(self).state.next_reported_remote[di(dir)] && id.dir() == dir && id.initiator() != old(self).state.side
                    && final(self).state.next_reported_remote[di(dir)] == old(self).state.next_reported_remote[di(dir)] + 1,
                None => old(self).state.next_reported_remote[di(dir)] == old(self).state.next_remote[di(dir)]
                    && final(self).state.next_reported_remote == old(self).state.next_reported_remote && final(self).state.send_streams == old(self).state.send_streams,
            }
//@ end
//@ extract quinn-proto/src/connection/streams/mod.rs :: impl Streams<'a>::fn send_streams
//@ ret r
//@ contract
        ensures r == old(self.state).send_streams
//@ end
//@ extract quinn-proto/src/connection/streams/mod.rs :: impl Streams<'a>::fn remote_open_streams
//@ props C11
//@ ret r
//@ contract
        requires old(self.state).allocated_remote_count[di(dir)] <= old(self.state).max_remote[di(dir)],
            old(self.state).next_remote[di(dir)] >= old(self.state).max_remote[di(dir)] - old(self.state).allocated_remote_count[di(dir)],
        ensures r == old(self.state).next_remote[di(dir)] - (old(self.state).max_remote[di(dir)] - old(self.state).allocated_remote_count[di(dir)])
//@ end
}
}
}
fn main() {}
