//! unit: token_cache -- TokenMemoryCache (client-side store of NEW_TOKEN tokens): a token handed out by `take` is gone from the store
//! props: C14
//! trusted: HashMap<Arc<str>, u32> as a map from names (Seq<char>) to slots with `get` / `remove` by &str; LruSlab<CacheEntry> as a map from slots to entries (`get_mut`, `remove`); Arc<str> as its characters; State / CacheEntry written out with these shim types (same field names); the Mutex wrapper (`TokenMemoryCache::take` = lock + `State::take`) is not modelled
#![feature(allocator_api)]
#![allow(unused_imports, dead_code, non_camel_case_types, non_snake_case, unused_variables, unused_mut, unused_assignments)]
use vstd::prelude::*;
use std::collections::VecDeque;
use std::alloc::Allocator;
verus! {
global size_of usize == 8;
pub mod shims {
use super::*;
pub assume_specification<T, A: Allocator> [VecDeque::<T, A>::is_empty] (v: &VecDeque<T, A>) -> (r: bool) ensures r == (v@.len() == 0);
#[verifier::external_body] pub struct Bytes { x: Vec<u8> }
impl View for Bytes { type V = Seq<u8>; uninterp spec fn view(&self) -> Seq<u8>; }
/// Arc<str>
#[verifier::external_body] pub struct NameArc { x: u8 }
impl View for NameArc { type V = Seq<char>; uninterp spec fn view(&self) -> Seq<char>; }
pub struct CacheEntry { pub server_name: NameArc, pub tokens: VecDeque<Bytes> }
/// HashMap<Arc<str>, u32>
#[verifier::external_body] pub struct NameMap { x: u8 }
impl View for NameMap { type V = Map<Seq<char>, u32>; uninterp spec fn view(&self) -> Map<Seq<char>, u32>; }
impl NameMap {
    #[verifier::external_body] pub fn get(&self, name: &str) -> (r: Option<&u32>)
        ensures match r { Some(s) => self@.contains_key(name@) && *s == self@[name@], None => !self@.contains_key(name@) } { unimplemented!() }
    #[verifier::external_body] pub fn remove(&mut self, name: &str) -> (r: Option<u32>)
        ensures final(self)@ == old(self)@.remove(name@) { unimplemented!() }
}
/// lru_slab::LruSlab<CacheEntry>
#[verifier::external_body] pub struct LruSlab { x: u8 }
impl View for LruSlab { type V = Map<u32, CacheEntry>; uninterp spec fn view(&self) -> Map<u32, CacheEntry>; }
impl LruSlab {
    /// panics on a vacant slot
    #[verifier::external_body] pub fn get_mut(&mut self, slot: u32) -> (r: &mut CacheEntry)
        requires old(self)@.contains_key(slot)
        ensures *r == old(self)@[slot], final(self)@ == old(self)@.insert(slot, *final(r)) { unimplemented!() }
    #[verifier::external_body] pub fn remove(&mut self, slot: u32) -> (r: CacheEntry)
        requires old(self)@.contains_key(slot)
        ensures r == old(self)@[slot], final(self)@ == old(self)@.remove(slot) { unimplemented!() }
}
}
pub mod code {
use super::*; use super::shims::*;
// (written out with the shim types; it lives here so that the obligations are attributed to the repository's functions)
pub struct State { pub max_server_names: u32, pub max_tokens_per_server: usize, pub lookup: NameMap, pub lru: LruSlab }
impl State {
    /// the tokens stored for a server name, oldest first
    pub open spec fn queue(&self, name: Seq<char>) -> Option<Seq<Bytes>> {
        if self.lookup@.contains_key(name) { Some(self.lru@[self.lookup@[name]].tokens@) } else { None }
    }
    /// every known name owns a slot of its own, holding at least one token
    pub open spec fn wf(&self) -> bool {
        &&& forall|n: Seq<char>| self.lookup@.contains_key(n) ==> self.lru@.contains_key(#[trigger] self.lookup@[n]) && self.lru@[self.lookup@[n]].tokens@.len() > 0
        &&& forall|n1: Seq<char>, n2: Seq<char>| self.lookup@.contains_key(n1) && self.lookup@.contains_key(n2) && n1 != n2 ==> #[trigger] self.lookup@[n1] != #[trigger] self.lookup@[n2]
    }
//@ extract quinn-proto/src/token_memory_cache.rs :: impl State::fn take
//@ ret r
//@ contract
        requires old(self).wf(),
        ensures final(self).wf(),
            // C14: a stored token is handed out at most once - what `take` returns is the oldest token stored for that server, and it is
            // gone from the store afterwards; other servers' tokens are untouched
            match r {
                Some(t) => old(self).queue(server_name@) matches Some(q) && q.len() > 0 && t == q[0]
                    && final(self).queue(server_name@) == (if q.len() == 1 { None::<Seq<Bytes>> } else { Some(q.skip(1)) }),
                None => old(self).queue(server_name@).is_none() && final(self).lookup@ == old(self).lookup@ && final(self).lru@ == old(self).lru@,
            },
            forall|n: Seq<char>| n != server_name@ ==> final(self).queue(n) == old(self).queue(n),
//@ end
}
}
}
fn main() {}
