//! unit: token_cache -- TokenMemoryCache (client-side store of NEW_TOKEN tokens): a token handed out by `take` is gone from the store
//! props: C14
//! trusted: HashMap<Arc<str>, u32> as a map from names (Seq<char>) to slots with `get` / `remove` by &str; LruSlab<CacheEntry> as a map from slots to entries (`get_mut`, `remove`); Arc<str> as its characters; State / CacheEntry written out with these shim types (same field names); the Mutex wrapper (`TokenMemoryCache::take` = lock + `State::take`) is not modelled
#![feature(allocator_api)]
#![allow(unused_imports, dead_code, non_camel_case_types, non_snake_case, unused_variables, unused_mut, unused_assignments)]
use vstd::prelude::*;
use std::collections::VecDeque;
use std::alloc::Allocator;
verus! {
global size_of usize == 8;
pub mod shims {
use super::*; use super::code::CacheEntry;
pub assume_specification<T, A: Allocator> [VecDeque::<T, A>::is_empty] (v: &VecDeque<T, A>) -> (r: bool) ensures r == (v@.len() == 0);
#[verifier::external_body] pub struct Bytes { x: Vec<u8> }
impl View for Bytes { type V = Seq<u8>; uninterp spec fn view(&self) -> Seq<u8>; }
/// Arc<str>
#[verifier::external_body] pub struct NameArc { x: u8 }
impl View for NameArc { type V = Seq<char>; uninterp spec fn view(&self) -> Seq<char>; }
impl NameArc {
    /// `Arc::<str>::from(server_name)`
    #[verifier::external_body] pub fn from_str(s: &str) -> (r: Self) ensures r@ == s@ { unimplemented!() }
}
impl Clone for NameArc { #[verifier::external_body] fn clone(&self) -> (r: Self) ensures r@ == self@ { unimplemented!() } }
/// HashMap<Arc<str>, u32>
#[verifier::external_body] pub struct NameMap { x: u8 }
impl View for NameMap { type V = Map<Seq<char>, u32>; uninterp spec fn view(&self) -> Map<Seq<char>, u32>; }
impl NameMap {
    #[verifier::external_body] pub fn get(&self, name: &str) -> (r: Option<&u32>)
        ensures match r { Some(s) => self@.contains_key(name@) && *s == self@[name@], None => !self@.contains_key(name@) } { unimplemented!() }
    #[verifier::external_body] pub fn remove(&mut self, name: &str) -> (r: Option<u32>)
        ensures final(self)@ == old(self)@.remove(name@) { unimplemented!() }
    #[verifier::external_body] pub fn remove_arc(&mut self, name: &NameArc) -> (r: Option<u32>)
        ensures final(self)@ == old(self)@.remove(name@), r.is_some() == old(self)@.contains_key(name@) { unimplemented!() }
    /// `self.lookup.entry(name)`: exclusive access to the (present or absent) entry for that name; `fut` is a prophecy of the map once
    /// the entry is gone (same modelling as the occupied entries in unit streams_state)
    #[verifier::external_body] pub fn entry<'a>(&'a mut self, name: NameArc) -> (r: NameEntry<'a>)
        ensures match r {
            NameEntry::Occupied(e) => old(self)@.contains_key(name@) && e.slot() == old(self)@[name@],
            NameEntry::Vacant(e) => !old(self)@.contains_key(name@) && e.key() == name@ && e.base() == old(self)@ && e.fut() == final(self)@ && !e.inserted(),
        },
        r is Occupied ==> final(self)@ == old(self)@,
    { unimplemented!() }
}
pub enum NameEntry<'a> { Occupied(OccEntry<'a>), Vacant(VacEntry<'a>) }
#[verifier::external_body] pub struct OccEntry<'a> { m: &'a mut NameMap }
impl<'a> OccEntry<'a> {
    pub uninterp spec fn slot(&self) -> u32;
    #[verifier::external_body] pub fn get(&self) -> (r: &u32) ensures *r == self.slot() { unimplemented!() }
}
#[verifier::external_body] pub struct VacEntry<'a> { m: &'a mut NameMap }
impl<'a> VacEntry<'a> {
    pub uninterp spec fn key(&self) -> Seq<char>;
    pub uninterp spec fn base(&self) -> Map<Seq<char>, u32>;
    pub uninterp spec fn fut(&self) -> Map<Seq<char>, u32>;
    pub uninterp spec fn inserted(&self) -> bool;
    pub uninterp spec fn value(&self) -> u32;
    /// `hmap_entry.insert(v)` (borrowing instead of consuming, so that one axiom describes both ways the entry can end)
    #[verifier::external_body] pub fn insert(&mut self, v: u32)
        requires !old(self).inserted()
        ensures final(self).inserted(), final(self).value() == v, final(self).key() == old(self).key(), final(self).base() == old(self).base(), final(self).fut() == old(self).fut()
    { unimplemented!() }
}
#[verifier::external_body]
pub broadcast proof fn axiom_vac_resolved<'a>(e: VacEntry<'a>)
    ensures #[trigger] has_resolved(e) ==> e.fut() == (if e.inserted() { e.base().insert(e.key(), e.value()) } else { e.base() })
{}
/// lru_slab::LruSlab<CacheEntry>
#[verifier::external_body] pub struct LruSlab { x: u8 }
impl View for LruSlab { type V = Map<u32, CacheEntry>; uninterp spec fn view(&self) -> Map<u32, CacheEntry>; }
impl LruSlab {
    /// panics on a vacant slot
    #[verifier::external_body] pub fn get_mut(&mut self, slot: u32) -> (r: &mut CacheEntry)
        requires old(self)@.contains_key(slot)
        ensures *r == old(self)@[slot], final(self)@ == old(self)@.insert(slot, *final(r)) { unimplemented!() }
    #[verifier::external_body] pub fn remove(&mut self, slot: u32) -> (r: CacheEntry)
        requires old(self)@.contains_key(slot)
        ensures r == old(self)@[slot], final(self)@ == old(self)@.remove(slot) { unimplemented!() }
    #[verifier::external_body] pub fn len(&self) -> (r: u32) ensures r == self@.len() { unimplemented!() }
    /// the least recently used slot, if any
    #[verifier::external_body] pub fn lru(&self) -> (r: Option<u32>) ensures match r { Some(s) => self@.contains_key(s), None => self@.len() == 0 } { unimplemented!() }
    /// stores the value in a slot that was free
    #[verifier::external_body] pub fn insert(&mut self, value: CacheEntry) -> (r: u32)
        ensures !old(self)@.contains_key(r), final(self)@ == old(self)@.insert(r, value) { unimplemented!() }
}
}
pub mod code {
use super::*; use super::shims::*;
// (written out with the shim types; they live here so that the obligations are attributed to the repository's functions)
pub struct CacheEntry { pub server_name: NameArc, pub tokens: VecDeque<Bytes> }
pub struct State { pub max_server_names: u32, pub max_tokens_per_server: usize, pub lookup: NameMap, pub lru: LruSlab }
impl CacheEntry {
//@ extract quinn-proto/src/token_memory_cache.rs :: impl CacheEntry::fn new
//@ ret r
//@ replace Arc<str> => NameArc
//@ contract
        ensures r.server_name == server_name, r.tokens@ == seq![token]
//@ end
}
impl State {
    /// the tokens stored for a server name, oldest first
    pub open spec fn queue(&self, name: Seq<char>) -> Option<Seq<Bytes>> {
        if self.lookup@.contains_key(name) { Some(self.lru@[self.lookup@[name]].tokens@) } else { None }
    }
    /// every known name owns a slot of its own, holding at least one token
    pub open spec fn wf(&self) -> bool {
        &&& forall|n: Seq<char>| self.lookup@.contains_key(n) ==> self.lru@.contains_key(#[trigger] self.lookup@[n]) && self.lru@[self.lookup@[n]].tokens@.len() > 0
        &&& forall|n1: Seq<char>, n2: Seq<char>| self.lookup@.contains_key(n1) && self.lookup@.contains_key(n2) && n1 != n2 ==> #[trigger] self.lookup@[n1] != #[trigger] self.lookup@[n2]
        // every slot in use belongs to the name it records
        &&& forall|k: u32| #[trigger] self.lru@.contains_key(k) ==> self.lookup@.contains_key(self.lru@[k].server_name@) && self.lookup@[self.lru@[k].server_name@] == k
    }
    /// the configured bounds: at most max_server_names names, at most max_tokens_per_server tokens each
    pub open spec fn bounded(&self) -> bool {
        &&& self.lru@.len() <= self.max_server_names
        &&& forall|k: u32| #[trigger] self.lru@.contains_key(k) ==> self.lru@[k].tokens@.len() <= self.max_tokens_per_server
    }
//@ extract quinn-proto/src/token_memory_cache.rs :: impl State::fn store
//@ debug-assert drop
//@ replace Arc::<str>::from(server_name) => NameArc::from_str(server_name)
//@ replace hash_map::Entry::Occupied(hmap_entry) => ==>> NameEntry::Occupied(hmap_entry) =>
//@ replace hash_map::Entry::Vacant(hmap_entry) => ==>> NameEntry::Vacant(mut hmap_entry) =>
//@ replace self.lookup.remove(&removed_slot) => self.lookup.remove_arc(&removed_slot)
//@ at-start
        broadcast use axiom_vac_resolved, vstd::map::group_map_lemmas;
//@ contract
        requires old(self).wf(), old(self).bounded(),
        ensures final(self).wf(), final(self).bounded(), final(self).max_server_names == old(self).max_server_names, final(self).max_tokens_per_server == old(self).max_tokens_per_server,
            // the new token becomes the newest one stored for that server (unless the cache is configured to hold nothing)
            (old(self).max_server_names > 0 && old(self).max_tokens_per_server > 0) ==>
                (final(self).queue(server_name@) matches Some(q) && q.len() > 0 && q[q.len() - 1] == token),
//@ end
//@ extract quinn-proto/src/token_memory_cache.rs :: impl State::fn take
//@ ret r
//@ contract
        requires old(self).wf(),
        ensures final(self).wf(),
            // C14: a stored token is handed out at most once - what `take` returns is the oldest token stored for that server, and it is
            // gone from the store afterwards; other servers' tokens are untouched
            match r {
                Some(t) => old(self).queue(server_name@) matches Some(q) && q.len() > 0 && t == q[0]
                    && final(self).queue(server_name@) == (if q.len() == 1 { None::<Seq<Bytes>> } else { Some(q.skip(1)) }),
                None => old(self).queue(server_name@).is_none() && final(self).lookup@ == old(self).lookup@ && final(self).lru@ == old(self).lru@,
            },
            forall|n: Seq<char>| n != server_name@ ==> final(self).queue(n) == old(self).queue(n),
//@ end
}
}
}
fn main() {}
