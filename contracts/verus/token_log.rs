//! unit: token_log -- BloomTokenLog (the server's NEW_TOKEN reuse log): a token that was accepted once is rejected ever after
//! props: C14
//! trusted: the Mutex is read as exclusive access (`&self` + `self.0.lock().unwrap()` become `&mut self` + `&mut self.0`, two header rewrites; the method is checked as an inherent one); SystemTime / Duration as nanosecond counters whose `+` must not overflow (std panics); HashSet<u64> as a set, fastbloom::BloomFilter as a set without false negatives (`insert` reports a possible earlier presence, never misses a real one); `for item in &*hset` iterates the set's elements (header rewrite); the builder chain of BloomFilter is one shim call
#![allow(unused_imports, dead_code, non_camel_case_types, non_snake_case, unused_variables, unused_mut, unused_assignments)]
use vstd::prelude::*;
use std::mem::{size_of, take};
use vstd::std_specs::iter::IteratorSpec;
verus! {
global size_of usize == 8;
pub mod shims {
use super::*;
// ---- time: nanoseconds since the Unix epoch ---------------------------------------------------------------------------------
#[derive(Copy, Clone)] pub struct Duration { pub d: u128 }
impl Duration {
    pub fn is_zero(&self) -> (r: bool) ensures r == (self.d == 0) { self.d == 0 }
    pub fn as_nanos(&self) -> (r: u128) ensures r == self.d { self.d }
}
#[derive(Copy, Clone)] pub struct SystemTime { pub t: u128 }
pub struct SystemTimeError;
pub const UNIX_EPOCH: SystemTime = SystemTime { t: 0 };
impl vstd::std_specs::ops::AddSpecImpl<Duration> for SystemTime {
    open spec fn obeys_add_spec() -> bool { true }
    open spec fn add_req(self, rhs: Duration) -> bool { self.t + rhs.d <= u128::MAX }
    open spec fn add_spec(self, rhs: Duration) -> SystemTime { SystemTime { t: (self.t + rhs.d) as u128 } }
}
impl core::ops::Add<Duration> for SystemTime {
    type Output = SystemTime;
    fn add(self, rhs: Duration) -> SystemTime { SystemTime { t: self.t + rhs.d } }
}
impl SystemTime {
    pub fn duration_since(&self, earlier: SystemTime) -> (r: Result<Duration, SystemTimeError>)
        ensures match r { Ok(d) => self.t >= earlier.t && d.d == self.t - earlier.t, Err(_) => self.t < earlier.t }
    { if self.t >= earlier.t { Ok(Duration { d: self.t - earlier.t }) } else { Err(SystemTimeError) } }
    /// `self += d`
    pub fn add_assign(&mut self, d: Duration) requires old(self).t + d.d <= u128::MAX ensures final(self).t == old(self).t + d.d { self.t = self.t + d.d; }
}
pub struct TokenReuseError;
// ---- the two set representations -------------------------------------------------------------------------------------------
#[verifier::external_body] pub struct HSet { x: u8 }
impl View for HSet { type V = Set<u64>; uninterp spec fn view(&self) -> Set<u64>; }
impl HSet {
    #[verifier::external_body] pub fn insert(&mut self, x: u64) -> (r: bool) ensures r == !old(self)@.contains(x), final(self)@ == old(self)@.insert(x) { unimplemented!() }
    /// (capacity * 8 bytes is at most the table's allocation, which fits isize)
    #[verifier::external_body] pub fn capacity(&self) -> (r: usize) ensures r <= 0x0fff_ffff_ffff_ffff { unimplemented!() }
}
impl Default for HSet { #[verifier::external_body] fn default() -> (r: HSet) ensures r@ == Set::<u64>::empty() { unimplemented!() } }
/// a Bloom filter: the set of values it may report as present; never misses a value that was inserted
#[verifier::external_body] pub struct Bloom { x: u8 }
impl Bloom {
    pub uninterp spec fn may(&self) -> Set<u64>;
    /// `true` if the value was (possibly) present before
    #[verifier::external_body] pub fn insert(&mut self, x: &u64) -> (r: bool)
        ensures old(self).may().contains(*x) ==> r, final(self).may().contains(*x), forall|y: u64| old(self).may().contains(y) ==> final(self).may().contains(y)
    { unimplemented!() }
}
/// `BloomFilter::with_num_bits(bits).hasher(FxBuildHasher).hashes(k)`
#[verifier::external_body] pub fn bloom_new(bits: usize, k: u32) -> (r: Bloom) { unimplemented!() }
/// `for item in &*hset`
#[verifier::external_body] pub struct HSetIter<'a> { s: &'a HSet }
impl<'a> HSetIter<'a> { pub uninterp spec fn left(&self) -> nat; }
impl<'a> Iterator for HSetIter<'a> {
    type Item = &'a u64;
    #[verifier::external_body] fn next(&mut self) -> (r: Option<&'a u64>) { unimplemented!() }
}
impl<'a> vstd::std_specs::iter::IteratorSpecImpl for HSetIter<'a> {
    open spec fn obeys_prophetic_iter_laws(&self) -> bool { true }
    #[verifier::prophetic] uninterp spec fn remaining(&self) -> Seq<&'a u64>;
    #[verifier::prophetic] open spec fn will_return_none(&self) -> bool { true }
    open spec fn decrease(&self) -> Option<nat> { Some(self.left()) }
    open spec fn peek(&self, i: int) -> Option<&'a u64> { None }
}
#[verifier::external_body] pub fn hset_iter<'a>(s: &'a HSet) -> (it: HSetIter<'a>)
    ensures forall|x: u64| s@.contains(x) ==> exists|i: int| 0 <= i < it.remaining().len() && *(#[trigger] it.remaining()[i]) == x
{ unimplemented!() }
pub assume_specification<T: core::default::Default> [core::mem::take::<T>] (b: &mut T) -> (r: T)
    ensures r == *old(b), call_ensures(T::default, (), *final(b));
}
pub mod code {
use super::*; use super::shims::*;
//@ extract quinn-proto/src/bloom_token_log.rs :: struct FilterConfig
//@ derive
//@ vis pub
//@ end
//@ extract quinn-proto/src/bloom_token_log.rs :: enum Filter
//@ derive
//@ vis pub
//@ replace HashSet<u64, IdentityBuildHasher> => HSet
//@ replace BloomFilter<FxBuildHasher> => Bloom
//@ end
//@ extract quinn-proto/src/bloom_token_log.rs :: struct State
//@ derive
//@ vis pub
//@ end
/// the Mutex is read as exclusive access to the state
pub struct BloomTokenLog(pub State);

impl Filter {
    /// the values the filter may report as already used
    pub open spec fn may(&self) -> Set<u64> { match self { Filter::Set(h) => h@, Filter::Bloom(b) => b.may() } }
//@ extract quinn-proto/src/bloom_token_log.rs :: impl Filter::fn check_and_insert
//@ ret res
//@ replace ws:BloomFilter::with_num_bits((config.filter_max_bytes * 8).max(1)) .hasher(FxBuildHasher) .hashes(config.k_num) => bloom_new((config.filter_max_bytes.saturating_mul(8)).max(1), config.k_num)
//@ replace &*hset => hset_iter(hset)
//@ contract
        ensures
            // never misses a fingerprint seen before, and remembers this one
            old(self).may().contains(fingerprint) ==> res.is_err(),
            final(self).may().contains(fingerprint),
            forall|y: u64| old(self).may().contains(y) ==> final(self).may().contains(y),
//@ loop-iter 0 it
//@ loop 0
                    invariant
                        forall|i: int| 0 <= i < it.index@ ==> bloom.may().contains(*(#[trigger] it.seq()[i])),
                        forall|x: u64| hset@.contains(x) ==> exists|i: int| 0 <= i < it.seq().len() && *(#[trigger] it.seq()[i]) == x,
                    ensures
                        forall|x: u64| hset@.contains(x) ==> bloom.may().contains(x),
//@ end
}
impl Default for Filter {
//@ extract quinn-proto/src/bloom_token_log.rs :: impl Default for Filter::fn default
//@ ret r
//@ replace HashSet::default() => HSet::default()
//@ contract
        ensures r.may() == Set::<u64>::empty()
//@ end
}

/// accepted tokens, by (fingerprint, expiry time in ns)
pub type Acc = Set<(u64, int)>;
impl State {
    /// every accepted token whose expiry is not before the first period is remembered by the filter of its period
    pub open spec fn remembers(&self, acc: Acc, life: int) -> bool {
        forall|fp: u64, e: int| #[trigger] acc.contains((fp, e)) && e >= self.period_1_start.t ==> {
            let k = (e - self.period_1_start.t) / life;
            k <= 1 && (k == 0 ==> self.filter_1.may().contains(fp)) && (k == 1 ==> self.filter_2.may().contains(fp))
        }
    }
}
pub proof fn lemma_div_shift(x: int, l: int)
    requires l > 0, x >= l
    ensures (x - l) / l == x / l - 1, x / l >= 1
{
    vstd::arithmetic::div_mod::lemma_fundamental_div_mod(x, l);
    vstd::arithmetic::div_mod::lemma_fundamental_div_mod(x - l, l);
    assert((x - l) / l == x / l - 1) by(nonlinear_arith) requires l > 0, x >= l, x == l * (x / l) + x % l, x - l == l * ((x - l) / l) + (x - l) % l, 0 <= x % l < l, 0 <= (x - l) % l < l;
    assert(x / l >= 1) by(nonlinear_arith) requires l > 0, x >= l, x == l * (x / l) + x % l, 0 <= x % l < l;
}
pub proof fn lemma_div_mono(a: int, b: int, l: int)
    requires l > 0, 0 <= a <= b
    ensures a / l <= b / l
{ vstd::arithmetic::div_mod::lemma_div_is_ordered(a, b, l); }
/// one call of check_and_insert, seen from outside: `a` the state before, `b` after; pf = (e - a.p1) / life; the selected filter saw fp
pub proof fn lemma_log_step(a: State, b: State, life: int, fp: u64, e: int, pf: int, refused: bool)
    requires life > 0, e >= a.period_1_start.t, pf == (e - a.period_1_start.t) / life,
        pf == 0 ==> b.period_1_start == a.period_1_start && (a.filter_1.may().contains(fp) ==> refused) && b.filter_1.may().contains(fp)
            && (forall|y: u64| a.filter_1.may().contains(y) ==> b.filter_1.may().contains(y)) && b.filter_2 == a.filter_2,
        pf == 1 ==> b.period_1_start == a.period_1_start && (a.filter_2.may().contains(fp) ==> refused) && b.filter_2.may().contains(fp)
            && (forall|y: u64| a.filter_2.may().contains(y) ==> b.filter_2.may().contains(y)) && b.filter_1 == a.filter_1,
        pf == 2 ==> b.period_1_start.t == a.period_1_start.t + life && b.filter_1 == a.filter_2 && b.filter_2.may().contains(fp),
        pf >= 3 ==> b.period_1_start.t == e && b.filter_1.may().contains(fp),
    ensures forall|acc: Acc| #[trigger] a.remembers(acc, life) ==> (acc.contains((fp, e)) ==> refused) && b.remembers(acc, life) && b.remembers(acc.insert((fp, e)), life)
{
    let p1 = a.period_1_start.t as int;
    let q1 = b.period_1_start.t as int;
    assert forall|acc: Acc| #[trigger] a.remembers(acc, life) implies (acc.contains((fp, e)) ==> refused) && b.remembers(acc, life) && b.remembers(acc.insert((fp, e)), life) by {
        if acc.contains((fp, e)) { assert(pf <= 1); }
        let acc2 = acc.insert((fp, e));
        assert forall|f2: u64, e2: int| #[trigger] acc2.contains((f2, e2)) && e2 >= q1 implies ({
            let k = (e2 - q1) / life;
            k <= 1 && (k == 0 ==> b.filter_1.may().contains(f2)) && (k == 1 ==> b.filter_2.may().contains(f2))
        }) by {
            if f2 == fp && e2 == e {
                if pf == 2 { lemma_div_shift(e - p1, life); }
                if pf >= 3 { assert((e - e) / life == 0) by(nonlinear_arith) requires life > 0; }
            } else {
                assert(acc.contains((f2, e2)));
                if pf == 2 { assert(e2 >= p1 + life); lemma_div_shift(e2 - p1, life); }
                if pf >= 3 { assert(e2 >= p1); lemma_div_mono(e - p1, e2 - p1, life); }
            }
        }
        assert forall|f2: u64, e2: int| #[trigger] acc.contains((f2, e2)) && e2 >= q1 implies ({
            let k = (e2 - q1) / life;
            k <= 1 && (k == 0 ==> b.filter_1.may().contains(f2)) && (k == 1 ==> b.filter_2.may().contains(f2))
        }) by { assert(acc2.contains((f2, e2))); }
    }
}
impl BloomTokenLog {
//@ extract quinn-proto/src/bloom_token_log.rs :: impl TokenLog for BloomTokenLog::fn check_and_insert
//@ ret res
//@ vis pub
//@ replace &self, => &mut self,
//@ replace ws:let mut guard = self.0.lock().unwrap(); let state = &mut *guard; => let state = &mut self.0;
//@ replace state.period_1_start += lifetime; => state.period_1_start.add_assign(lifetime);
//@ closure 0 : Duration -> (q: u128)
        requires lifetime.d > 0
        ensures q == duration.d / lifetime.d
//@ replace filter.check_and_insert(nonce as u64, &state.config) => { let r = filter.check_and_insert(nonce as u64, &state.config); proof { lemma_log_step(st0, *state, lifetime.d as int, nonce as u64, (issued.t + lifetime.d) as int, periods_forward as int, r.is_err()); } r }
//@ before let filter = match periods_forward
        let ghost st0 = *state;
//@ contract
        requires issued.t + lifetime.d <= u128::MAX,
            // turning a period over must not overflow the clock either
            old(self).0.period_1_start.t + lifetime.d <= u128::MAX,
        ensures
            // for every set of tokens accepted so far (all issued with this lifetime) that the log still remembers:
            forall|acc: Acc| #[trigger] old(self).0.remembers(acc, lifetime.d as int) ==> {
                let e = issued.t + lifetime.d;
                // a token accepted before is refused -- by fingerprint if its period is still covered, as too old otherwise
                &&& (acc.contains((nonce as u64, e as int)) ==> res.is_err())
                // and the log keeps remembering them, plus this one if it was accepted
                &&& final(self).0.remembers(acc, lifetime.d as int)
                &&& (res.is_ok() ==> final(self).0.remembers(acc.insert((nonce as u64, e as int)), lifetime.d as int))
            },
//@ end
}
/// the null log (used when the `bloom` feature is off or by configuration): it has to refuse every token, otherwise a server without a
/// replay log would accept the same NEW_TOKEN token any number of times
pub struct NoneTokenLog;
impl NoneTokenLog {
//@ extract quinn-proto/src/token.rs :: impl TokenLog for NoneTokenLog::fn check_and_insert
//@ ret res
//@ vis pub
//@ contract
        ensures res.is_err()
//@ end
}
}
}
fn main() {}
