// PROBE (design phase, not framework code): harness module appended to quinn-proto/src/connection/ack_frequency.rs in a scratch copy
#[cfg(kani)]
mod verif_kani {
    use super::*;
    #[kani::proof]
    fn candidate_max_ack_delay_no_panic() {
        let st = AckFrequencyState::new(Duration::from_millis(kani::any::<u16>() as u64));
        let rtt = Duration::from_micros(kani::any::<u32>() as u64);
        let mut cfg = AckFrequencyConfig::default();
        if kani::any() { cfg.max_ack_delay = Some(Duration::from_micros(kani::any::<u32>() as u64)); }
        let mut p = TransportParameters::default();
        // what TransportParameters::read guarantees about a peer's values
        let mad: u64 = kani::any(); kani::assume(mad < (1 << 14));
        p.max_ack_delay = VarInt::from_u64(mad).unwrap();
        if kani::any() {
            let m: u64 = kani::any(); kani::assume(m <= mad * 1000);
            p.min_ack_delay = Some(VarInt::from_u64(m).unwrap());
        }
        let d = st.candidate_max_ack_delay(rtt, &cfg, &p);
        let _ = d;
    }
}
