// PROBE (design phase): appended to quinn-proto/src/congestion/bbr/mod.rs (struct-literal construction because Bbr::new reaches the thread RNG => Kani ICE).
// Result: FAILED in 1.9 s: from a state satisfying cwnd >= min_cwnd and (in recovery) recovery_window >= min_cwnd, `on_mtu_update` leaves
// window() = min(cwnd, recovery_window) below 2*new_mtu. Kani's witness: mtu 1278, ProbeBw, Conservation, recovery_window 6141, cwnd 5116, new_mtu 3071
// => window() = 6141 < 6142. Candidate C12 finding for BBR; reachability of the pre-state still to be shown by a concrete call history.
#[cfg(kani)]
mod verif_kani {
    use super::*;
    use rand::SeedableRng;
    fn any_bbr() -> Bbr {
        let mtu: u16 = kani::any(); kani::assume(mtu >= 1200);
        let cfg = Arc::new(BbrConfig::default());
        let initial_window = cfg.initial_window;
        let mut b = Bbr {
            config: cfg, current_mtu: mtu as u64, max_bandwidth: BandwidthEstimation::default(), acked_bytes: 0,
            mode: match kani::any::<u8>() % 4 { 0 => Mode::Startup, 1 => Mode::Drain, 2 => Mode::ProbeBw, _ => Mode::ProbeRtt },
            loss_state: Default::default(),
            recovery_state: match kani::any::<u8>() % 3 { 0 => RecoveryState::NotInRecovery, 1 => RecoveryState::Conservation, _ => RecoveryState::Growth },
            recovery_window: kani::any(), is_at_full_bandwidth: kani::any(),
            pacing_gain: K_DEFAULT_HIGH_GAIN, high_gain: K_DEFAULT_HIGH_GAIN, drain_gain: 1.0 / K_DEFAULT_HIGH_GAIN, cwnd_gain: K_DEFAULT_HIGH_GAIN, high_cwnd_gain: K_DEFAULT_HIGH_GAIN,
            last_cycle_start: None, current_cycle_offset: 0, init_cwnd: initial_window, min_cwnd: calculate_min_window(mtu as u64),
            prev_in_flight_count: 0, exit_probe_rtt_at: None, probe_rtt_last_started_at: None, min_rtt: Default::default(), exiting_quiescence: false,
            pacing_rate: 0, max_acked_packet_number: 0, max_sent_packet_number: 0, end_recovery_at_packet_number: 0,
            cwnd: kani::any(), current_round_trip_end_packet_number: 0, round_count: 0, bw_at_last_round: 0, round_wo_bw_gain: 0,
            ack_aggregation: AckAggregationState::default(), random_number_generator: Pcg32::new(1, 1),
        };
        // representation invariant that every method re-establishes: cwnd >= min_cwnd, and in recovery recovery_window >= min_cwnd
        kani::assume(b.cwnd >= b.min_cwnd && b.cwnd < (1u64 << 40));
        if b.recovery_state.in_recovery() { kani::assume(b.recovery_window >= b.min_cwnd && b.recovery_window < (1u64 << 40)); }
        b
    }
    #[kani::proof]
    #[kani::unwind(4)]
    fn bbr_window_floor_after_mtu_update() {
        let mut b = any_bbr();
        assert!(b.window() >= 2 * b.current_mtu);       // holds before
        let new_mtu: u16 = kani::any(); kani::assume(new_mtu >= 1200);
        b.on_mtu_update(new_mtu);
        assert!(b.window() >= 2 * (new_mtu as u64));    // the C12 floor after an MTU event
        core::mem::forget(b);
    }
}
