// PROBE (design phase, not framework code): harness module appended to quinn-proto/src/cid_generator.rs in a scratch copy; results in DESIGN.md appendix A
#[cfg(kani)]
mod verif_kani {
    use super::*;
    #[kani::proof]
    #[kani::unwind(10)]
    fn hashed_cid_validates_own_signature() {
        // generate_cid with the nonce made symbolic (the real one draws it from the thread RNG)
        let g = HashedConnectionIdGenerator::from_key(kani::any());
        let mut bytes_arr = [0u8; NONCE_LEN + SIGNATURE_LEN];
        let nonce: [u8; NONCE_LEN] = kani::any();
        bytes_arr[..NONCE_LEN].copy_from_slice(&nonce);
        let mut hasher = rustc_hash::FxHasher::default();
        hasher.write_u64(g.key);
        hasher.write(&bytes_arr[..NONCE_LEN]);
        bytes_arr[NONCE_LEN..].copy_from_slice(&hasher.finish().to_le_bytes()[..SIGNATURE_LEN]);
        let cid = ConnectionId::new(&bytes_arr);
        assert!(g.validate(cid).is_ok());
    }
}
