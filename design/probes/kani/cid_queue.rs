// PROBE (design phase, not framework code): harness module appended to quinn-proto/src/cid_queue.rs in a scratch copy
#[cfg(kani)]
mod verif_kani {
    use super::*;
    fn any_queue() -> CidQueue {
        let mut q = CidQueue::new(ConnectionId::new(&[1; 8]));
        q.cursor = kani::any();
        kani::assume(q.cursor < CidQueue::LEN);
        q.offset = kani::any();
        kani::assume(q.offset < (1u64 << 62));
        for i in 0..CidQueue::LEN {
            let present: bool = kani::any();
            q.buffer[i] = if present || i == q.cursor {
                let tok = if i == q.cursor && kani::any() { None } else { Some(ResetToken::from([7; crate::RESET_TOKEN_SIZE])) };
                Some((ConnectionId::new(&[i as u8; 8]), tok))
            } else { None };
        }
        // only the very first CID (sequence 0) may lack a reset token
        kani::assume(q.offset == 0 || q.buffer[q.cursor].unwrap().1.is_some());
        q
    }
    #[kani::proof]
    #[kani::unwind(7)]
    fn cid_queue_insert_total() {
        let mut q = any_queue();
        let sequence: u64 = kani::any(); let retire_prior_to: u64 = kani::any();
        kani::assume(sequence < (1u64 << 62) && retire_prior_to <= sequence);
        let off0 = q.offset;
        let r = q.insert(NewConnectionId { sequence, retire_prior_to, id: ConnectionId::new(&[9; 8]), reset_token: ResetToken::from([3; crate::RESET_TOKEN_SIZE]) });
        assert!(q.cursor < CidQueue::LEN);
        assert!(q.buffer[q.cursor].is_some());
        assert!(q.offset >= off0);
        match r {
            Ok(Some((range, _))) => { assert!(range.start == off0 && range.end > range.start && range.end - range.start <= CidQueue::LEN as u64); assert!(q.offset >= retire_prior_to); }
            Ok(None) => assert!(q.offset == off0),
            Err(InsertError::Retired) => assert!(sequence < off0),
            Err(InsertError::ExceedsLimit) => assert!(sequence >= off0 + CidQueue::LEN as u64),
        }
    }
    #[kani::proof]
    #[kani::unwind(7)]
    fn cid_queue_next_total() {
        let mut q = any_queue();
        let off0 = q.offset;
        match q.next() {
            Some((_, range)) => { assert!(range.start == off0 && range.end == q.offset && range.end > range.start && range.end - range.start < CidQueue::LEN as u64); assert!(q.buffer[q.cursor].is_some()); }
            None => assert!(q.offset == off0),
        }
    }
}
