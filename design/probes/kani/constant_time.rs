// PROBE (design phase, not framework code): harness module appended to quinn-proto/src/constant_time.rs in a scratch copy; results in DESIGN.md appendix A
#[cfg(kani)]
mod verif_kani {
    #[kani::proof]
    #[kani::unwind(18)]
    fn ct_eq_is_eq_16() {
        let a: [u8; 16] = kani::any(); let b: [u8; 16] = kani::any();
        assert!(super::eq(&a, &b) == (a == b));
    }
}
