// PROBE (design phase, not framework code): harness module appended to quinn-proto/src/congestion/cubic.rs in a scratch copy; results in DESIGN.md appendix A
#[cfg(kani)]
mod verif_kani {
    use super::*;
    #[repr(C)]
    struct RawTs { secs: i64, nanos: u32 }
    fn inst(secs: i64) -> Instant { unsafe { std::mem::transmute::<RawTs, Instant>(RawTs { secs, nanos: 0 }) } }
    fn any_inst() -> Instant { let s: u16 = kani::any(); inst(1000 + s as i64) }
    fn stub_k(_s: &State, _m: u64) -> f64 { let k: f64 = kani::any(); kani::assume(k.is_finite() && k >= 0.0); k }
    fn any_cubic() -> Cubic {
        let mtu: u16 = kani::any(); kani::assume(mtu >= 1200);
        let mut c = Cubic::new(Arc::new(CubicConfig::default()), inst(1000), mtu);
        c.state.window = kani::any(); c.state.ssthresh = kani::any(); c.state.cwnd_inc = kani::any();
        c.state.w_max = kani::any(); c.state.k = kani::any();
        c.state.recovery_start_time = if kani::any() { Some(any_inst()) } else { None };
        kani::assume(c.state.window >= c.minimum_window() && c.state.window < (1u64 << 40) && c.state.cwnd_inc < (1u64 << 40));
        kani::assume(c.state.w_max.is_finite() && c.state.w_max >= 0.0 && c.state.w_max < 1e15 && c.state.k.is_finite() && c.state.k >= 0.0 && c.state.k < 1e6);
        c
    }
    #[kani::proof]
    #[kani::stub(State::cubic_k, stub_k)]
    fn cubic_congestion_event_keeps_min_window() {
        let mut c = any_cubic();
        c.on_congestion_event(any_inst(), any_inst(), kani::any(), kani::any(), kani::any());
        assert!(c.window() >= 2 * c.current_mtu);
        assert!(c.state.ssthresh >= 2 * c.current_mtu);
    }
    #[kani::proof]
    fn cubic_on_ack_monotone() {
        let mut c = any_cubic();
        let bytes: u64 = kani::any(); kani::assume(bytes < (1u64 << 32));
        let rtt = RttEstimator::new(Duration::from_millis(1 + kani::any::<u8>() as u64));
        let w0 = c.window();
        c.on_ack(any_inst(), any_inst(), bytes, kani::any(), &rtt);
        assert!(c.window() >= w0);
    }
}
