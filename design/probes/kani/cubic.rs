// PROBE: appended to congestion/cubic.rs; cbrt is an unsupported FFI call (needs stub), on_ack with symbolic Instant/Duration did not finish in 900 s
#[cfg(kani)]
mod verif_kani {
    use super::*;
    #[repr(C)]
    struct RawTs { secs: i64, nanos: u32 }
    pub(crate) fn any_instant() -> Instant {
        let secs: i64 = kani::any();
        let nanos: u32 = kani::any();
        kani::assume(secs >= 0 && secs < (1i64 << 40) && nanos < 1_000_000_000);
        unsafe { std::mem::transmute::<RawTs, Instant>(RawTs { secs, nanos }) }
    }
    fn any_duration() -> Duration {
        let secs: u64 = kani::any();
        let nanos: u32 = kani::any();
        kani::assume(secs < (1u64 << 40) && nanos < 1_000_000_000);
        Duration::new(secs, nanos)
    }
    #[kani::proof]
    fn instant_model_sane() {
        let a = any_instant();
        let d = any_duration();
        let b = a + d;
        assert!(b >= a);
        assert!(b - a == d);
    }
    fn any_cubic() -> Cubic {
        let mtu: u16 = kani::any();
        kani::assume(mtu >= 1200);
        let mut c = Cubic::new(Arc::new(CubicConfig::default()), any_instant(), mtu);
        c.state.window = kani::any();
        c.state.ssthresh = kani::any();
        c.state.cwnd_inc = kani::any();
        c.state.w_max = kani::any();
        c.state.k = kani::any();
        c.state.recovery_start_time = if kani::any() { Some(any_instant()) } else { None };
        kani::assume(c.state.window >= c.minimum_window() && c.state.window < (1u64 << 62));
        kani::assume(c.state.w_max.is_finite() && c.state.w_max >= 0.0 && c.state.k.is_finite());
        c
    }
    #[kani::proof]
    fn cubic_congestion_event_keeps_min_window() {
        let mut c = any_cubic();
        c.on_congestion_event(any_instant(), any_instant(), kani::any(), kani::any(), kani::any());
        assert!(c.window() >= 2 * c.current_mtu);
    }
    #[kani::proof]
    fn cubic_mtu_update_keeps_min_window() {
        let mut c = any_cubic();
        let m: u16 = kani::any();
        c.on_mtu_update(m);
        assert!(c.window() >= 2 * (m as u64));
    }
    #[kani::proof]
    fn cubic_on_ack_keeps_min_window() {
        let mut c = any_cubic();
        let bytes: u64 = kani::any();
        kani::assume(bytes < (1u64 << 32));
        let rtt = RttEstimator::new(any_duration());
        let w0 = c.window();
        c.on_ack(any_instant(), any_instant(), bytes, kani::any(), &rtt);
        assert!(c.window() >= w0);
    }
}
