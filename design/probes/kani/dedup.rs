// PROBE: Dedup abstraction fn + contract + harnesses appended to connection/spaces.rs (attrs injected above Dedup::insert are listed in DESIGN.md)
#[cfg(kani)]
impl Dedup {
    /// abstract membership: has `p` been recorded (or is it assumed recorded, left of window)?
    pub(super) fn kani_seen(&self, p: u64) -> bool {
        if p >= self.next { return false; }
        let d = self.next - 1 - p; // distance from highest
        if d == 0 { true } else if d > 128 { true } else { (self.window >> (d - 1)) & 1 == 1 }
    }
}
#[cfg(kani)]
mod verif_kani {
    use super::*;
    #[kani::proof_for_contract(Dedup::insert)]
    fn dedup_insert_contract() {
        let mut d = Dedup { window: kani::any(), next: kani::any() };
        let p: u64 = kani::any();
        d.insert(p);
    }
    #[kani::proof]
    fn dedup_insert_frame() {
        // monotonicity: nothing seen is ever forgotten
        let mut d = Dedup { window: kani::any(), next: kani::any() };
        kani::assume(d.next <= (1u64 << 62));
        let p: u64 = kani::any();
        kani::assume(p < (1u64 << 62));
        let q: u64 = kani::any();
        let before = d.kani_seen(q);
        d.insert(p);
        assert!(!before || d.kani_seen(q));
        assert!(d.kani_seen(p));
        assert!(q == p || q >= d.next || before || d.kani_seen(q) == before || (d.next - 1 - q) > 128);
    }
}
