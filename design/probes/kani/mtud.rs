// PROBE (design phase, not framework code): harness module appended to quinn-proto/src/connection/mtud.rs in a scratch copy; results in DESIGN.md appendix A
#[cfg(kani)]
mod verif_kani {
    use super::*;
    use crate::Duration;
    #[repr(C)]
    struct RawTs { secs: i64, nanos: u32 }
    fn inst(secs: i64) -> Instant { unsafe { std::mem::transmute::<RawTs, Instant>(RawTs { secs, nanos: 0 }) } }
    fn any_search() -> SearchState {
        SearchState { lower_bound: kani::any(), upper_bound: kani::any(), minimum_change: kani::any(), last_probed_mtu: kani::any(), in_flight_probe: kani::any(), lost_probe_count: kani::any() }
    }
    fn any_mtud(cfg_upper: u16, peer_max: u16, min_mtu: u16, min_change: u16) -> MtuDiscovery {
        let config = MtuDiscoveryConfig { interval: Duration::from_secs(600), upper_bound: cfg_upper, minimum_change: min_change, black_hole_cooldown: Duration::from_secs(60) };
        let phase = match kani::any::<u8>() % 3 { 0 => Phase::Initial, 1 => Phase::Searching(any_search()), _ => Phase::Complete(inst(kani::any::<u16>() as i64)) };
        MtuDiscovery {
            current_mtu: kani::any(),
            state: Some(EnabledMtuDiscovery { phase, peer_max_udp_payload_size: peer_max, config }),
            black_hole_detector: BlackHoleDetector::new(min_mtu),
        }
    }
    /// candidate representation invariant
    fn inv(m: &MtuDiscovery, peer_max: u16, min_mtu: u16, min_change: u16) -> bool {
        let st = m.state.as_ref().unwrap();
        if m.current_mtu > peer_max || m.current_mtu < min_mtu.min(peer_max) { return false; }
        match &st.phase {
            Phase::Searching(s) => {
                s.minimum_change == min_change
                    && s.lower_bound <= peer_max && s.upper_bound <= peer_max && s.last_probed_mtu <= peer_max
                    && s.last_probed_mtu >= 1 && s.lost_probe_count <= MAX_PROBE_RETRANSMITS
            }
            _ => true,
        }
    }
    #[kani::proof]
    #[kani::unwind(4)]
    fn mtud_poll_transmit_bounds() {
        let cfg_upper: u16 = kani::any(); let peer_max: u16 = kani::any(); let min_mtu: u16 = kani::any(); let min_change: u16 = kani::any();
        kani::assume(peer_max >= 1200 && min_mtu >= 1 && min_change >= 1);
        let mut m = any_mtud(cfg_upper, peer_max, min_mtu, min_change);
        kani::assume(inv(&m, peer_max, min_mtu, min_change));
        let cur = m.current_mtu;
        let had_probe = m.in_flight_mtu_probe().is_some();
        let r = m.poll_transmit(inst(1000), kani::any());
        assert!(m.current_mtu == cur);
        if let Some(p) = r { assert!(p <= peer_max); assert!(!had_probe); assert!(m.in_flight_mtu_probe().is_some()); }
        assert!(inv(&m, peer_max, min_mtu, min_change));
        core::mem::forget(m);
    }
    #[kani::proof]
    #[kani::unwind(4)]
    fn mtud_on_acked_only_probe_moves_mtu() {
        let cfg_upper: u16 = kani::any(); let peer_max: u16 = kani::any(); let min_mtu: u16 = kani::any(); let min_change: u16 = kani::any();
        kani::assume(peer_max >= 1200 && min_mtu >= 1 && min_change >= 1);
        let mut m = any_mtud(cfg_upper, peer_max, min_mtu, min_change);
        kani::assume(inv(&m, peer_max, min_mtu, min_change));
        let cur = m.current_mtu;
        let probe = m.in_flight_mtu_probe();
        let probed_size = match &m.state.as_ref().unwrap().phase { Phase::Searching(s) => Some(s.last_probed_mtu), _ => None };
        let pn: u64 = kani::any();
        let space = if kani::any() { SpaceId::Data } else { SpaceId::Handshake };
        let was_probe = m.on_acked(space, pn, kani::any());
        if was_probe { assert!(space == SpaceId::Data && probe == Some(pn) && Some(m.current_mtu) == probed_size); } else { assert!(m.current_mtu == cur); }
        assert!(inv(&m, peer_max, min_mtu, min_change));
        core::mem::forget(m);
    }
}
