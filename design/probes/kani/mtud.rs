// PROBE (design phase, not framework code): harness module appended to src/connection/mtud.rs in a scratch copy (final variant with transmuted Instant)
#[cfg(kani)]
mod verif_kani {
    use super::*;
    #[repr(C)]
    struct RawTs { secs: i64, nanos: u32 }
    fn inst(secs: i64) -> Instant { unsafe { std::mem::transmute::<RawTs, Instant>(RawTs { secs, nanos: 0 }) } }

    use crate::Duration;
    fn any_search() -> SearchState {
        SearchState { lower_bound: kani::any(), upper_bound: kani::any(), minimum_change: kani::any(), last_probed_mtu: kani::any(), in_flight_probe: kani::any(), lost_probe_count: kani::any() }
    }
    /// symbolic enabled MtuDiscovery in phase Initial or Searching (no Instants needed)
    fn any_mtud(cfg_upper: u16, peer_max: u16, min_mtu: u16) -> MtuDiscovery {
        let config = MtuDiscoveryConfig { interval: Duration::from_secs(600), upper_bound: cfg_upper, minimum_change: kani::any(), black_hole_cooldown: Duration::from_secs(60) };
        let phase = if kani::any() { Phase::Initial } else { Phase::Searching(any_search()) };
        MtuDiscovery {
            current_mtu: kani::any(),
            state: Some(EnabledMtuDiscovery { phase, peer_max_udp_payload_size: peer_max, config }),
            black_hole_detector: BlackHoleDetector::new(min_mtu),
        }
    }
    fn inv(m: &MtuDiscovery, cfg_upper: u16, peer_max: u16, min_mtu: u16) -> bool {
        let st = m.state.as_ref().unwrap();
        if m.current_mtu > peer_max { return false; }
        if m.current_mtu < min_mtu.min(peer_max) { return false; }
        match &st.phase {
            Phase::Searching(s) => {
                s.lower_bound <= peer_max && s.upper_bound <= peer_max && s.last_probed_mtu <= peer_max
                    && s.last_probed_mtu >= 1 && s.lost_probe_count <= MAX_PROBE_RETRANSMITS
                    && s.upper_bound <= cfg_upper.max(s.lower_bound) && s.lower_bound <= s.last_probed_mtu
                    && s.last_probed_mtu <= s.upper_bound.max(s.lower_bound)
            }
            _ => true,
        }
    }
    #[kani::proof]
    fn mtud_poll_transmit_bounds() {
        let cfg_upper: u16 = kani::any(); let peer_max: u16 = kani::any(); let min_mtu: u16 = kani::any();
        kani::assume(peer_max >= 1200 && min_mtu >= 1);
        let mut m = any_mtud(cfg_upper, peer_max, min_mtu);
        kani::assume(inv(&m, cfg_upper, peer_max, min_mtu));
        let cur = m.current_mtu;
        let now = inst(1000);
        let r = m.poll_transmit(now, kani::any());
        assert!(m.current_mtu == cur);
        if let Some(p) = r {
            assert!(p <= peer_max);
            assert!(p <= cfg_upper.max(cur));
        }
        assert!(inv(&m, cfg_upper, peer_max, min_mtu));
    }
}
