// PROBE (design phase, not framework code): harness module appended to src/congestion/new_reno.rs in a scratch copy (final variant with transmuted Instant)
#[cfg(kani)]
mod verif_kani {
    use super::*;
    #[repr(C)]
    struct RawTs { secs: i64, nanos: u32 }
    fn inst(secs: i64) -> Instant { unsafe { std::mem::transmute::<RawTs, Instant>(RawTs { secs, nanos: 0 }) } }

    use crate::Duration;
    fn any_reno(now: Instant) -> NewReno {
        let mtu: u16 = kani::any(); kani::assume(mtu >= 1200);
        let mut c = NewReno::new(Arc::new(NewRenoConfig::default()), now, mtu);
        c.window = kani::any(); c.ssthresh = kani::any(); c.bytes_acked = kani::any();
        kani::assume(c.window >= c.minimum_window() && c.window < (1u64 << 62) && c.bytes_acked < (1u64 << 62));
        c
    }
    #[kani::proof]
    fn reno_invariant_all_events() {
        let t0 = inst(1000);
        let mut c = any_reno(t0);
        let sent = if kani::any() { t0 } else { t0 + Duration::from_secs(1) };
        match kani::any::<u8>() % 3 {
            0 => { let b: u64 = kani::any(); kani::assume(b < (1u64 << 32)); c.on_ack(t0, sent, b, kani::any(), &RttEstimator::new(Duration::from_millis(100))); }
            1 => c.on_congestion_event(t0 + Duration::from_secs(2), sent, kani::any(), kani::any(), kani::any()),
            _ => c.on_mtu_update(kani::any()),
        }
        assert!(c.window() >= 2 * c.current_mtu);
    }
}
