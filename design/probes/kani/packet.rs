// PROBE (design phase, not framework code): harness module appended to quinn-proto/src/packet.rs in a scratch copy
#[cfg(kani)]
mod verif_kani {
    use super::*;
    #[kani::proof]
    fn pn_expand_roundtrip_all() {
        let n: u64 = kani::any(); let la: u64 = kani::any(); let expected: u64 = kani::any();
        kani::assume(n < (1u64 << 62) && la < n && n - la < (1u64 << 31));
        let pn = PacketNumber::new(n, la);
        let win = 1u64 << (pn.len() * 8); let hwin = win / 2;
        // receiver's expectation lies within the window RFC 9000 A.3 assumes
        kani::assume(expected < (1u64 << 62) && n <= expected + hwin && (expected < hwin || n > expected - hwin));
        assert!(pn.expand(expected) == n);
    }
    #[kani::proof]
    fn pn_codec_roundtrip() {
        let n: u64 = kani::any(); let la: u64 = kani::any();
        kani::assume(n < (1u64 << 62) && la < n && n - la < (1u64 << 31));
        let pn = PacketNumber::new(n, la);
        let mut buf = [0u8; 4];
        let mut w = &mut buf[..];
        pn.encode(&mut w);
        assert!(4 - w.len() == pn.len());
        assert!(PacketNumber::decode_len(pn.tag()) == pn.len());
        let mut r = &buf[..pn.len()];
        assert!(PacketNumber::decode(pn.len(), &mut r).unwrap() == pn);
    }
}
