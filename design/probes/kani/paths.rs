// PROBE (design phase, not framework code): harness module appended to quinn-proto/src/connection/paths.rs in a scratch copy
#[cfg(kani)]
mod verif_kani {
    use super::*;
    #[kani::proof]
    fn rtt_update_no_panic() {
        let mut r = RttEstimator::new(Duration::from_micros(kani::any::<u32>() as u64));
        if kani::any() { r.smoothed = Some(Duration::from_micros(kani::any::<u32>() as u64)); r.var = Duration::from_micros(kani::any::<u32>() as u64); r.min = Duration::from_micros(kani::any::<u32>() as u64); r.latest = Duration::from_micros(kani::any::<u32>() as u64); }
        r.update(Duration::from_micros(kani::any::<u32>() as u64), Duration::from_micros(kani::any::<u32>() as u64));
        assert!(r.min <= r.latest);
    }
}
