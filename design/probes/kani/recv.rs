// PROBE (design phase, not framework code): harness module appended to quinn-proto/src/connection/streams/recv.rs in a scratch copy
#[cfg(kani)]
mod verif_kani {
    use super::*;
    use crate::TransportErrorCode;
    fn any_recv() -> Recv {
        let mut r = *Recv::new(kani::any());
        r.end = kani::any();
        r.stopped = kani::any();
        r.state = match kani::any::<u8>() % 3 { 0 => RecvState::Recv { size: None }, 1 => RecvState::Recv { size: Some(kani::any()) }, _ => RecvState::ResetRecvd { size: kani::any(), error_code: VarInt::from_u32(7) } };
        kani::assume(r.end <= r.sent_max_stream_data && r.sent_max_stream_data < (1u64 << 62));
        if let Some(f) = r.final_offset() { kani::assume(r.end <= f && f < (1u64 << 62)); }
        r
    }
    #[kani::proof]
    #[kani::unwind(50)]
    fn err_string_cost() {
        let e = TransportError::STREAM_STATE_ERROR("illegal operation on send-only stream");
        assert!(e.code == TransportErrorCode::STREAM_STATE_ERROR);
        core::mem::forget(e);
    }
    #[kani::proof]
    #[kani::unwind(8)]
    fn credit_consumed_by_exact() {
        let r = any_recv();
        let offset: u64 = kani::any(); let received: u64 = kani::any(); let max: u64 = kani::any();
        kani::assume(offset < (1u64 << 62) && received <= max && max < (1u64 << 62));
        match r.credit_consumed_by(offset, received, max) {
            Ok(n) => { assert!(offset <= r.sent_max_stream_data && received + n <= max && n == offset.saturating_sub(r.end)); }
            Err(e) => { assert!(e.code == TransportErrorCode::FLOW_CONTROL_ERROR); assert!(offset > r.sent_max_stream_data || received + offset.saturating_sub(r.end) > max); }
        }
        core::mem::forget(r);
    }
    #[kani::proof]
    #[kani::unwind(8)]
    fn ingest_enforces_limits() {
        let mut r = any_recv();
        let offset: u64 = kani::any(); let received: u64 = kani::any(); let max: u64 = kani::any(); let fin: bool = kani::any();
        kani::assume(offset < (1u64 << 62) && received <= max && max < (1u64 << 62));
        let end0 = r.end; let fo0 = r.final_offset(); let limit = r.sent_max_stream_data;
        let frame = frame::Stream { id: StreamId(3), offset, fin, data: bytes::Bytes::from_static(b"abcd") };
        match r.ingest(frame, 4, received, max) {
            Ok((n, closed)) => {
                assert!(offset + 4 <= limit && received + n <= max);
                assert!(r.end == end0.max(offset + 4));
                if let Some(f) = fo0 { assert!(offset + 4 <= f && (!fin || offset + 4 == f)); }
                assert!(closed == (fin && r.stopped));
            }
            Err(e) => { assert!(r.end == end0); assert!(e.code == TransportErrorCode::FLOW_CONTROL_ERROR || e.code == TransportErrorCode::FINAL_SIZE_ERROR || e.code == TransportErrorCode::INTERNAL_ERROR); }
        }
        core::mem::forget(r);
    }
}
