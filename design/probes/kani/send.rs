// PROBE (design phase, not framework code): harness module appended to quinn-proto/src/connection/streams/send.rs in a scratch copy
#[cfg(kani)]
mod verif_kani {
    use super::*;
    fn any_send() -> Send {
        let mut s = *Send::new(VarInt::from_u32(0));
        s.max_data = kani::any();
        s.state = match kani::any::<u8>() % 4 { 0 => SendState::Ready, 1 => SendState::DataSent { finish_acked: false }, 2 => SendState::DataSent { finish_acked: true }, _ => SendState::ResetSent };
        s.stop_reason = if kani::any() { Some(VarInt::from_u32(kani::any())) } else { None };
        s.fin_pending = kani::any();
        s
    }
    #[kani::proof]
    #[kani::unwind(8)]
    fn finish_table() {
        let mut s = any_send();
        let st0 = s.state; let stop0 = s.stop_reason;
        match s.finish() {
            Ok(()) => { assert!(stop0.is_none() && st0 == SendState::Ready); assert!(s.state == SendState::DataSent { finish_acked: false } && s.fin_pending); }
            Err(FinishError::Stopped(c)) => { assert!(stop0 == Some(c)); assert!(s.state == st0); }
            Err(FinishError::ClosedStream) => { assert!(stop0.is_none() && st0 != SendState::Ready); assert!(s.state == st0); }
        }
        core::mem::forget(s);
    }
    #[kani::proof]
    #[kani::unwind(6)]
    fn write_respects_stream_limit() {
        let mut s = any_send();
        kani::assume(s.max_data < (1u64 << 62));
        let data = [1u8, 2, 3, 4];
        let n: usize = kani::any(); kani::assume(n <= 4);
        let limit: u64 = kani::any();
        let mut src = ByteSlice::from_slice(&data[..n]);
        let st0 = s.state; let stop0 = s.stop_reason;
        match s.write(&mut src, limit) {
            Ok(w) => { assert!(st0 == SendState::Ready && stop0.is_none()); assert!(s.offset() == w.bytes as u64); assert!(w.bytes as u64 <= limit && s.offset() <= s.max_data && w.bytes <= n); assert!(w.bytes as u64 == (n as u64).min(limit).min(s.max_data)); }
            Err(WriteError::ClosedStream) => assert!(st0 != SendState::Ready),
            Err(WriteError::Stopped(c)) => assert!(stop0 == Some(c)),
            Err(WriteError::Blocked) => assert!(s.max_data == 0),
        }
        core::mem::forget(s);
    }
}
