// PROBE (design phase, not framework code): harness module appended to src/connection/spaces.rs in a scratch copy (final variant with transmuted Instant)
#[cfg(kani)]
mod verif_kani {
    use super::*;
    #[repr(C)]
    struct RawTs { secs: i64, nanos: u32 }
    fn inst(secs: i64) -> Instant { unsafe { std::mem::transmute::<RawTs, Instant>(RawTs { secs, nanos: 0 }) } }

    #[kani::proof]
    fn dedup_smallest_missing_no_panic() {
        let d = Dedup { window: kani::any(), next: kani::any() };
        kani::assume(d.next >= 1 && d.next < (1u64 << 62));
        let lo: u64 = kani::any(); let hi: u64 = kani::any();
        kani::assume(lo <= hi && hi <= d.next - 1);
        if let Some(m) = d.smallest_missing_in_interval(lo, hi) { assert!(lo < m && m < hi); }
    }
    #[kani::proof]
    fn detect_ecn_no_overflow() {
        let mut s = PacketSpace::new(inst(1000));
        let f = |x: u64| { kani::assume(x < (1u64 << 62)); x };
        s.ecn_feedback = frame::EcnCounts { ect0: f(kani::any()), ect1: f(kani::any()), ce: f(kani::any()) };
        let e = frame::EcnCounts { ect0: f(kani::any()), ect1: f(kani::any()), ce: f(kani::any()) };
        let _ = s.detect_ecn(kani::any(), e);
        core::mem::forget(s);
    }
}
