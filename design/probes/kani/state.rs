// PROBE (design phase, not framework code): harness module appended to src/connection/streams/state.rs in a scratch copy (final variant with transmuted Instant)
#[cfg(kani)]
mod verif_kani {
    use super::*;
    use crate::TransportErrorCode;
    fn st() -> StreamsState {
        // no remote streams pre-allocated: both hash maps stay empty and allocation-free
        let mut s = StreamsState::new(Side::Server, 0u32.into(), 0u32.into(), kani::any(), VarInt::from_u32(kani::any()), VarInt::from_u32(kani::any()));
        s.max_remote = [kani::any(), kani::any()];
        s.next = [kani::any(), kani::any()];
        s
    }
    #[kani::proof]
    #[kani::unwind(8)]
    fn validate_receive_id_table() {
        let mut s = st();
        let raw: u64 = kani::any(); kani::assume(raw < (1u64 << 62));
        let id = StreamId(raw);
        match s.validate_receive_id(id) {
            Ok(()) => { if id.initiator() == Side::Server { assert!(id.dir() == Dir::Bi && id.index() < s.next[0]); } else { assert!(id.index() < s.max_remote[id.dir() as usize]); } }
            Err(e) => { if id.initiator() == Side::Client { assert!(e.code == TransportErrorCode::STREAM_LIMIT_ERROR && id.index() >= s.max_remote[id.dir() as usize]); } else { assert!(e.code == TransportErrorCode::STREAM_STATE_ERROR); } }
        }
        core::mem::forget(s);
    }
    #[kani::proof]
    #[kani::unwind(8)]
    fn add_read_credits_bounded() {
        let mut s = st();
        s.local_max_data = kani::any(); s.receive_window_shrink_debt = kani::any(); s.receive_window = kani::any();
        kani::assume(s.sent_max_data.into_inner() <= s.local_max_data);
        let c: u64 = kani::any();
        let before = s.local_max_data; let debt = s.receive_window_shrink_debt;
        let _ = s.add_read_credits(c);
        assert!(s.local_max_data >= before);
        assert!(s.local_max_data - before <= c);
        assert!(s.local_max_data - before == c.saturating_sub(debt) || s.local_max_data == u64::MAX);
        core::mem::forget(s);
    }
    #[kani::proof]
    #[kani::unwind(8)]
    fn write_limit_exact() {
        let mut s = st();
        s.max_data = kani::any(); s.data_sent = kani::any(); s.unacked_data = kani::any();
        kani::assume(s.data_sent <= s.max_data);
        assert!(s.write_limit() == (s.max_data - s.data_sent).min(s.send_window.saturating_sub(s.unacked_data)));
        core::mem::forget(s);
    }
}
