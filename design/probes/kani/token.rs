// PROBE (design phase, not framework code): harness module appended to quinn-proto/src/token.rs in a scratch copy; results in DESIGN.md appendix A
#[cfg(kani)]
mod verif_kani {
    use super::*;
    use crate::crypto::{self, AeadKey, CryptoError, Keys, UnsupportedVersion};
    use crate::{TimeSource, TransportConfig, transport_parameters::TransportParameters};
    use std::sync::Arc;

    const PT_MAX: usize = 40;
    struct OracleAead;
    impl AeadKey for OracleAead {
        fn seal(&self, _d: &mut Vec<u8>, _a: &[u8]) -> Result<(), CryptoError> { Ok(()) }
        fn open<'a>(&self, data: &'a mut [u8], _a: &[u8]) -> Result<&'a mut [u8], CryptoError> {
            if kani::any() { return Err(CryptoError); }
            let n: usize = kani::any();
            kani::assume(n <= data.len() && n <= PT_MAX);
            let pt: [u8; PT_MAX] = kani::any();
            let mut i = 0;
            while i < n { data[i] = pt[i]; i += 1; }
            Ok(&mut data[..n])
        }
    }
    struct OracleKey;
    impl HandshakeTokenKey for OracleKey { fn aead_from_hkdf(&self, _r: &[u8]) -> Box<dyn AeadKey> { Box::new(OracleAead) } }
    struct FixedTime(u64);
    impl TimeSource for FixedTime { fn now(&self) -> SystemTime { UNIX_EPOCH + Duration::from_secs(self.0) } }
    struct AnyLog;
    impl TokenLog for AnyLog { fn check_and_insert(&self, _n: u128, _i: SystemTime, _l: Duration) -> Result<(), TokenReuseError> { if kani::any() { Ok(()) } else { Err(TokenReuseError) } } }
    struct NoCrypto;
    impl crypto::ServerConfig for NoCrypto {
        fn initial_keys(&self, _v: u32, _d: ConnectionId) -> Result<Keys, UnsupportedVersion> { Err(UnsupportedVersion) }
        fn retry_tag(&self, _v: u32, _o: ConnectionId, _p: &[u8]) -> [u8; 16] { [0; 16] }
        fn start_session(self: Arc<Self>, _v: u32, _p: &TransportParameters) -> Box<dyn crypto::Session> { unreachable!() }
    }

    #[kani::proof]
    #[kani::unwind(45)]
    fn from_header_decision_table() {
        let now: u64 = kani::any(); kani::assume(now < (1u64 << 40));
        let retry_life: u64 = kani::any(); kani::assume(retry_life < (1u64 << 32));
        let val_life: u64 = kani::any(); kani::assume(val_life < (1u64 << 32));
        let cfg = ServerConfig {
            transport: Arc::new(TransportConfig::default()),
            crypto: Arc::new(NoCrypto),
            validation_token: crate::ValidationTokenConfig { lifetime: Duration::from_secs(val_life), log: Arc::new(AnyLog), sent: 0 },
            token_key: Arc::new(OracleKey),
            retry_token_lifetime: Duration::from_secs(retry_life),
            migration: true, preferred_address_v4: None, preferred_address_v6: None,
            max_incoming: 1, incoming_buffer_size: 1, incoming_buffer_size_total: 1,
            time_source: Arc::new(FixedTime(now)),
        };
        let dst = ConnectionId::new(&[9; 8]);
        let header = InitialHeader { dst_cid: dst, src_cid: ConnectionId::new(&[8; 8]), token: Bytes::from_static(&[0u8; PT_MAX + 16]), number: crate::packet::PacketNumber::U8(0), version: 1 };
        let remote = SocketAddr::from(([10, 0, 0, 1], kani::any::<u16>()));
        match IncomingToken::from_header(&header, &cfg, remote) {
            Ok(t) => { if t.validated { assert!(t.retry_src_cid.is_none() || t.retry_src_cid == Some(dst)); } else { assert!(t.retry_src_cid.is_none() && t.orig_dst_cid == dst); } }
            Err(_) => {}
        }
        core::mem::forget(cfg); core::mem::forget(header);
    }
}
