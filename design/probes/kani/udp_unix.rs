// PROBE: appended to quinn-udp/src/unix.rs. NOTE: decodes IP_TOS with the recv-side type (u8) although the send side pushes c_int -> the one failing check is a harness artefact, see DESIGN.md
#[cfg(kani)]
mod verif_kani {
    use super::*;

    fn any_ecn() -> Option<EcnCodepoint> {
        match kani::any::<u8>() % 4 {
            0 => None,
            1 => Some(EcnCodepoint::Ect0),
            2 => Some(EcnCodepoint::Ect1),
            _ => Some(EcnCodepoint::Ce),
        }
    }
    fn any_ip() -> IpAddr {
        if kani::any() { IpAddr::V4(Ipv4Addr::from(kani::any::<[u8; 4]>())) } else { IpAddr::V6(Ipv6Addr::from(kani::any::<[u8; 16]>())) }
    }

    #[kani::proof]
    #[kani::unwind(8)]
    fn prepare_msg_stays_in_bounds_and_roundtrips() {
        let contents = [0u8; 32];
        let dst = SocketAddr::new(any_ip(), kani::any());
        let seg: Option<usize> = if kani::any() { Some(kani::any()) } else { None };
        let src_ip = if kani::any() { Some(any_ip()) } else { None };
        let ecn = any_ecn();
        let t = Transmit { destination: dst, ecn, contents: &contents, segment_size: seg, src_ip };
        if let Some(s) = seg { kani::assume(s >= 1 && s <= u16::MAX as usize); }
        let dst_addr = socket2::SockAddr::from(dst);
        let mut hdr: libc::msghdr = unsafe { mem::zeroed() };
        let mut iov: libc::iovec = unsafe { mem::zeroed() };
        let mut ctrl = cmsg::Aligned([0u8; cmsg::LEN]);
        let einval: bool = kani::any();
        prepare_msg(&t, &dst_addr, &mut hdr, &mut iov, &mut ctrl, true, einval);
        assert!(hdr.msg_controllen as usize <= cmsg::LEN);
        assert!(iov.iov_len == 32);
        // decode what was encoded
        let mut meta = ControlMetadata { ecn_bits: 0, dst_ip: None, interface_index: None, stride: 0, timestamp: None };
        let mut seg_seen: Option<u16> = None;
        if hdr.msg_controllen > 0 {
            let it = unsafe { cmsg::Iter::new(&hdr) };
            for c in it {
                if c.cmsg_level == libc::SOL_UDP && c.cmsg_type == libc::UDP_SEGMENT {
                    seg_seen = Some(unsafe { cmsg::decode::<u16, libc::cmsghdr>(c) });
                } else {
                    meta.decode(c);
                }
            }
        }
        let is_v4 = dst.is_ipv4() || matches!(dst.ip(), IpAddr::V6(a) if a.to_ipv4_mapped().is_some());
        if !(is_v4 && einval) {
            assert!(EcnCodepoint::from_bits(meta.ecn_bits) == ecn);
        }
        assert!(seg_seen.map(|x| x as usize) == t.effective_segment_size());
    }
}
