// PROBE (design phase): plain #[test] inserted into the `tests` module of quinn-proto/src/connection/mtud.rs in a scratch copy.
// On the pinned tree it FAILS: with MtuDiscoveryConfig::minimum_change(1) and 21 lost probes the search probes 1200 (the current MTU)
// and then 1199 bytes; acknowledging that probe sets current_mtu = 1199 < min_mtu = 1200.
// Output: probe sizes [1326 x3, 1262 x3, 1230 x3, 1214 x3, 1206 x3, 1202 x3, 1200 x3, 1199]; current_mtu = 1199.
// Candidate repair in SearchState::next_mtu_to_probe, before the midpoint: `if self.upper_bound <= self.lower_bound { return None; }`
// -> replay passes, all 285 quinn-proto tests pass.
    #[test]
    fn probe_mtu_estimate_falls_below_min_mtu() {
        let mut config = MtuDiscoveryConfig::default();
        config.minimum_change(1);
        let mut mtud = MtuDiscovery::new(1_200, 1_200, None, config);
        let now = Instant::now();
        let mut sizes = Vec::new();
        for pn in 1..200u64 {
            let Some(size) = mtud.poll_transmit(now, pn) else { break };
            sizes.push(size);
            if size < 1_200 {
                // a lossy path finally lets a probe through - one that is SMALLER than the current MTU
                let was_probe = mtud.on_acked(SpaceId::Data, pn, size);
                println!("probe sizes: {sizes:?}");
                println!("acked probe of {size} bytes (was_probe={was_probe}); current_mtu = {} with min_mtu = 1200", mtud.current_mtu());
                break;
            }
            mtud.on_probe_lost();
        }
        assert!(mtud.current_mtu() >= 1_200, "MTU estimate fell below the configured minimum / QUIC's 1200-byte floor");
    }
