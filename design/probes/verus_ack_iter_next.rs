// PROBE (design phase): AckIter::next verbatim under the recursive validity predicate ack_valid: 2 verified, 0 errors
// (unwrap reachable only with valid data, both subtractions safe, ranges strictly descending). The link scan_ack_blocks ==> ack_valid is still to do.

use vstd::prelude::*;
use std::ops::RangeInclusive;
verus! {
global size_of usize == 8;
pub mod shims {
use super::*;
#[derive(Debug)] pub struct UnexpectedEnd;
pub type CResult<T> = ::std::result::Result<T, UnexpectedEnd>;
/// uninterpreted varint parser: Some((value, bytes consumed)) or None; proved facts about it come from Kani on the real VarInt::decode
pub uninterp spec fn vparse(s: Seq<u8>) -> Option<(u64, nat)>;
#[verifier::external_body]
pub broadcast proof fn axiom_vparse_bounds(s: Seq<u8>)
    ensures match #[trigger] vparse(s) { Some((v, k)) => v < 0x4000_0000_0000_0000 && 1 <= k <= 8 && k <= s.len(), None => true } {}
/// prefix determinism: parsing depends only on the bytes consumed
#[verifier::external_body]
pub broadcast proof fn axiom_vparse_prefix(s: Seq<u8>, t: Seq<u8>)
    requires vparse(s).is_some(), t.len() >= vparse(s).unwrap().1, t.take(vparse(s).unwrap().1 as int) == s.take(vparse(s).unwrap().1 as int)
    ensures #[trigger] vparse(t) == #[trigger] vparse(s) {}

pub trait Buf {
    spec fn bview(&self) -> Seq<u8>;
    fn remaining(&self) -> (r: usize) ensures r == self.bview().len();
    fn has_remaining(&self) -> (r: bool) ensures r == (self.bview().len() > 0);
    fn get_var(&mut self) -> (r: CResult<u64>)
        ensures match r {
            Ok(v) => vparse(old(self).bview()) == Some((v, (old(self).bview().len() - final(self).bview().len()) as nat))
                     && final(self).bview() == old(self).bview().skip(vparse(old(self).bview()).unwrap().1 as int),
            Err(_) => vparse(old(self).bview()).is_none() && final(self).bview().len() <= old(self).bview().len(),
        };
}
impl<'a> Buf for &'a [u8] {
    open spec fn bview(&self) -> Seq<u8> { (*self)@ }
    #[verifier::external_body] fn remaining(&self) -> (r: usize) { unimplemented!() }
    #[verifier::external_body] fn has_remaining(&self) -> (r: bool) { unimplemented!() }
    #[verifier::external_body] fn get_var(&mut self) -> (r: CResult<u64>) { unimplemented!() }
}
}
pub mod spec {
use super::*; use super::shims::*;
/// what AckIter::next needs of its remaining data: block, then optionally (gap, rest...)
pub open spec fn ack_valid(data: Seq<u8>, largest: u64) -> bool
    decreases data.len()
{
    if data.len() == 0 { true } else {
        match vparse(data) {
            None => false,
            Some((block, k1)) => block <= largest && 1 <= k1 <= data.len() && {
                let r1 = data.skip(k1 as int);
                match vparse(r1) {
                    None => r1.len() == 0,
                    Some((gap, k2)) => 1 <= k2 <= r1.len() && block + gap + 2 <= largest
                        && ack_valid(r1.skip(k2 as int), (largest - block - gap - 2) as u64),
                }
            }
        }
    }
}
}
pub mod code {
use super::*; use super::shims::*; use super::spec::*;
broadcast use {axiom_vparse_bounds, axiom_vparse_prefix};

pub struct AckIter<'a> {
    pub largest: u64,
    pub data: &'a [u8],
}

impl<'a> AckIter<'a> {
    pub fn next(&mut self) -> (r: Option<RangeInclusive<u64>>)
        requires ack_valid(old(self).data@, old(self).largest),
        ensures
            ack_valid(final(self).data@, final(self).largest),
            final(self).data@.len() <= old(self).data@.len(),
            match r {
                Some(rg) => old(self).data@.len() > 0 && final(self).data@.len() < old(self).data@.len()
                    && rg@.start <= rg@.end && rg@.end == old(self).largest
                    && (final(self).data@.len() > 0 ==> final(self).largest + 2 <= rg@.start),
                None => old(self).data@.len() == 0,
            },
    {
        if !self.data.has_remaining() {
            return None;
        }
        let block = self.data.get_var().unwrap();
        let largest = self.largest;
        if let Ok(gap) = self.data.get_var() {
            self.largest -= block + gap + 2;
        }
        Some(largest - block..=largest)
    }
}
}
}
fn main() {}
