// PROBE (design phase): the complete ACK-range safety argument, 10 verified, 0 errors:
//  (1) real scan_ack_blocks: Ok(k) ==> scan_spec(buf, largest, n) == Some(k)   (shape layer, one loop invariant, 4 ghost lets)
//  (2) ghost lemma: scan_spec == Some(k) ==> ack_valid(buf.take(k), largest)    (needs varint prefix determinism, discharged by Kani on VarInt::decode)
//  (3) real AckIter::next under ack_valid: unwrap never fails, no subtraction underflows, ack_valid preserved, ranges strictly descending.

use vstd::prelude::*;
use std::ops::RangeInclusive;
verus! {
global size_of usize == 8;
pub mod shims {
use super::*;
#[derive(Debug)] pub struct UnexpectedEnd;
pub type CResult<T> = ::std::result::Result<T, UnexpectedEnd>;
/// uninterpreted varint parser: Some((value, bytes consumed)) or None; its axioms are discharged by Kani on the real VarInt::decode
pub uninterp spec fn vparse(s: Seq<u8>) -> Option<(u64, nat)>;
#[verifier::external_body]
pub broadcast proof fn axiom_vparse_bounds(s: Seq<u8>)
    ensures match #[trigger] vparse(s) { Some((v, k)) => v < 0x4000_0000_0000_0000 && 1 <= k <= 8 && k <= s.len(), None => true } {}
/// prefix determinism: parsing depends only on the bytes consumed
#[verifier::external_body]
pub proof fn axiom_vparse_prefix(s: Seq<u8>, t: Seq<u8>)
    requires vparse(s).is_some(), t.len() >= vparse(s).unwrap().1, t.take(vparse(s).unwrap().1 as int) == s.take(vparse(s).unwrap().1 as int)
    ensures vparse(t) == vparse(s) {}

pub trait Buf {
    spec fn bview(&self) -> Seq<u8>;
    fn remaining(&self) -> (r: usize) ensures r == self.bview().len();
    fn has_remaining(&self) -> (r: bool) ensures r == (self.bview().len() > 0);
    fn get_var(&mut self) -> (r: CResult<u64>)
        ensures match r {
            Ok(v) => vparse(old(self).bview()) == Some((v, (old(self).bview().len() - final(self).bview().len()) as nat))
                     && final(self).bview() == old(self).bview().skip(vparse(old(self).bview()).unwrap().1 as int),
            Err(_) => vparse(old(self).bview()).is_none() && final(self).bview().len() <= old(self).bview().len(),
        };
}
impl<'a> Buf for &'a [u8] {
    open spec fn bview(&self) -> Seq<u8> { (*self)@ }
    #[verifier::external_body] fn remaining(&self) -> (r: usize) { unimplemented!() }
    #[verifier::external_body] fn has_remaining(&self) -> (r: bool) { unimplemented!() }
    #[verifier::external_body] fn get_var(&mut self) -> (r: CResult<u64>) { unimplemented!() }
}
}
pub mod spec {
use super::*; use super::shims::*;
broadcast use axiom_vparse_bounds;
/// model of the scan loop: bytes consumed by `n` (gap, block) pairs starting with running minimum `cur`, or None if it would fail
pub open spec fn scan_pairs(data: Seq<u8>, cur: u64, n: nat) -> Option<nat>
    decreases n
{
    if n == 0 { Some(0) } else {
        match vparse(data) {
            None => None,
            Some((gap, k1)) => if gap + 2 > cur { None } else {
                let r1 = data.skip(k1 as int);
                match vparse(r1) {
                    None => None,
                    Some((block, k2)) => if block > cur - gap - 2 { None } else {
                        match scan_pairs(r1.skip(k2 as int), (cur - gap - 2 - block) as u64, (n - 1) as nat) {
                            None => None,
                            Some(c) => Some(k1 + k2 + c),
                        }
                    }
                }
            }
        }
    }
}
pub open spec fn ack_valid(d: Seq<u8>, largest: u64) -> bool
    decreases d.len(), 1int
{
    if d.len() == 0 { true } else {
        match vparse(d) {
            None => false,
            Some((block, k1)) => block <= largest && 1 <= k1 <= d.len() && gap_valid(d.skip(k1 as int), (largest - block) as u64),
        }
    }
}
pub open spec fn gap_valid(r: Seq<u8>, cur: u64) -> bool
    decreases r.len(), 0int
{
    match vparse(r) {
        None => r.len() == 0,
        Some((gap, k2)) => 1 <= k2 <= r.len() && gap + 2 <= cur && ack_valid(r.skip(k2 as int), (cur - gap - 2) as u64),
    }
}
pub proof fn lemma_vparse_take(s: Seq<u8>, c: int)
    requires vparse(s).is_some(), vparse(s).unwrap().1 <= c <= s.len()
    ensures vparse(s.take(c)) == vparse(s)
{
    let k = vparse(s).unwrap().1 as int;
    assert(s.take(c).take(k) =~= s.take(k));
    axiom_vparse_prefix(s, s.take(c));
}
pub proof fn lemma_pairs_valid(data: Seq<u8>, cur: u64, n: nat, c: nat)
    requires scan_pairs(data, cur, n) == Some(c)
    ensures c <= data.len(), gap_valid(data.take(c as int), cur)
    decreases n
{
    if n == 0 {
        assert(data.take(0) =~= Seq::<u8>::empty());
        assert(vparse(Seq::<u8>::empty()).is_none());
    } else {
        let (gap, k1) = vparse(data).unwrap();
        let r1 = data.skip(k1 as int);
        let (block, k2) = vparse(r1).unwrap();
        let cur2 = (cur - gap - 2 - block) as u64;
        let r2 = r1.skip(k2 as int);
        let c2 = scan_pairs(r2, cur2, (n - 1) as nat).unwrap();
        lemma_pairs_valid(r2, cur2, (n - 1) as nat, c2);
        assert(c == k1 + k2 + c2);
        let d = data.take(c as int);
        lemma_vparse_take(data, c as int);
        // after the gap
        assert(d.skip(k1 as int) =~= r1.take((k2 + c2) as int));
        lemma_vparse_take(r1, (k2 + c2) as int);
        assert(r1.take((k2 + c2) as int).skip(k2 as int) =~= r2.take(c2 as int));
        assert(ack_valid(r1.take((k2 + c2) as int), (cur - gap - 2) as u64));
    }
}
pub proof fn lemma_scan_valid(data: Seq<u8>, largest: u64, n: nat, k: nat)
    requires scan_spec(data, largest, n) == Some(k)
    ensures k <= data.len(), ack_valid(data.take(k as int), largest)
{
    let (first, k0) = vparse(data).unwrap();
    let r0 = data.skip(k0 as int);
    let c = scan_pairs(r0, (largest - first) as u64, n).unwrap();
    lemma_pairs_valid(r0, (largest - first) as u64, n, c);
    lemma_vparse_take(data, k as int);
    assert(data.take(k as int).skip(k0 as int) =~= r0.take(c as int));
}
pub open spec fn scan_spec(data: Seq<u8>, largest: u64, n: nat) -> Option<nat> {
    match vparse(data) {
        None => None,
        Some((first, k0)) => if first > largest { None } else {
            match scan_pairs(data.skip(k0 as int), (largest - first) as u64, n) { None => None, Some(c) => Some(k0 + c) }
        }
    }
}
}
pub mod code {
use super::*; use super::shims::*; use super::spec::*;
broadcast use axiom_vparse_bounds;
pub enum IterErr { UnexpectedEnd, InvalidFrameId, Malformed }
impl vstd::std_specs::convert::FromSpecImpl<UnexpectedEnd> for IterErr {
    open spec fn obeys_from_spec() -> bool { false }
    open spec fn from_spec(v: UnexpectedEnd) -> Self { IterErr::UnexpectedEnd }
}
impl From<UnexpectedEnd> for IterErr {
    fn from(_p0: UnexpectedEnd) -> Self {
        Self::UnexpectedEnd
    }
}

pub struct AckIter<'a> {
    pub largest: u64,
    pub data: &'a [u8],
}
impl<'a> AckIter<'a> {
    pub fn next(&mut self) -> (r: Option<RangeInclusive<u64>>)
        requires ack_valid(old(self).data@, old(self).largest),
        ensures
            ack_valid(final(self).data@, final(self).largest),
            match r {
                Some(rg) => old(self).data@.len() > 0 && final(self).data@.len() < old(self).data@.len()
                    && rg@.start <= rg@.end && rg@.end == old(self).largest
                    && (final(self).data@.len() > 0 ==> final(self).largest + 2 <= rg@.start),
                None => old(self).data@.len() == 0 && final(self).data@.len() == 0,
            },
    {
        if !self.data.has_remaining() {
            return None;
        }
        let block = self.data.get_var().unwrap();
        let largest = self.largest;
        if let Ok(gap) = self.data.get_var() {
            self.largest -= block + gap + 2;
        }
        Some(largest - block..=largest)
    }
}

fn scan_ack_blocks(mut buf: &[u8], largest: u64, n: usize) -> (res: Result<usize, IterErr>)
    ensures match res { Ok(k) => scan_spec(buf@, largest, n as nat) == Some(k as nat) && k <= buf@.len(), Err(_) => true }
{
    let ghost buf0 = buf@;
    let total_len = buf.remaining();
    let first_block = buf.get_var()?;
    let mut smallest = largest.checked_sub(first_block).ok_or(IterErr::Malformed)?;
    let ghost k0 = (buf0.len() - buf@.len()) as nat;
    let ghost rest0 = buf@;
    let ghost small0 = smallest;
    for i in 0..n
        invariant
            buf@.len() <= rest0.len(), rest0.len() <= total_len, total_len == buf0.len(),
            // what the whole loop computes == what has been consumed + what the rest of the loop computes
            scan_pairs(rest0, small0, n as nat) == (match scan_pairs(buf@, smallest, (n - i) as nat) { None => None::<nat>, Some(c) => Some((rest0.len() - buf@.len() + c) as nat) }),
    {
        let ghost b1 = buf@;
        let gap = buf.get_var()?;
        smallest = smallest.checked_sub(gap + 2).ok_or(IterErr::Malformed)?;
        let block = buf.get_var()?;
        smallest = smallest.checked_sub(block).ok_or(IterErr::Malformed)?;
    }
    Ok(total_len - buf.remaining())
}
}
}
fn main() {}
