// PROBE (design phase): ghost layer for ArrayRangeSet::insert — for the recursive model `spec_insert_at` of the algorithm:
// well-formedness is preserved, membership afterwards = membership before OR in x, and the boolean result <=> the set grew. 7 verified, 0 errors.
// (Split into one lemma per case: the single-lemma version exceeded the rlimit.) Together with verus_array_range_set_insert_shape.rs this is the
// complete two-layer proof of insert.

use vstd::prelude::*;
use std::ops::Range;
verus! {
pub type RS = Seq<Range<u64>>;
pub open spec fn wf(s: RS) -> bool {
    &&& forall|i: int| 0 <= i < s.len() ==> (#[trigger] s[i]).start < s[i].end
    &&& forall|i: int, j: int| 0 <= i < j < s.len() ==> (#[trigger] s[i]).end < (#[trigger] s[j]).start
}
pub open spec fn umax(a: u64, b: u64) -> u64 { if a >= b { a } else { b } }
pub open spec fn merge_from(s: RS, idx: int) -> RS
    decreases s.len()
{
    if 0 <= idx && idx + 1 < s.len() && s[idx].end >= s[idx + 1].start {
        merge_from(s.update(idx, Range { start: s[idx].start, end: umax(s[idx + 1].end, s[idx].end) }).remove(idx + 1), idx)
    } else { s }
}
pub open spec fn inr(r: Range<u64>, v: u64) -> bool { r.start <= v < r.end }
pub open spec fn contains(s: RS, v: u64) -> bool { exists|i: int| 0 <= i < s.len() && inr(#[trigger] s[i], v) }

/// well-formed everywhere except that s[idx] may overlap / touch its successors
pub open spec fn wf_except(s: RS, idx: int) -> bool {
    &&& 0 <= idx < s.len()
    &&& forall|i: int| 0 <= i < s.len() ==> (#[trigger] s[i]).start < s[i].end
    &&& forall|i: int, j: int| 0 <= i < j < s.len() && i != idx ==> (#[trigger] s[i]).end < (#[trigger] s[j]).start
    &&& forall|j: int| idx < j < s.len() ==> s[idx].start < (#[trigger] s[j]).start
}

pub proof fn lemma_merge_from(s: RS, idx: int)
    requires wf_except(s, idx)
    ensures wf(merge_from(s, idx)),
        forall|v: u64| contains(merge_from(s, idx), v) <==> contains(s, v),
        merge_from(s, idx).len() <= s.len(), merge_from(s, idx).len() > idx,
        forall|i: int| 0 <= i < idx ==> #[trigger] merge_from(s, idx)[i] == s[i],
    decreases s.len()
{
    if idx + 1 < s.len() && s[idx].end >= s[idx + 1].start {
        let m = Range { start: s[idx].start, end: umax(s[idx + 1].end, s[idx].end) };
        let s2 = s.update(idx, m).remove(idx + 1);
        // s2 indexing facts
        assert forall|i: int| 0 <= i < s2.len() implies #[trigger] s2[i] == (if i < idx { s[i] } else if i == idx { m } else { s[i + 1] }) by {}
        assert(wf_except(s2, idx)) by {
            assert forall|i: int, j: int| 0 <= i < j < s2.len() && i != idx implies (#[trigger] s2[i]).end < (#[trigger] s2[j]).start by {
                if i < idx {
                    if j == idx { assert(s[i].end < s[idx].start); } else if j < idx { assert(s[i].end < s[j].start); } else { assert(s[i].end < s[j + 1].start); }
                } else {
                    assert(s[i + 1].end < s[j + 1].start);
                }
            }
            assert forall|j: int| idx < j < s2.len() implies s2[idx].start < (#[trigger] s2[j]).start by { assert(s[idx].start < s[j + 1].start); }
            assert forall|i: int| 0 <= i < s2.len() implies (#[trigger] s2[i]).start < s2[i].end by {
                if i == idx { assert(s[idx].start < s[idx].end); } else if i < idx { assert(s[i].start < s[i].end); } else { assert(s[i + 1].start < s[i + 1].end); }
            }
        }
        lemma_merge_from(s2, idx);
        assert forall|i: int| 0 <= i < idx implies #[trigger] merge_from(s, idx)[i] == s[i] by {
            assert(merge_from(s2, idx)[i] == s2[i]);
            assert(s2[i] == s[i]);
        }
        assert forall|v: u64| contains(s2, v) <==> contains(s, v) by {
            if contains(s2, v) {
                let i = choose|i: int| 0 <= i < s2.len() && inr(#[trigger] s2[i], v);
                if i < idx { assert(inr(s[i], v)); }
                else if i == idx {
                    assert(s[idx].start < s[idx + 1].start);
                    if v < s[idx].end { assert(inr(s[idx], v)); } else { assert(inr(s[idx + 1], v)); }
                } else { assert(inr(s[i + 1], v)); }
            }
            if contains(s, v) {
                let i = choose|i: int| 0 <= i < s.len() && inr(#[trigger] s[i], v);
                if i < idx { assert(inr(s2[i], v)); }
                else if i == idx || i == idx + 1 { assert(s[idx].start < s[idx + 1].start); assert(inr(s2[idx], v)); }
                else { assert(inr(s2[i - 1], v)); }
            }
        }
    } else {
        // already well formed
        assert forall|i: int, j: int| 0 <= i < j < s.len() implies (#[trigger] s[i]).end < (#[trigger] s[j]).start by {
            if i == idx {
                assert(s[idx].end < s[idx + 1].start);
                if j > idx + 1 { assert(s[idx + 1].end < s[j].start); assert(s[idx + 1].start < s[idx + 1].end); }
            }
        }
    }
}

pub open spec fn is_pp(s: RS, p: u64, idx: int) -> bool {
    &&& 0 <= idx <= s.len()
    &&& forall|i: int| 0 <= i < idx ==> (#[trigger] s[i]).end < p
    &&& forall|i: int| idx <= i < s.len() ==> (#[trigger] s[i]).end >= p
}
pub open spec fn spec_insert_at(s: RS, x: Range<u64>, idx: int) -> (RS, bool) {
    if !(x.start < x.end) { (s, false) }
    else if idx == s.len() { (s.push(x), true) }
    else if x.end < s[idx].start { (s.insert(idx, x), true) }
    else {
        let st = if s[idx].start > x.start { x.start } else { s[idx].start };
        let res = s[idx].start > x.start;
        if x.end <= s[idx].end { (s.update(idx, Range { start: st, end: s[idx].end }), res) }
        else { (merge_from(s.update(idx, Range { start: st, end: x.end }), idx), true) }
    }
}
pub proof fn lemma_case_push(s: RS, x: Range<u64>, idx: int)
    requires wf(s), is_pp(s, x.start, idx), x.start < x.end, idx == s.len()
    ensures
        wf(spec_insert_at(s, x, idx).0),
        forall|v: u64| contains(spec_insert_at(s, x, idx).0, v) <==> (contains(s, v) || inr(x, v)),
        spec_insert_at(s, x, idx).1 <==> exists|v: u64| inr(x, v) && !contains(s, v),
{
    let r = spec_insert_at(s, x, idx).0;
        assert forall|i: int, j: int| 0 <= i < j < r.len() implies (#[trigger] r[i]).end < (#[trigger] r[j]).start by {
            if j == s.len() { assert(s[i].end < x.start); } else { assert(s[i].end < s[j].start); }
        }
        assert forall|i: int| 0 <= i < r.len() implies (#[trigger] r[i]).start < r[i].end by { if i < s.len() { assert(s[i].start < s[i].end); } }
        assert forall|v: u64| contains(r, v) <==> (contains(s, v) || inr(x, v)) by {
            if contains(r, v) { let i = choose|i: int| 0 <= i < r.len() && inr(#[trigger] r[i], v); if i < s.len() { assert(inr(s[i], v)); } }
            if contains(s, v) { let i = choose|i: int| 0 <= i < s.len() && inr(#[trigger] s[i], v); assert(inr(r[i], v)); }
            if inr(x, v) { assert(inr(r[s.len() as int], v)); }
        }
        assert(inr(x, x.start));
        assert(!contains(s, x.start)) by {
            if contains(s, x.start) { let i = choose|i: int| 0 <= i < s.len() && inr(#[trigger] s[i], x.start); assert(s[i].end < x.start); }
        }
}
pub proof fn lemma_case_insert(s: RS, x: Range<u64>, idx: int)
    requires wf(s), is_pp(s, x.start, idx), x.start < x.end, idx < s.len(), x.end < s[idx].start
    ensures
        wf(spec_insert_at(s, x, idx).0),
        forall|v: u64| contains(spec_insert_at(s, x, idx).0, v) <==> (contains(s, v) || inr(x, v)),
        spec_insert_at(s, x, idx).1 <==> exists|v: u64| inr(x, v) && !contains(s, v),
{
    let r = spec_insert_at(s, x, idx).0;
        assert forall|i: int| 0 <= i < r.len() implies #[trigger] r[i] == (if i < idx { s[i] } else if i == idx { x } else { s[i - 1] }) by {}
        assert forall|i: int, j: int| 0 <= i < j < r.len() implies (#[trigger] r[i]).end < (#[trigger] r[j]).start by {
            if j < idx { assert(s[i].end < s[j].start); }
            else if j == idx { assert(s[i].end < x.start); }
            else if i < idx { assert(s[i].end < s[j - 1].start); assert(i < j - 1); }
            else if i == idx { if j - 1 > idx { assert(s[idx].end < s[j - 1].start); assert(s[idx].start < s[idx].end); } }
            else { assert(s[i - 1].end < s[j - 1].start); }
        }
        assert forall|i: int| 0 <= i < r.len() implies (#[trigger] r[i]).start < r[i].end by {
            if i < idx { assert(s[i].start < s[i].end); } else if i > idx { assert(s[i - 1].start < s[i - 1].end); }
        }
        assert forall|v: u64| contains(r, v) <==> (contains(s, v) || inr(x, v)) by {
            if contains(r, v) { let i = choose|i: int| 0 <= i < r.len() && inr(#[trigger] r[i], v); if i < idx { assert(inr(s[i], v)); } else if i > idx { assert(inr(s[i - 1], v)); } }
            if contains(s, v) { let i = choose|i: int| 0 <= i < s.len() && inr(#[trigger] s[i], v); if i < idx { assert(inr(r[i], v)); } else { assert(inr(r[i + 1], v)); } }
            if inr(x, v) { assert(inr(r[idx], v)); }
        }
        assert(inr(x, x.start));
        assert(!contains(s, x.start)) by {
            if contains(s, x.start) {
                let i = choose|i: int| 0 <= i < s.len() && inr(#[trigger] s[i], x.start);
                if i < idx { assert(s[i].end < x.start); } else if i > idx { assert(s[idx].end < s[i].start); assert(s[idx].start < s[idx].end); }
            }
        }
}
pub proof fn lemma_case_contained(s: RS, x: Range<u64>, idx: int)
    requires wf(s), is_pp(s, x.start, idx), x.start < x.end, idx < s.len(), !(x.end < s[idx].start), x.end <= s[idx].end
    ensures
        wf(spec_insert_at(s, x, idx).0),
        forall|v: u64| contains(spec_insert_at(s, x, idx).0, v) <==> (contains(s, v) || inr(x, v)),
        spec_insert_at(s, x, idx).1 <==> exists|v: u64| inr(x, v) && !contains(s, v),
{
    let r = spec_insert_at(s, x, idx).0;
    let st = if s[idx].start > x.start { x.start } else { s[idx].start };
    assert(s[idx].end >= x.start);
    assert(s[idx].start < s[idx].end);
            let m = Range { start: st, end: s[idx].end };
            assert forall|i: int, j: int| 0 <= i < j < r.len() implies (#[trigger] r[i]).end < (#[trigger] r[j]).start by {
                if j == idx { assert(s[i].end < x.start); assert(s[i].end < s[idx].start); }
                else if i == idx { assert(s[idx].end < s[j].start); }
                else { assert(s[i].end < s[j].start); }
            }
            assert forall|i: int| 0 <= i < r.len() implies (#[trigger] r[i]).start < r[i].end by { if i != idx { assert(s[i].start < s[i].end); } }
            assert forall|v: u64| contains(r, v) <==> (contains(s, v) || inr(x, v)) by {
                if contains(r, v) { let i = choose|i: int| 0 <= i < r.len() && inr(#[trigger] r[i], v); if i != idx { assert(inr(s[i], v)); } else { if !inr(x, v) { assert(inr(s[idx], v)); } } }
                if contains(s, v) { let i = choose|i: int| 0 <= i < s.len() && inr(#[trigger] s[i], v); assert(inr(r[i], v)); }
                if inr(x, v) { assert(inr(r[idx], v)); }
            }
            if s[idx].start > x.start {
                assert(inr(x, x.start));
                assert(!contains(s, x.start)) by {
                    if contains(s, x.start) {
                        let i = choose|i: int| 0 <= i < s.len() && inr(#[trigger] s[i], x.start);
                        if i < idx { assert(s[i].end < x.start); } else if i > idx { assert(s[idx].end < s[i].start); }
                    }
                }
            } else {
                assert forall|v: u64| inr(x, v) implies contains(s, v) by { assert(inr(s[idx], v)); }
            }
}
pub proof fn lemma_case_merge(s: RS, x: Range<u64>, idx: int)
    requires wf(s), is_pp(s, x.start, idx), x.start < x.end, idx < s.len(), !(x.end < s[idx].start), !(x.end <= s[idx].end)
    ensures
        wf(spec_insert_at(s, x, idx).0),
        forall|v: u64| contains(spec_insert_at(s, x, idx).0, v) <==> (contains(s, v) || inr(x, v)),
        spec_insert_at(s, x, idx).1 <==> exists|v: u64| inr(x, v) && !contains(s, v),
{
    let r = spec_insert_at(s, x, idx).0;
    let st = if s[idx].start > x.start { x.start } else { s[idx].start };
    assert(s[idx].end >= x.start);
    assert(s[idx].start < s[idx].end);
            let m = Range { start: st, end: x.end };
            let s1 = s.update(idx, m);
            assert(wf_except(s1, idx)) by {
                assert forall|i: int, j: int| 0 <= i < j < s1.len() && i != idx implies (#[trigger] s1[i]).end < (#[trigger] s1[j]).start by {
                    if j == idx { assert(s[i].end < x.start); assert(s[i].end < s[idx].start); } else { assert(s[i].end < s[j].start); }
                }
                assert forall|j: int| idx < j < s1.len() implies s1[idx].start < (#[trigger] s1[j]).start by { assert(s[idx].end < s[j].start); }
                assert forall|i: int| 0 <= i < s1.len() implies (#[trigger] s1[i]).start < s1[i].end by { if i != idx { assert(s[i].start < s[i].end); } }
            }
            lemma_merge_from(s1, idx);
            assert forall|v: u64| contains(s1, v) <==> (contains(s, v) || inr(x, v)) by {
                if contains(s1, v) { let i = choose|i: int| 0 <= i < s1.len() && inr(#[trigger] s1[i], v); if i != idx { assert(inr(s[i], v)); } else { if !inr(x, v) { assert(inr(s[idx], v)); } } }
                if contains(s, v) { let i = choose|i: int| 0 <= i < s.len() && inr(#[trigger] s[i], v); assert(inr(s1[i], v)); }
                if inr(x, v) { assert(inr(s1[idx], v)); }
            }
            // the set grew: the first element after s[idx] lies in x and was not covered
            let w = s[idx].end;
            assert(inr(x, w));
            assert(!contains(s, w)) by {
                if contains(s, w) {
                    let i = choose|i: int| 0 <= i < s.len() && inr(#[trigger] s[i], w);
                    if i < idx { assert(s[i].end < x.start); } else if i > idx { assert(s[idx].end < s[i].start); }
                }
            }
}
pub proof fn lemma_spec_insert(s: RS, x: Range<u64>, idx: int)
    requires wf(s), is_pp(s, x.start, idx), x.start < x.end
    ensures
        wf(spec_insert_at(s, x, idx).0),
        forall|v: u64| contains(spec_insert_at(s, x, idx).0, v) <==> (contains(s, v) || inr(x, v)),
        spec_insert_at(s, x, idx).1 <==> exists|v: u64| inr(x, v) && !contains(s, v),
{
    if idx == s.len() { lemma_case_push(s, x, idx); } else if x.end < s[idx].start { lemma_case_insert(s, x, idx); } else if x.end <= s[idx].end { lemma_case_contained(s, x, idx); } else { lemma_case_merge(s, x, idx); }
}
}
fn main() {}
