// PROBE (design phase): shape layer of ArrayRangeSet::insert — the verbatim body is proved EQUAL to the recursive spec function `spec_insert`
// (5 verified, 0 errors). Splices: closure ensures (R4), 4 proof blocks, 2 ghost lets, loop invariant + loop `ensures` (needed because of `break`).
// Needs `Range<Idx>::clone` spec. The set-level lemma about `spec_insert` is a separate, pure-ghost proof.

use vstd::prelude::*;
use std::ops::Range; use vstd::std_specs::cmp::PartialOrdSpec;
verus! {
pub mod shims {
use super::*;

pub trait Array { type Item; }
impl<T, const N: usize> Array for [T; N] { type Item = T; }

#[verifier::external_body]
#[verifier::accept_recursive_types(A)]
pub struct TinyVec<A: Array> { inner: Vec<A::Item> }

impl<A: Array> View for TinyVec<A> {
    type V = Seq<A::Item>;
    uninterp spec fn view(&self) -> Seq<A::Item>;
}

impl<A: Array> TinyVec<A> {
    #[verifier::external_body]
    pub fn len(&self) -> (r: usize) ensures r == self@.len() { self.inner.len() }
    #[verifier::external_body]
    pub fn push(&mut self, x: A::Item) ensures final(self)@ == old(self)@.push(x) { self.inner.push(x) }
    #[verifier::external_body]
    pub fn insert(&mut self, i: usize, x: A::Item) requires i <= old(self)@.len() ensures final(self)@ == old(self)@.insert(i as int, x) { self.inner.insert(i, x) }
    #[verifier::external_body]
    pub fn remove(&mut self, i: usize) -> (r: A::Item) requires i < old(self)@.len() ensures final(self)@ == old(self)@.remove(i as int), r == old(self)@[i as int] { self.inner.remove(i) }
    #[verifier::external_body]
    pub fn partition_point<P: Fn(&A::Item) -> bool>(&self, pred: P) -> (r: usize)
        requires forall|i: int| 0 <= i < self@.len() ==> call_requires(pred, (&self@[i],)),
        ensures r <= self@.len(),
          (forall|i: int, j: int| 0 <= i < j < self@.len() ==> !(call_ensures(pred, (&self@[i],), false) && call_ensures(pred, (&self@[j],), true)))
            ==> (forall|i: int| 0 <= i < r ==> call_ensures(pred, (&#[trigger] self@[i],), true))
             && (forall|i: int| r <= i < self@.len() ==> call_ensures(pred, (&#[trigger] self@[i],), false)),
    { self.inner.partition_point(pred) }
}

impl<A: Array> core::ops::Index<usize> for TinyVec<A> {
    type Output = A::Item;
    #[verifier::external_body]
    fn index(&self, i: usize) -> (r: &A::Item) ensures *r == self@[i as int] { &self.inner[i] }
}
impl<A: Array> vstd::std_specs::core::IndexSpecImpl<usize> for TinyVec<A> {
    open spec fn index_req(&self, i: &usize) -> bool { *i < self@.len() }
}
impl<A: Array> core::ops::IndexMut<usize> for TinyVec<A> {
    #[verifier::external_body]
    fn index_mut(&mut self, i: usize) -> (r: &mut A::Item) ensures *r == old(self)@[i as int], final(self)@ == old(self)@.update(i as int, *final(r)) { &mut self.inner[i] }
}

pub assume_specification<Idx: Clone> [<std::ops::Range<Idx> as Clone>::clone] (r: &std::ops::Range<Idx>) -> (c: std::ops::Range<Idx>)
    ensures c == *r;
pub uninterp spec fn range_is_empty_spec<Idx>(r: std::ops::Range<Idx>) -> bool;
#[verifier::external_body]
pub broadcast proof fn axiom_range_is_empty_u64(r: std::ops::Range<u64>)
    ensures #[trigger] range_is_empty_spec(r) == !(r.start < r.end) {}
pub assume_specification<Idx> [std::ops::Range::<Idx>::is_empty] (r: &std::ops::Range<Idx>) -> (b: bool) where Idx: std::cmp::PartialOrd + std::cmp::PartialOrd,
    ensures b == range_is_empty_spec(*r);


} // mod shims
pub mod code {
use super::*; use super::shims::*;
broadcast use axiom_range_is_empty_u64;
pub struct ArrayRangeSet(pub TinyVec<[Range<u64>; 2]>);
pub type RS = Seq<Range<u64>>;
pub open spec fn wf(s: RS) -> bool {
    &&& forall|i: int| 0 <= i < s.len() ==> (#[trigger] s[i]).start < s[i].end
    &&& forall|i: int, j: int| 0 <= i < j < s.len() ==> (#[trigger] s[i]).end < (#[trigger] s[j]).start
}
pub open spec fn umax(a: u64, b: u64) -> u64 { if a >= b { a } else { b } }
pub open spec fn merge_from(s: RS, idx: int) -> RS
    decreases s.len()
{
    if 0 <= idx && idx + 1 < s.len() && s[idx].end >= s[idx + 1].start {
        merge_from(s.update(idx, Range { start: s[idx].start, end: umax(s[idx + 1].end, s[idx].end) }).remove(idx + 1), idx)
    } else { s }
}
/// number of leading ranges that end strictly before `p`
pub open spec fn pp(s: RS, p: u64) -> int decreases s.len() {
    if s.len() == 0 { 0 } else if s[0].end < p { 1 + pp(s.skip(1), p) } else { 0 }
}
pub open spec fn is_pp(s: RS, p: u64, idx: int) -> bool {
    &&& 0 <= idx <= s.len()
    &&& forall|i: int| 0 <= i < idx ==> (#[trigger] s[i]).end < p
    &&& forall|i: int| idx <= i < s.len() ==> (#[trigger] s[i]).end >= p
}
pub proof fn lemma_pp_unique(s: RS, p: u64, idx: int)
    requires is_pp(s, p, idx)
    ensures pp(s, p) == idx
    decreases s.len()
{
    if s.len() == 0 { } else if idx == 0 { assert(s[0].end >= p); } else {
        assert(s[0].end < p);
        assert forall|i: int| 0 <= i < idx - 1 implies (#[trigger] s.skip(1)[i]).end < p by { assert(s.skip(1)[i] == s[i + 1]); }
        assert forall|i: int| idx - 1 <= i < s.skip(1).len() implies (#[trigger] s.skip(1)[i]).end >= p by { assert(s.skip(1)[i] == s[i + 1]); }
        lemma_pp_unique(s.skip(1), p, idx - 1);
    }
}
pub open spec fn spec_insert(s: RS, x: Range<u64>) -> (RS, bool) {
    let idx = pp(s, x.start);
    if !(x.start < x.end) { (s, false) }
    else if idx == s.len() { (s.push(x), true) }
    else if x.end < s[idx].start { (s.insert(idx, x), true) }
    else {
        let st = if s[idx].start > x.start { x.start } else { s[idx].start };
        let res = s[idx].start > x.start;
        if x.end <= s[idx].end { (s.update(idx, Range { start: st, end: s[idx].end }), res) }
        else { (merge_from(s.update(idx, Range { start: st, end: x.end }), idx), true) }
    }
}
impl ArrayRangeSet {
    pub(crate) fn insert(&mut self, x: Range<u64>) -> (res: bool)
        requires wf(old(self).0@),
        ensures final(self).0@ == spec_insert(old(self).0@, x).0, res == spec_insert(old(self).0@, x).1,
    {
        let mut result = false;

        if x.is_empty() {
            // Don't try to deal with ranges where x.end <= x.start
            return false;
        }

        let idx = self.0.partition_point(|r: &Range<u64>| -> (b: bool) ensures b == (r.end < x.start) { r.end < x.start });
        proof {
            assert(is_pp(old(self).0@, x.start, idx as int));
            lemma_pp_unique(old(self).0@, x.start, idx as int);
        }

        if idx == self.0.len() {
            self.0.push(x);
            return true;
        }

        let range = &mut self.0[idx];

        if x.end < range.start {
            self.0.insert(idx, x);
            return true;
        } else if range.start > x.start {
            result = true;
            range.start = x.start;
        }

        if x.end <= range.end {
            // Fully contained
            proof { assert(self.0@ =~= spec_insert(old(self).0@, x).0); }
            return result;
        }

        range.end = x.end;
        let ghost s_entry = self.0@;
        proof { assert(s_entry =~= old(self).0@.update(idx as int, Range { start: if old(self).0@[idx as int].start > x.start { x.start } else { old(self).0@[idx as int].start }, end: x.end })); }

        // Merge all follow-up ranges which overlap
        while idx != self.0.len() - 1
            invariant
                idx < self.0@.len(),
                merge_from(self.0@, idx as int) == merge_from(s_entry, idx as int),
            ensures
                self.0@ == merge_from(s_entry, idx as int),
            decreases self.0@.len()
        {
            let curr = self.0[idx].clone();
            let next = self.0[idx + 1].clone();
            let ghost s_before = self.0@;
            assert(curr == s_before[idx as int]);
            assert(next == s_before[idx + 1]);
            if curr.end >= next.start {
                self.0[idx].end = next.end.max(curr.end);
                self.0.remove(idx + 1);
                proof {
                    assert(self.0@ =~= s_before.update(idx as int, Range { start: s_before[idx as int].start, end: umax(s_before[idx + 1].end, s_before[idx as int].end) }).remove(idx + 1));
                }
            } else {
                break;
            }
        }

        true
    }
}

} } // verus!
fn main() {}
