// PROBE (design phase, not framework code). Hand-assembled single-file Verus input used to test feasibility:
// the `mod code`/`mod frame`/`mod coding` parts are verbatim copies of /repo function bodies plus spliced contracts;
// `mod shims` are trusted dependency specs. Run: verus <file> --triggers-mode silent

#![feature(allocator_api)]
use vstd::prelude::*;
use std::collections::VecDeque;
verus! {
global size_of usize == 8;
pub mod shims {
use super::*;
#[verifier::external_body]
pub struct Bytes { inner: Vec<u8> }
impl View for Bytes { type V = Seq<u8>; uninterp spec fn view(&self) -> Seq<u8>; }
impl Bytes {
    #[verifier::external_body]
    pub fn len(&self) -> (r: usize) ensures r == self@.len() { unimplemented!() }
}
pub struct Datagram { pub data: Bytes }
pub enum Code { PROTOCOL_VIOLATION }
pub struct TransportError { pub code: Code }
impl TransportError {
    #[allow(non_snake_case)]
    pub fn PROTOCOL_VIOLATION(_reason: &'static str) -> (r: Self) ensures r.code == Code::PROTOCOL_VIOLATION { TransportError { code: Code::PROTOCOL_VIOLATION } }
}
}
pub mod spec {
use super::*; use super::shims::*;
pub open spec fn total(s: Seq<Datagram>) -> nat decreases s.len() {
    if s.len() == 0 { 0 } else { s[0].data@.len() + total(s.skip(1)) }
}
pub broadcast proof fn lemma_total_push(s: Seq<Datagram>, d: Datagram)
    ensures #[trigger] total(s.push(d)) == total(s) + d.data@.len()
    decreases s.len()
{
    if s.len() == 0 {
        assert(s.push(d).skip(1) =~= Seq::<Datagram>::empty());
        assert(total(Seq::<Datagram>::empty()) == 0);
        assert(s.push(d)[0] == d);
        assert(total(s) == 0);
    } else {
        assert(s.push(d).skip(1) =~= s.skip(1).push(d));
        lemma_total_push(s.skip(1), d);
        assert(s.push(d)[0] == s[0]);
    }
}
pub broadcast proof fn lemma_total_skip1(s: Seq<Datagram>)
    requires s.len() > 0
    ensures #[trigger] total(s.skip(1)) == total(s) - s[0].data@.len()
{}
pub broadcast group group_total { lemma_total_push, lemma_total_skip1 }
}
pub mod code {
use super::*; use super::shims::*; use super::spec::*;
broadcast use group_total;

pub struct DatagramState {
    pub recv_buffered: usize,
    pub incoming: VecDeque<Datagram>,
    pub outgoing: VecDeque<Datagram>,
    pub outgoing_total: usize,
    pub send_blocked: bool,
}

impl DatagramState {
    pub open spec fn wf(&self) -> bool {
        &&& self.recv_buffered == total(self.incoming@)
        &&& self.outgoing_total == total(self.outgoing@)
    }

    pub(super) fn received(
        &mut self,
        datagram: Datagram,
        window: &Option<usize>,
    ) -> (res: Result<bool, TransportError>)
        requires old(self).wf(), old(self).recv_buffered + datagram.data@.len() <= usize::MAX,
        ensures
            final(self).wf(),
            final(self).outgoing@ == old(self).outgoing@,
            match res {
                Ok(was_empty) => {
                    &&& window.is_some() && datagram.data@.len() <= window.unwrap()
                    &&& final(self).recv_buffered <= window.unwrap()
                    &&& was_empty == (old(self).recv_buffered == 0)
                    // oldest dropped first, nothing else touched, new one at the back
                    &&& final(self).incoming@.len() <= old(self).incoming@.len() + 1
                    &&& ({ let k = old(self).incoming@.len() + 1 - final(self).incoming@.len();
                            final(self).incoming@ =~= old(self).incoming@.skip(k).push(datagram)
                            // minimal: dropping one fewer would not have fit
                            && (k > 0 ==> total(old(self).incoming@.skip(k - 1)) + datagram.data@.len() > window.unwrap()) })
                },
                Err(e) => {
                    &&& e.code == Code::PROTOCOL_VIOLATION
                    &&& (window.is_none() || datagram.data@.len() > window.unwrap())
                    &&& final(self).incoming@ == old(self).incoming@
                },
            },
    {
        let window = match window {
            None => {
                return Err(TransportError::PROTOCOL_VIOLATION(
                    "unexpected DATAGRAM frame",
                ));
            }
            Some(x) => *x,
        };

        if datagram.data.len() > window {
            return Err(TransportError::PROTOCOL_VIOLATION("oversized datagram"));
        }

        let was_empty = self.recv_buffered == 0;
        while datagram.data.len() + self.recv_buffered > window
            invariant
                self.wf(),
                self.outgoing@ == old(self).outgoing@,
                datagram.data@.len() <= window, self.recv_buffered <= old(self).recv_buffered, old(self).recv_buffered + datagram.data@.len() <= usize::MAX,
                self.incoming@.len() <= old(self).incoming@.len(),
                self.incoming@ =~= old(self).incoming@.skip(old(self).incoming@.len() - self.incoming@.len()),
                old(self).incoming@.len() - self.incoming@.len() > 0 ==> total(old(self).incoming@.skip(old(self).incoming@.len() - self.incoming@.len() - 1)) + datagram.data@.len() > window,
            decreases self.incoming@.len()
        {
            self.recv();
        }

        self.recv_buffered += datagram.data.len();
        self.incoming.push_back(datagram);
        Ok(was_empty)
    }

    pub(super) fn recv(&mut self) -> (r: Option<Bytes>)
        requires old(self).wf(),
        ensures
            final(self).wf(),
            final(self).outgoing@ == old(self).outgoing@,
            final(self).outgoing_total == old(self).outgoing_total,
            match r {
                Some(x) => old(self).incoming@.len() > 0 && x@ == old(self).incoming@[0].data@ && final(self).incoming@ == old(self).incoming@.skip(1),
                None => old(self).incoming@.len() == 0 && final(self).incoming@ == old(self).incoming@,
            },
    {
        let x = self.incoming.pop_front()?.data;
        self.recv_buffered -= x.len();
        Some(x)
    }
}
}
}
fn main() {}
