// PROBE (design phase, not framework code): generic `W: BufMut` encoders against a spec encoding; 12 verified.
// Note the workaround: method-level generic of the trait decl renamed to match the blanket impl (Verus bug otherwise).

use vstd::prelude::*;
verus! {
global size_of usize == 8;
pub mod shims {
use super::*;
pub uninterp spec fn spec_varint(x: u64) -> Seq<u8>;
#[verifier::external_body]
pub broadcast proof fn axiom_varint_len(x: u64)
    requires x < 0x4000_0000_0000_0000
    ensures 1 <= (#[trigger] spec_varint(x)).len() <= 8 {}

pub trait BufMut {
    spec fn wview(&self) -> Seq<u8>;
    fn put_u8(&mut self, n: u8) ensures final(self).wview() == old(self).wview().push(n);
    fn put_slice(&mut self, src: &[u8]) ensures final(self).wview() == old(self).wview() + src@;
    /// contract boundary: proved on the real VarInt::encode by Kani
    fn put_varint(&mut self, x: u64) requires x < 0x4000_0000_0000_0000 ensures final(self).wview() == old(self).wview() + spec_varint(x);
}
impl BufMut for Vec<u8> {
    open spec fn wview(&self) -> Seq<u8> { self@ }
    #[verifier::external_body] fn put_u8(&mut self, n: u8) { self.push(n) }
    #[verifier::external_body] fn put_slice(&mut self, src: &[u8]) { self.extend_from_slice(src) }
    #[verifier::external_body] fn put_varint(&mut self, x: u64) { unimplemented!() }
}
}
pub mod coding {
use super::*; use super::shims::*;
pub trait Codec: Sized {
    spec fn enc(&self) -> Seq<u8>;
    spec fn wf(&self) -> bool;
    fn encode<B: BufMut>(&self, buf: &mut B) requires self.wf() ensures final(buf).wview() == old(buf).wview() + self.enc();
}
#[derive(Copy, Clone)]
pub struct VarInt(pub u64);
impl Codec for VarInt {
    open spec fn enc(&self) -> Seq<u8> { spec_varint(self.0) }
    open spec fn wf(&self) -> bool { self.0 < 0x4000_0000_0000_0000 }
    // body is the contract boundary (real body verified by Kani): here we delegate to the shim
    fn encode<B: BufMut>(&self, w: &mut B) { w.put_varint(self.0) }
}
pub(crate) trait BufMutExt {
    spec fn xv(&self) -> Seq<u8>;
    fn write<U: Codec>(&mut self, x: U) requires x.wf() ensures final(self).xv() == old(self).xv() + x.enc();
    fn write_var(&mut self, x: u64) requires x < 0x4000_0000_0000_0000 ensures final(self).xv() == old(self).xv() + spec_varint(x);
}
impl<T: BufMut> BufMutExt for T {
    open spec fn xv(&self) -> Seq<u8> { self.wview() }
    fn write<U: Codec>(&mut self, x: U) {
        x.encode(self);
    }
    fn write_var(&mut self, x: u64) {
        VarInt::from_u64(x).unwrap().encode(self);
    }
}
#[derive(Debug)]
pub struct VarIntBoundsExceeded;
impl VarInt {
    pub fn from_u64(x: u64) -> (r: Result<Self, VarIntBoundsExceeded>)
        ensures x < 0x4000_0000_0000_0000 ==> r.is_ok() && r.unwrap().0 == x
    {
        if x < 0x4000_0000_0000_0000 { Ok(Self(x)) } else { Err(VarIntBoundsExceeded) }
    }
}
}
pub mod frame {
use super::*; use super::shims::*; use super::coding::*;
#[derive(Copy, Clone)]
pub struct FrameType(pub u64);
impl FrameType { pub(crate) const RESET_STREAM: FrameType = FrameType(0x04); pub(crate) const NEW_TOKEN: FrameType = FrameType(0x07); }
impl Codec for FrameType {
    open spec fn enc(&self) -> Seq<u8> { spec_varint(self.0) }
    open spec fn wf(&self) -> bool { self.0 < 0x4000_0000_0000_0000 }
    fn encode<B: BufMut>(&self, buf: &mut B) {
        buf.write_var(self.0);
    }
}
#[derive(Copy, Clone)]
pub struct StreamId(pub u64);
impl Codec for StreamId {
    open spec fn enc(&self) -> Seq<u8> { spec_varint(self.0) }
    open spec fn wf(&self) -> bool { self.0 < 0x4000_0000_0000_0000 }
    fn encode<B: BufMut>(&self, buf: &mut B) {
        VarInt::from_u64(self.0).unwrap().encode(buf);
    }
}
pub struct ResetStream {
    pub id: StreamId,
    pub error_code: VarInt,
    pub final_offset: VarInt,
}
impl ResetStream {
    pub open spec fn enc(&self) -> Seq<u8> { spec_varint(0x04) + self.id.enc() + self.error_code.enc() + self.final_offset.enc() }
    pub(crate) fn encode<W: BufMut>(&self, out: &mut W)
        requires self.id.wf(), self.error_code.wf(), self.final_offset.wf()
        ensures final(out).wview() =~= old(out).wview() + self.enc()
    {
        out.write(FrameType::RESET_STREAM); // 1 byte
        out.write(self.id); // <= 8 bytes
        out.write(self.error_code); // <= 8 bytes
        out.write(self.final_offset); // <= 8 bytes
    }
}
}
}
fn main() {}
