// PROBE (design phase, not framework code). Hand-assembled single-file Verus input used to test feasibility:
// the `mod code`/`mod frame`/`mod coding` parts are verbatim copies of /repo function bodies plus spliced contracts;
// `mod shims` are trusted dependency specs. Run: verus <file> --triggers-mode silent

use vstd::prelude::*;
verus! {
pub mod shims {
use super::*;
pub trait Buf {
    spec fn bview(&self) -> Seq<u8>;
    fn remaining(&self) -> (r: usize) ensures r == self.bview().len();
    fn has_remaining(&self) -> (r: bool) ensures r == (self.bview().len() > 0);
    fn get_u8(&mut self) -> (r: u8) requires old(self).bview().len() >= 1 ensures final(self).bview() == old(self).bview().skip(1), r == old(self).bview()[0];
    fn get_u16(&mut self) -> (r: u16) requires old(self).bview().len() >= 2 ensures final(self).bview() == old(self).bview().skip(2);
}
#[verifier::external_body]
pub struct Bytes { inner: Vec<u8> }
impl View for Bytes { type V = Seq<u8>; uninterp spec fn view(&self) -> Seq<u8>; }
impl Buf for Bytes {
    open spec fn bview(&self) -> Seq<u8> { self@ }
    #[verifier::external_body] fn remaining(&self) -> (r: usize) { unimplemented!() }
    #[verifier::external_body] fn has_remaining(&self) -> (r: bool) { unimplemented!() }
    #[verifier::external_body] fn get_u8(&mut self) -> (r: u8) { unimplemented!() }
    #[verifier::external_body] fn get_u16(&mut self) -> (r: u16) { unimplemented!() }
}
impl Bytes {
    #[verifier::external_body]
    pub fn split_to(&mut self, at: usize) -> (r: Bytes) requires at <= old(self)@.len() ensures r@ == old(self)@.take(at as int), final(self)@ == old(self)@.skip(at as int) { unimplemented!() }
}
}
pub mod coding {
use super::*; use super::shims::*;
pub struct UnexpectedEnd;
pub type Result<T> = ::std::result::Result<T, UnexpectedEnd>;
pub trait Codec: Sized {
    fn decode<B: Buf>(buf: &mut B) -> Result<Self>;
}
impl Codec for u8 {
    fn decode<B: Buf>(buf: &mut B) -> Result<Self> {
        if buf.remaining() < 1 {
            return Err(UnexpectedEnd);
        }
        Ok(buf.get_u8())
    }
}
impl Codec for u16 {
    fn decode<B: Buf>(buf: &mut B) -> Result<Self> {
        if buf.remaining() < 2 {
            return Err(UnexpectedEnd);
        }
        Ok(buf.get_u16())
    }
}
pub(crate) trait BufExt {
    fn get<T: Codec>(&mut self) -> Result<T>;
}
impl<T: Buf> BufExt for T {
    fn get<U: Codec>(&mut self) -> Result<U> {
        U::decode(self)
    }
}
}
pub mod frame {
use super::*; use super::shims::*; use super::coding::*;
#[derive(Copy, Clone, Eq, PartialEq)]
pub struct FrameType(pub u64);
impl FrameType {
    pub(crate) const PADDING: FrameType = FrameType(0);
    pub(crate) const PING: FrameType = FrameType(1);
}
impl Codec for FrameType {
    fn decode<B: Buf>(buf: &mut B) -> super::coding::Result<Self> {
        Ok(Self(buf.get::<u8>()? as u64))
    }
}
pub enum Frame { Padding, Ping, Two{ a: u8, b: u16 } }
pub(crate) struct Iter {
    bytes: Bytes,
    last_ty: Option<FrameType>,
}
impl Iter {
    fn take_len(&mut self) -> core::result::Result<Bytes, UnexpectedEnd> {
        let len = self.bytes.get::<u8>()? as u64;
        if len > self.bytes.remaining() as u64 {
            return Err(UnexpectedEnd);
        }
        Ok(self.bytes.split_to(len as usize))
    }
    fn try_next(&mut self) -> core::result::Result<Frame, UnexpectedEnd> {
        let ty = self.bytes.get::<FrameType>()?;
        self.last_ty = Some(ty);
        Ok(match ty {
            FrameType::PADDING => Frame::Padding,
            FrameType::PING => Frame::Ping,
            _ => Frame::Two { a: self.bytes.get()?, b: self.bytes.get()? },
        })
    }
}
}
}
fn main() {}
