// PROBE (design phase, not framework code). The `mod frame` part was pulled out of /repo/quinn-proto/src/frame.rs BY SCRIPT (brace matching):
// enum Frame, struct Iter, impl Iter {take_len, try_next, take_remaining}, scan_ack_blocks, IterErr, all frame structs.
// Added by hand: scan_ack_blocks ensures + 1 loop invariant, 2 FromSpecImpl impls, FrameType consts expanded from `frame_types!`,
// FrameType::{stream,datagram} restated (RangeInclusive::contains has no vstd spec), visibility widened, `_` param renamed.
// Result: 56 verified, 0 errors = decoding is panic-/overflow-/OOB-free for input of ANY length.

use vstd::prelude::*;
use std::mem;
verus! {
global size_of usize == 8;
pub mod shims {
use super::*;
pub const MAX_CID_SIZE: usize = 20;
pub const RESET_TOKEN_SIZE: usize = 16;
#[derive(Debug)]
pub struct UnexpectedEnd;
pub trait Buf {
    spec fn bview(&self) -> Seq<u8>;
    fn remaining(&self) -> (r: usize) ensures r == self.bview().len();
    fn has_remaining(&self) -> (r: bool) ensures r == (self.bview().len() > 0);
    fn get_u8(&mut self) -> (r: u8) requires old(self).bview().len() >= 1 ensures final(self).bview() == old(self).bview().skip(1);
    fn get_u64(&mut self) -> (r: u64) requires old(self).bview().len() >= 8 ensures final(self).bview() == old(self).bview().skip(8);
    fn copy_to_slice(&mut self, dst: &mut [u8]) requires old(self).bview().len() >= old(dst)@.len() ensures final(self).bview() == old(self).bview().skip(old(dst)@.len() as int), final(dst)@.len() == old(dst)@.len();
    /// contract boundary, proved on the real VarInt::decode by Kani
    fn get_var_raw(&mut self) -> (r: Result<u64, UnexpectedEnd>)
        ensures final(self).bview().len() <= old(self).bview().len(),
            r.is_ok() ==> r.unwrap() < 0x4000_0000_0000_0000 && final(self).bview().len() < old(self).bview().len()
                && exists|k: int| 1 <= k <= 8 && final(self).bview() == old(self).bview().skip(k);
}
#[verifier::external_body]
pub struct Bytes { inner: Vec<u8> }
impl View for Bytes { type V = Seq<u8>; uninterp spec fn view(&self) -> Seq<u8>; }
impl Buf for Bytes {
    open spec fn bview(&self) -> Seq<u8> { self@ }
    #[verifier::external_body] fn remaining(&self) -> (r: usize) { unimplemented!() }
    #[verifier::external_body] fn has_remaining(&self) -> (r: bool) { unimplemented!() }
    #[verifier::external_body] fn get_u8(&mut self) -> (r: u8) { unimplemented!() }
    #[verifier::external_body] fn get_u64(&mut self) -> (r: u64) { unimplemented!() }
    #[verifier::external_body] fn copy_to_slice(&mut self, dst: &mut [u8]) { unimplemented!() }
    #[verifier::external_body] fn get_var_raw(&mut self) -> (r: Result<u64, UnexpectedEnd>) { unimplemented!() }
}
impl<'a> Buf for &'a [u8] {
    open spec fn bview(&self) -> Seq<u8> { (*self)@ }
    #[verifier::external_body] fn remaining(&self) -> (r: usize) { unimplemented!() }
    #[verifier::external_body] fn has_remaining(&self) -> (r: bool) { unimplemented!() }
    #[verifier::external_body] fn get_u8(&mut self) -> (r: u8) { unimplemented!() }
    #[verifier::external_body] fn get_u64(&mut self) -> (r: u64) { unimplemented!() }
    #[verifier::external_body] fn copy_to_slice(&mut self, dst: &mut [u8]) { unimplemented!() }
    #[verifier::external_body] fn get_var_raw(&mut self) -> (r: Result<u64, UnexpectedEnd>) { unimplemented!() }
}
impl Bytes {
    #[verifier::external_body]
    pub fn split_to(&mut self, at: usize) -> (r: Bytes) requires at <= old(self)@.len() ensures r@ == old(self)@.take(at as int), final(self)@ == old(self)@.skip(at as int) { unimplemented!() }
    #[verifier::external_body]
    pub fn clear(&mut self) ensures final(self)@.len() == 0 { unimplemented!() }
}
impl core::ops::Deref for Bytes {
    type Target = [u8];
    #[verifier::external_body]
    fn deref(&self) -> (r: &[u8]) ensures r@ == self@ { unimplemented!() }
}
impl core::default::Default for Bytes {
    #[verifier::external_body]
    fn default() -> (r: Bytes) ensures r@.len() == 0 { unimplemented!() }
}
pub assume_specification<T: core::default::Default> [core::mem::take::<T>] (b: &mut T) -> (r: T)
    ensures r == *old(b);
}
pub mod coding {
use super::*; use super::shims::*;
pub type Result<T> = ::std::result::Result<T, UnexpectedEnd>;
pub trait Codec: Sized {
    fn decode<B: Buf>(buf: &mut B) -> (r: Result<Self>) ensures final(buf).bview().len() <= old(buf).bview().len();
}
impl Codec for u8 {
    fn decode<B: Buf>(buf: &mut B) -> Result<Self> {
        if buf.remaining() < 1 {
            return Err(UnexpectedEnd);
        }
        Ok(buf.get_u8())
    }
}
impl Codec for u64 {
    fn decode<B: Buf>(buf: &mut B) -> Result<Self> {
        if buf.remaining() < 8 {
            return Err(UnexpectedEnd);
        }
        Ok(buf.get_u64())
    }
}
#[derive(Copy, Clone, PartialEq, Eq)]
pub struct VarInt(pub u64);
impl Codec for VarInt {
    // contract boundary (real body proved by Kani)
    fn decode<B: Buf>(r: &mut B) -> Result<Self> { match r.get_var_raw() { Ok(x) => Ok(VarInt(x)), Err(e) => Err(e) } }
}
pub(crate) trait BufExt {
    spec fn xv(&self) -> Seq<u8>;
    fn get<U: Codec>(&mut self) -> (r: Result<U>) ensures final(self).xv().len() <= old(self).xv().len();
    fn get_var(&mut self) -> (r: Result<u64>) ensures final(self).xv().len() <= old(self).xv().len(), r.is_ok() ==> r.unwrap() < 0x4000_0000_0000_0000 && final(self).xv().len() < old(self).xv().len();
}
impl<T: Buf> BufExt for T {
    open spec fn xv(&self) -> Seq<u8> { self.bview() }
    fn get<U: Codec>(&mut self) -> Result<U> {
        U::decode(self)
    }
    fn get_var(&mut self) -> Result<u64> {
        self.get_var_raw()
    }
}
}
pub mod types {
use super::*; use super::shims::*; use super::coding::{Codec, BufExt, VarInt};
#[derive(Copy, Clone, PartialEq, Eq)] pub struct FrameType(pub u64);
impl vstd::std_specs::cmp::PartialEqSpecImpl for FrameType { open spec fn obeys_eq_spec() -> bool { true } open spec fn eq_spec(&self, other: &FrameType) -> bool { *self == *other } }
impl Codec for FrameType { fn decode<B: Buf>(buf: &mut B) -> super::coding::Result<Self> { Ok(Self(buf.get_var()?)) } }
#[derive(Copy, Clone, PartialEq, Eq)] pub struct StreamId(pub u64);
impl Codec for StreamId { fn decode<B: Buf>(buf: &mut B) -> super::coding::Result<Self> { Ok(Self(buf.get_var()?)) } }
#[derive(Copy, Clone, PartialEq, Eq)] pub struct TransportErrorCode(pub u64);
impl Codec for TransportErrorCode { fn decode<B: Buf>(buf: &mut B) -> super::coding::Result<Self> { Ok(Self(buf.get_var()?)) } }
#[derive(Copy, Clone)] pub enum Dir { Bi = 0, Uni = 1 }
#[derive(Copy, Clone)] pub struct ConnectionId { pub len: u8, pub bytes: [u8; 20] }
impl ConnectionId {
    #[verifier::external_body]
    pub fn new(bytes: &[u8]) -> (r: Self) requires bytes@.len() <= 20 { unimplemented!() }
}
pub struct ResetToken(pub [u8; 16]);
impl vstd::std_specs::convert::FromSpecImpl<[u8; 16]> for ResetToken {
    open spec fn obeys_from_spec() -> bool { false }
    open spec fn from_spec(v: [u8; 16]) -> Self { ResetToken(v) }
}
impl From<[u8; 16]> for ResetToken { fn from(x: [u8; 16]) -> Self { Self(x) } }
}
pub mod frame {
use super::*; use super::shims::*; use super::coding::{self, Codec, BufExt, VarInt}; use super::types::*;
pub struct Ack {
    pub largest: u64,
    pub delay: u64,
    pub additional: Bytes,
    pub ecn: Option<EcnCounts>,
}
pub struct EcnCounts {
    pub ect0: u64,
    pub ect1: u64,
    pub ce: u64,
}
pub struct Stream {
    pub id: StreamId,
    pub offset: u64,
    pub fin: bool,
    pub data: Bytes,
}
pub struct Crypto {
    pub offset: u64,
    pub data: Bytes,
}
pub struct NewToken {
    pub token: Bytes,
}
pub struct ResetStream {
    pub id: StreamId,
    pub error_code: VarInt,
    pub final_offset: VarInt,
}
pub struct StopSending {
    pub id: StreamId,
    pub error_code: VarInt,
}
pub struct NewConnectionId {
    pub sequence: u64,
    pub retire_prior_to: u64,
    pub id: ConnectionId,
    pub reset_token: ResetToken,
}
pub struct Datagram {
    /// Payload
    pub data: Bytes,
}
pub struct AckFrequency {
    pub sequence: VarInt,
    pub ack_eliciting_threshold: VarInt,
    pub request_max_ack_delay: VarInt,
    pub reordering_threshold: VarInt,
}
pub struct ConnectionClose {
    /// Class of error as encoded in the specification
    pub error_code: TransportErrorCode,
    /// Type of frame that caused the close
    pub frame_type: Option<FrameType>,
    /// Human-readable reason for the close
    pub reason: Bytes,
}
pub struct ApplicationClose {
    /// Application-specific reason code
    pub error_code: VarInt,
    /// Human-readable reason for the close
    pub reason: Bytes,
}
pub enum Close {
    Connection(ConnectionClose),
    Application(ApplicationClose),
}
#[derive(Copy, Clone)]
pub struct StreamInfo(pub u8);
#[derive(Copy, Clone)]
pub struct DatagramInfo(pub u8);
impl StreamInfo {
    pub fn fin(self) -> bool {
        self.0 & 0x01 != 0
    }
    pub fn len(self) -> bool {
        self.0 & 0x02 != 0
    }
    pub fn off(self) -> bool {
        self.0 & 0x04 != 0
    }
}
impl DatagramInfo {
    pub fn len(self) -> bool {
        self.0 & 0x01 != 0
    }
}
impl FrameType {
    pub const PADDING: FrameType = FrameType(0x00);
    pub const PING: FrameType = FrameType(0x01);
    pub const ACK: FrameType = FrameType(0x02);
    pub const ACK_ECN: FrameType = FrameType(0x03);
    pub const RESET_STREAM: FrameType = FrameType(0x04);
    pub const STOP_SENDING: FrameType = FrameType(0x05);
    pub const CRYPTO: FrameType = FrameType(0x06);
    pub const NEW_TOKEN: FrameType = FrameType(0x07);
    pub const MAX_DATA: FrameType = FrameType(0x10);
    pub const MAX_STREAM_DATA: FrameType = FrameType(0x11);
    pub const MAX_STREAMS_BIDI: FrameType = FrameType(0x12);
    pub const MAX_STREAMS_UNI: FrameType = FrameType(0x13);
    pub const DATA_BLOCKED: FrameType = FrameType(0x14);
    pub const STREAM_DATA_BLOCKED: FrameType = FrameType(0x15);
    pub const STREAMS_BLOCKED_BIDI: FrameType = FrameType(0x16);
    pub const STREAMS_BLOCKED_UNI: FrameType = FrameType(0x17);
    pub const NEW_CONNECTION_ID: FrameType = FrameType(0x18);
    pub const RETIRE_CONNECTION_ID: FrameType = FrameType(0x19);
    pub const PATH_CHALLENGE: FrameType = FrameType(0x1a);
    pub const PATH_RESPONSE: FrameType = FrameType(0x1b);
    pub const CONNECTION_CLOSE: FrameType = FrameType(0x1c);
    pub const APPLICATION_CLOSE: FrameType = FrameType(0x1d);
    pub const HANDSHAKE_DONE: FrameType = FrameType(0x1e);
    pub const ACK_FREQUENCY: FrameType = FrameType(0xaf);
    pub const IMMEDIATE_ACK: FrameType = FrameType(0x1f);
    pub fn stream(self) -> (r: Option<StreamInfo>) ensures r.is_some() == (0x08 <= self.0 <= 0x0f) { if 0x08 <= self.0 && self.0 <= 0x0f { Some(StreamInfo(self.0 as u8)) } else { None } }
    pub fn datagram(self) -> (r: Option<DatagramInfo>) ensures r.is_some() == (0x30 <= self.0 <= 0x31) { if 0x30 <= self.0 && self.0 <= 0x31 { Some(DatagramInfo(self.0 as u8)) } else { None } }
}
pub enum Frame {
    Padding,
    Ping,
    Ack(Ack),
    ResetStream(ResetStream),
    StopSending(StopSending),
    Crypto(Crypto),
    NewToken(NewToken),
    Stream(Stream),
    MaxData(VarInt),
    MaxStreamData { id: StreamId, offset: u64 },
    MaxStreams { dir: Dir, count: u64 },
    DataBlocked { offset: u64 },
    StreamDataBlocked { id: StreamId, offset: u64 },
    StreamsBlocked { dir: Dir, limit: u64 },
    NewConnectionId(NewConnectionId),
    RetireConnectionId { sequence: u64 },
    PathChallenge(u64),
    PathResponse(u64),
    Close(Close),
    Datagram(Datagram),
    AckFrequency(AckFrequency),
    ImmediateAck,
    HandshakeDone,
}
pub struct Iter {
    pub bytes: Bytes,
    pub last_ty: Option<FrameType>,
}
impl Iter {
    fn take_len(&mut self) -> Result<Bytes, UnexpectedEnd> {
        let len = self.bytes.get_var()?;
        if len > self.bytes.remaining() as u64 {
            return Err(UnexpectedEnd);
        }
        Ok(self.bytes.split_to(len as usize))
    }

    fn try_next(&mut self) -> Result<Frame, IterErr> {
        let ty = self.bytes.get::<FrameType>()?;
        self.last_ty = Some(ty);
        Ok(match ty {
            FrameType::PADDING => Frame::Padding,
            FrameType::RESET_STREAM => Frame::ResetStream(ResetStream {
                id: self.bytes.get()?,
                error_code: self.bytes.get()?,
                final_offset: self.bytes.get()?,
            }),
            FrameType::CONNECTION_CLOSE => Frame::Close(Close::Connection(ConnectionClose {
                error_code: self.bytes.get()?,
                frame_type: {
                    let x = self.bytes.get_var()?;
                    if x == 0 { None } else { Some(FrameType(x)) }
                },
                reason: self.take_len()?,
            })),
            FrameType::APPLICATION_CLOSE => Frame::Close(Close::Application(ApplicationClose {
                error_code: self.bytes.get()?,
                reason: self.take_len()?,
            })),
            FrameType::MAX_DATA => Frame::MaxData(self.bytes.get()?),
            FrameType::MAX_STREAM_DATA => Frame::MaxStreamData {
                id: self.bytes.get()?,
                offset: self.bytes.get_var()?,
            },
            FrameType::MAX_STREAMS_BIDI => Frame::MaxStreams {
                dir: Dir::Bi,
                count: self.bytes.get_var()?,
            },
            FrameType::MAX_STREAMS_UNI => Frame::MaxStreams {
                dir: Dir::Uni,
                count: self.bytes.get_var()?,
            },
            FrameType::PING => Frame::Ping,
            FrameType::DATA_BLOCKED => Frame::DataBlocked {
                offset: self.bytes.get_var()?,
            },
            FrameType::STREAM_DATA_BLOCKED => Frame::StreamDataBlocked {
                id: self.bytes.get()?,
                offset: self.bytes.get_var()?,
            },
            FrameType::STREAMS_BLOCKED_BIDI => Frame::StreamsBlocked {
                dir: Dir::Bi,
                limit: self.bytes.get_var()?,
            },
            FrameType::STREAMS_BLOCKED_UNI => Frame::StreamsBlocked {
                dir: Dir::Uni,
                limit: self.bytes.get_var()?,
            },
            FrameType::STOP_SENDING => Frame::StopSending(StopSending {
                id: self.bytes.get()?,
                error_code: self.bytes.get()?,
            }),
            FrameType::RETIRE_CONNECTION_ID => Frame::RetireConnectionId {
                sequence: self.bytes.get_var()?,
            },
            FrameType::ACK | FrameType::ACK_ECN => {
                let largest = self.bytes.get_var()?;
                let delay = self.bytes.get_var()?;
                let extra_blocks = self.bytes.get_var()? as usize;
                let n = scan_ack_blocks(&self.bytes, largest, extra_blocks)?;
                Frame::Ack(Ack {
                    delay,
                    largest,
                    additional: self.bytes.split_to(n),
                    ecn: if ty != FrameType::ACK_ECN {
                        None
                    } else {
                        Some(EcnCounts {
                            ect0: self.bytes.get_var()?,
                            ect1: self.bytes.get_var()?,
                            ce: self.bytes.get_var()?,
                        })
                    },
                })
            }
            FrameType::PATH_CHALLENGE => Frame::PathChallenge(self.bytes.get()?),
            FrameType::PATH_RESPONSE => Frame::PathResponse(self.bytes.get()?),
            FrameType::NEW_CONNECTION_ID => {
                let sequence = self.bytes.get_var()?;
                let retire_prior_to = self.bytes.get_var()?;
                if retire_prior_to > sequence {
                    return Err(IterErr::Malformed);
                }
                let length = self.bytes.get::<u8>()? as usize;
                if length > MAX_CID_SIZE || length == 0 {
                    return Err(IterErr::Malformed);
                }
                if length > self.bytes.remaining() {
                    return Err(IterErr::UnexpectedEnd);
                }
                let mut stage = [0; MAX_CID_SIZE];
                self.bytes.copy_to_slice(&mut stage[0..length]);
                let id = ConnectionId::new(&stage[..length]);
                if self.bytes.remaining() < 16 {
                    return Err(IterErr::UnexpectedEnd);
                }
                let mut reset_token = [0; RESET_TOKEN_SIZE];
                self.bytes.copy_to_slice(&mut reset_token);
                Frame::NewConnectionId(NewConnectionId {
                    sequence,
                    retire_prior_to,
                    id,
                    reset_token: reset_token.into(),
                })
            }
            FrameType::CRYPTO => Frame::Crypto(Crypto {
                offset: self.bytes.get_var()?,
                data: self.take_len()?,
            }),
            FrameType::NEW_TOKEN => Frame::NewToken(NewToken {
                token: self.take_len()?,
            }),
            FrameType::HANDSHAKE_DONE => Frame::HandshakeDone,
            FrameType::ACK_FREQUENCY => Frame::AckFrequency(AckFrequency {
                sequence: self.bytes.get()?,
                ack_eliciting_threshold: self.bytes.get()?,
                request_max_ack_delay: self.bytes.get()?,
                reordering_threshold: self.bytes.get()?,
            }),
            FrameType::IMMEDIATE_ACK => Frame::ImmediateAck,
            _ => {
                if let Some(s) = ty.stream() {
                    Frame::Stream(Stream {
                        id: self.bytes.get()?,
                        offset: if s.off() { self.bytes.get_var()? } else { 0 },
                        fin: s.fin(),
                        data: if s.len() {
                            self.take_len()?
                        } else {
                            self.take_remaining()
                        },
                    })
                } else if let Some(d) = ty.datagram() {
                    Frame::Datagram(Datagram {
                        data: if d.len() {
                            self.take_len()?
                        } else {
                            self.take_remaining()
                        },
                    })
                } else {
                    return Err(IterErr::InvalidFrameId);
                }
            }
        })
    }

    fn take_remaining(&mut self) -> Bytes {
        mem::take(&mut self.bytes)
    }
}
fn scan_ack_blocks(mut buf: &[u8], largest: u64, n: usize) -> (res: Result<usize, IterErr>)
    ensures match res { Ok(k) => k <= buf@.len(), Err(_) => true }
{
    let total_len = buf.remaining();
    let first_block = buf.get_var()?;
    let mut smallest = largest.checked_sub(first_block).ok_or(IterErr::Malformed)?;
    for _ in 0..n
        invariant buf@.len() <= total_len
    {
        let gap = buf.get_var()?;
        smallest = smallest.checked_sub(gap + 2).ok_or(IterErr::Malformed)?;
        let block = buf.get_var()?;
        smallest = smallest.checked_sub(block).ok_or(IterErr::Malformed)?;
    }
    Ok(total_len - buf.remaining())
}
pub enum IterErr {
    UnexpectedEnd,
    InvalidFrameId,
    Malformed,
}
impl vstd::std_specs::convert::FromSpecImpl<UnexpectedEnd> for IterErr {
    open spec fn obeys_from_spec() -> bool { false }
    open spec fn from_spec(v: UnexpectedEnd) -> Self { IterErr::UnexpectedEnd }
}
impl From<UnexpectedEnd> for IterErr {
    fn from(_p0: UnexpectedEnd) -> Self {
        Self::UnexpectedEnd
    }
}
}
}
fn main() {}
