// PROBE (design phase): the complete real `impl Recv` (script-extracted, tracing dropped, `|_|` renamed) is accepted: 19 verified;
// the 5 remaining errors are the arithmetic sites whose safety depends on the representation invariant still to be written
// (offset < 2^62, bytes_read <= end, sent_max_stream_data <= bytes_read + window, received <= max_data < 2^62).

use vstd::prelude::*;
verus! {
global size_of usize == 8;
pub mod shims {
use super::*;
#[verifier::external_body] pub struct Bytes { inner: Vec<u8> }
impl View for Bytes { type V = Seq<u8>; uninterp spec fn view(&self) -> Seq<u8>; }
impl Bytes { #[verifier::external_body] pub fn len(&self) -> (r: usize) ensures r == self@.len() { unimplemented!() } }
pub assume_specification [u64::pow] (b: u64, e: u32) -> (r: u64)
    ensures (b == 2 && e == 62) ==> r == 0x4000_0000_0000_0000u64;
#[derive(Copy, Clone, PartialEq, Eq)] pub struct VarInt(pub u64);
impl VarInt { pub const fn into_inner(self) -> (r: u64) ensures r == self.0 { self.0 } }
impl From<VarInt> for u64 { fn from(x: VarInt) -> (r: u64) ensures r == x.0 { x.0 } }
impl vstd::std_specs::convert::FromSpecImpl<VarInt> for u64 { open spec fn obeys_from_spec() -> bool { true } open spec fn from_spec(v: VarInt) -> u64 { v.0 } }
#[derive(Copy, Clone)] pub struct StreamId(pub u64);
pub mod frame { use super::*; pub struct Stream { pub id: StreamId, pub offset: u64, pub fin: bool, pub data: Bytes } }
#[derive(Copy, Clone, PartialEq, Eq)] pub enum Code { FLOW_CONTROL_ERROR, FINAL_SIZE_ERROR, INTERNAL_ERROR }
pub struct TransportError { pub code: Code }
impl TransportError {
    #[allow(non_snake_case)] pub fn FLOW_CONTROL_ERROR(_r: &'static str) -> (r: Self) ensures r.code == Code::FLOW_CONTROL_ERROR { TransportError { code: Code::FLOW_CONTROL_ERROR } }
    #[allow(non_snake_case)] pub fn FINAL_SIZE_ERROR(_r: &'static str) -> (r: Self) ensures r.code == Code::FINAL_SIZE_ERROR { TransportError { code: Code::FINAL_SIZE_ERROR } }
    #[allow(non_snake_case)] pub fn INTERNAL_ERROR(_r: &'static str) -> (r: Self) ensures r.code == Code::INTERNAL_ERROR { TransportError { code: Code::INTERNAL_ERROR } }
}
pub struct TooManyChunks;
pub struct ClosedStream { pub _private: () }
pub struct ShouldTransmit(pub bool);
/// opaque contract boundary (bounded Kani stand-in covers the real thing)
#[verifier::external_body] pub struct Assembler { x: u8 }
impl Assembler {
    pub uninterp spec fn bytes_read_spec(&self) -> u64;
    #[verifier::external_body] pub fn new() -> (r: Self) ensures r.bytes_read_spec() == 0 { unimplemented!() }
    #[verifier::external_body] pub fn reinit(&mut self) ensures final(self).bytes_read_spec() == 0 { unimplemented!() }
    #[verifier::external_body] pub fn clear(&mut self) ensures final(self).bytes_read_spec() == old(self).bytes_read_spec() { unimplemented!() }
    #[verifier::external_body] pub fn bytes_read(&self) -> (r: u64) ensures r == self.bytes_read_spec() { unimplemented!() }
    #[verifier::external_body] pub fn insert(&mut self, offset: u64, bytes: Bytes, allocation_size: usize) -> (r: Result<(), TooManyChunks>)
        requires offset + bytes@.len() <= u64::MAX
        ensures final(self).bytes_read_spec() == old(self).bytes_read_spec() { unimplemented!() }
}
}
pub mod code {
use super::*; use super::shims::*;
pub struct Recv {
    pub state: RecvState,
    pub assembler: Assembler,
    pub sent_max_stream_data: u64,
    pub end: u64,
    pub stopped: bool,
}
#[derive(Copy, Clone)]
pub enum RecvState {
    Recv { size: Option<u64> },
    ResetRecvd { size: u64, error_code: VarInt },
}
impl Default for RecvState {
    fn default() -> (r: Self) ensures r == (RecvState::Recv { size: None }) {
        Self::Recv { size: None }
    }
}
impl Recv {
    pub fn new(initial_max_data: u64) -> Box<Self> {
        Box::new(Self {
            state: RecvState::default(),
            assembler: Assembler::new(),
            sent_max_stream_data: initial_max_data,
            end: 0,
            stopped: false,
        })
    }
    pub fn reinit(&mut self, initial_max_data: u64) {
        self.state = RecvState::default();
        self.assembler.reinit();
        self.sent_max_stream_data = initial_max_data;
        self.end = 0;
        self.stopped = false;
    }
    pub fn ingest(
        &mut self,
        frame: frame::Stream,
        payload_len: usize,
        received: u64,
        max_data: u64,
    ) -> Result<(u64, bool), TransportError> {
        let end = frame.offset + frame.data.len() as u64;
        if end >= 2u64.pow(62) {
            return Err(TransportError::FLOW_CONTROL_ERROR(
                "maximum stream offset too large",
            ));
        }

        if let Some(final_offset) = self.final_offset() {
            if end > final_offset || (frame.fin && end != final_offset) {
                return Err(TransportError::FINAL_SIZE_ERROR(""));
            }
        }

        let new_bytes = self.credit_consumed_by(end, received, max_data)?;
        if frame.fin && !self.stopped {
            if let RecvState::Recv { ref mut size } = self.state {
                *size = Some(end);
            }
        }

        self.end = self.end.max(end);
        if !self.stopped {
            self.assembler
                .insert(frame.offset, frame.data, payload_len)
                .map_err(|_p0| TransportError::INTERNAL_ERROR("too many gaps in stream buffer"))?;
        }

        Ok((new_bytes, frame.fin && self.stopped))
    }

    pub fn stop(&mut self) -> Result<(u64, ShouldTransmit), ClosedStream> {
        if self.stopped {
            return Err(ClosedStream { _private: () });
        }

        self.stopped = true;
        self.assembler.clear();
        let read_credits = self.end - self.assembler.bytes_read();
        Ok((read_credits, ShouldTransmit(self.is_receiving())))
    }
    pub fn max_stream_data(&mut self, stream_receive_window: u64) -> (u64, ShouldTransmit) {
        let max_stream_data = self.assembler.bytes_read() + stream_receive_window;
        let diff = max_stream_data - self.sent_max_stream_data;
        let transmit = self.can_send_flow_control() && diff >= (stream_receive_window / 8);
        (max_stream_data, ShouldTransmit(transmit))
    }
    pub fn record_sent_max_stream_data(&mut self, sent_value: u64) {
        if sent_value > self.sent_max_stream_data {
            self.sent_max_stream_data = sent_value;
        }
    }
    pub fn final_offset_unknown(&self) -> bool {
        matches!(self.state, RecvState::Recv { size: None })
    }
    pub fn can_send_flow_control(&self) -> bool {
        self.final_offset_unknown() && !self.stopped
    }
    pub fn is_receiving(&self) -> bool {
        matches!(self.state, RecvState::Recv { .. })
    }

    pub fn final_offset(&self) -> Option<u64> {
        match self.state {
            RecvState::Recv { size } => size,
            RecvState::ResetRecvd { size, .. } => Some(size),
        }
    }
    pub fn reset(
        &mut self,
        error_code: VarInt,
        final_offset: VarInt,
        received: u64,
        max_data: u64,
    ) -> Result<bool, TransportError> {
        if let Some(offset) = self.final_offset() {
            if offset != final_offset.into_inner() {
                return Err(TransportError::FINAL_SIZE_ERROR("inconsistent value"));
            }
        } else if self.end > u64::from(final_offset) {
            return Err(TransportError::FINAL_SIZE_ERROR(
                "lower than high water mark",
            ));
        }
        self.credit_consumed_by(final_offset.into(), received, max_data)?;

        if matches!(self.state, RecvState::ResetRecvd { .. }) {
            return Ok(false);
        }
        self.state = RecvState::ResetRecvd {
            size: final_offset.into(),
            error_code,
        };
        self.assembler.clear();
        Ok(true)
    }

    pub fn reset_code(&self) -> Option<VarInt> {
        match self.state {
            RecvState::ResetRecvd { error_code, .. } => Some(error_code),
            _ => None,
        }
    }
    pub fn credit_consumed_by(
        &self,
        offset: u64,
        received: u64,
        max_data: u64,
    ) -> Result<u64, TransportError> {
        let prev_end = self.end;
        let new_bytes = offset.saturating_sub(prev_end);
        if offset > self.sent_max_stream_data || received + new_bytes > max_data {
            return Err(TransportError::FLOW_CONTROL_ERROR(""));
        }

        Ok(new_bytes)
    }
}
}
}
fn main() {}
