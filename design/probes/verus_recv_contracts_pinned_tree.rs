// PROBE (design phase): the complete real `impl Recv` (script-extracted from the PINNED tree) with the C06 contracts and the invariant
// `bytes_read <= end <= sent_max_stream_data` and `final size known ==> end <= final size`.
// Result: 22 verified, 1 error — `Recv::ingest` does NOT preserve the invariant: a FIN whose final size is below data already
// received is accepted (no FINAL_SIZE_ERROR). Replayed on the real code with a plain #[test]: second ingest returns Ok((0,false)),
// end = 10, final_offset = Some(5). Genuine defect (C06, RFC 9000 4.5). See DESIGN.md section 8.
use vstd::prelude::*;
verus! {
global size_of usize == 8;
pub mod shims {
use super::*;
#[verifier::external_body] pub struct Bytes { inner: Vec<u8> }
impl View for Bytes { type V = Seq<u8>; uninterp spec fn view(&self) -> Seq<u8>; }
impl Bytes { #[verifier::external_body] pub fn len(&self) -> (r: usize) ensures r == self@.len() { unimplemented!() } }
pub assume_specification [u64::pow] (b: u64, e: u32) -> (r: u64)
    ensures (b == 2 && e == 62) ==> r == 0x4000_0000_0000_0000u64;
#[derive(Copy, Clone, PartialEq, Eq)] pub struct VarInt(pub u64);
impl VarInt { pub const fn into_inner(self) -> (r: u64) ensures r == self.0 { self.0 } }
impl From<VarInt> for u64 { fn from(x: VarInt) -> (r: u64) ensures r == x.0 { x.0 } }
impl vstd::std_specs::convert::FromSpecImpl<VarInt> for u64 { open spec fn obeys_from_spec() -> bool { true } open spec fn from_spec(v: VarInt) -> u64 { v.0 } }
#[derive(Copy, Clone)] pub struct StreamId(pub u64);
pub mod frame { use super::*; pub struct Stream { pub id: StreamId, pub offset: u64, pub fin: bool, pub data: Bytes } }
#[derive(Copy, Clone, PartialEq, Eq)] pub enum Code { FLOW_CONTROL_ERROR, FINAL_SIZE_ERROR, INTERNAL_ERROR }
pub struct TransportError { pub code: Code }
impl TransportError {
    #[allow(non_snake_case)] pub fn FLOW_CONTROL_ERROR(_r: &'static str) -> (r: Self) ensures r.code == Code::FLOW_CONTROL_ERROR { TransportError { code: Code::FLOW_CONTROL_ERROR } }
    #[allow(non_snake_case)] pub fn FINAL_SIZE_ERROR(_r: &'static str) -> (r: Self) ensures r.code == Code::FINAL_SIZE_ERROR { TransportError { code: Code::FINAL_SIZE_ERROR } }
    #[allow(non_snake_case)] pub fn INTERNAL_ERROR(_r: &'static str) -> (r: Self) ensures r.code == Code::INTERNAL_ERROR { TransportError { code: Code::INTERNAL_ERROR } }
}
pub struct TooManyChunks;
pub struct ClosedStream { pub _private: () }
pub struct ShouldTransmit(pub bool);
/// opaque contract boundary (bounded Kani stand-in covers the real thing)
#[verifier::external_body] pub struct Assembler { x: u8 }
impl Assembler {
    pub uninterp spec fn bytes_read_spec(&self) -> u64;
    #[verifier::external_body] pub fn new() -> (r: Self) ensures r.bytes_read_spec() == 0 { unimplemented!() }
    #[verifier::external_body] pub fn reinit(&mut self) ensures final(self).bytes_read_spec() == 0 { unimplemented!() }
    #[verifier::external_body] pub fn clear(&mut self) ensures final(self).bytes_read_spec() == old(self).bytes_read_spec() { unimplemented!() }
    #[verifier::external_body] pub fn bytes_read(&self) -> (r: u64) ensures r == self.bytes_read_spec() { unimplemented!() }
    #[verifier::external_body] pub fn insert(&mut self, offset: u64, bytes: Bytes, allocation_size: usize) -> (r: Result<(), TooManyChunks>)
        requires offset + bytes@.len() <= u64::MAX
        ensures final(self).bytes_read_spec() == old(self).bytes_read_spec() { unimplemented!() }
}
}
pub mod code {
use super::*; use super::shims::*;
pub struct Recv {
    pub state: RecvState,
    pub assembler: Assembler,
    pub sent_max_stream_data: u64,
    pub end: u64,
    pub stopped: bool,
}
#[derive(Copy, Clone)]
pub enum RecvState {
    Recv { size: Option<u64> },
    ResetRecvd { size: u64, error_code: VarInt },
}
impl Default for RecvState {
    fn default() -> (r: Self) ensures r == (RecvState::Recv { size: None }) {
        Self::Recv { size: None }
    }
}
impl Recv {
    pub open spec fn final_size(&self) -> Option<u64> {
        match self.state { RecvState::Recv { size } => size, RecvState::ResetRecvd { size, .. } => Some(size) }
    }
    pub open spec fn wf(&self) -> bool {
        &&& self.assembler.bytes_read_spec() <= self.end
        &&& self.end <= self.sent_max_stream_data
        &&& self.sent_max_stream_data < 0x4000_0000_0000_0000
        &&& (self.final_size().is_some() ==> self.end <= self.final_size().unwrap() && self.final_size().unwrap() < 0x4000_0000_0000_0000)
    }
    pub open spec fn wf_w(&self, window: u64) -> bool {
        &&& self.wf()
        &&& self.sent_max_stream_data <= self.assembler.bytes_read_spec() + window
        &&& window < 0x4000_0000_0000_0000
    }
    pub fn new(initial_max_data: u64) -> Box<Self> {
        Box::new(Self {
            state: RecvState::default(),
            assembler: Assembler::new(),
            sent_max_stream_data: initial_max_data,
            end: 0,
            stopped: false,
        })
    }
    pub fn reinit(&mut self, initial_max_data: u64) {
        self.state = RecvState::default();
        self.assembler.reinit();
        self.sent_max_stream_data = initial_max_data;
        self.end = 0;
        self.stopped = false;
    }
    pub fn ingest(
        &mut self,
        frame: frame::Stream,
        payload_len: usize,
        received: u64,
        max_data: u64,
    ) -> (res: Result<(u64, bool), TransportError>)
        requires
            old(self).wf(),
            frame.offset < 0x4000_0000_0000_0000, frame.data@.len() < 0x1_0000_0000,
            received <= max_data < 0x4000_0000_0000_0000,
        ensures
            final(self).wf(),
            final(self).sent_max_stream_data == old(self).sent_max_stream_data, final(self).stopped == old(self).stopped,
            match res {
                Ok((n, closed)) => {
                    let end = (frame.offset + frame.data@.len()) as u64;
                    &&& end <= old(self).sent_max_stream_data                       // never beyond the advertised stream limit
                    &&& received + n <= max_data                                     // never beyond the connection limit
                    &&& n == (if end > old(self).end { end - old(self).end } else { 0 })
                    &&& final(self).end == (if end > old(self).end { end } else { old(self).end })
                    &&& (old(self).final_size().is_some() ==> end <= old(self).final_size().unwrap() && (frame.fin ==> end == old(self).final_size().unwrap()))
                    &&& closed == (frame.fin && old(self).stopped)
                    &&& (frame.fin && !old(self).stopped && old(self).state is Recv ==> final(self).final_size() == Some(end))
                },
                Err(e) => {
                    let end = frame.offset + frame.data@.len();
                    ||| e.code == Code::FLOW_CONTROL_ERROR && (end >= 0x4000_0000_0000_0000 || end > old(self).sent_max_stream_data
                            || received + (if end > old(self).end { end - old(self).end } else { 0 }) > max_data)
                    ||| e.code == Code::FINAL_SIZE_ERROR && old(self).final_size().is_some() && (end > old(self).final_size().unwrap() || (frame.fin && end != old(self).final_size().unwrap()))
                    ||| e.code == Code::INTERNAL_ERROR
                },
            },
    {
        let end = frame.offset + frame.data.len() as u64;
        if end >= 2u64.pow(62) {
            return Err(TransportError::FLOW_CONTROL_ERROR(
                "maximum stream offset too large",
            ));
        }

        if let Some(final_offset) = self.final_offset() {
            if end > final_offset || (frame.fin && end != final_offset) {
                return Err(TransportError::FINAL_SIZE_ERROR(""));
            }
        }

        let new_bytes = self.credit_consumed_by(end, received, max_data)?;
        if frame.fin && !self.stopped {
            if let RecvState::Recv { ref mut size } = self.state {
                *size = Some(end);
            }
        }

        self.end = self.end.max(end);
        if !self.stopped {
            self.assembler
                .insert(frame.offset, frame.data, payload_len)
                .map_err(|_p0: TooManyChunks| -> (r: TransportError) ensures r.code == Code::INTERNAL_ERROR { TransportError::INTERNAL_ERROR("too many gaps in stream buffer") })?;
        }

        Ok((new_bytes, frame.fin && self.stopped))
    }

    pub fn stop(&mut self) -> (res: Result<(u64, ShouldTransmit), ClosedStream>)
        requires old(self).wf()
        ensures final(self).wf(),
            match res {
                Ok((credits, _)) => !old(self).stopped && final(self).stopped && credits == old(self).end - old(self).assembler.bytes_read_spec(),
                Err(_) => old(self).stopped && *final(self) == *old(self),
            }
    {
        if self.stopped {
            return Err(ClosedStream { _private: () });
        }

        self.stopped = true;
        self.assembler.clear();
        let read_credits = self.end - self.assembler.bytes_read();
        Ok((read_credits, ShouldTransmit(self.is_receiving())))
    }
    pub fn max_stream_data(&mut self, stream_receive_window: u64) -> (res: (u64, ShouldTransmit))
        requires old(self).wf_w(stream_receive_window)
        ensures *final(self) == *old(self), res.0 == old(self).assembler.bytes_read_spec() + stream_receive_window,
            res.1.0 ==> res.0 - old(self).sent_max_stream_data >= stream_receive_window / 8
    {
        let max_stream_data = self.assembler.bytes_read() + stream_receive_window;
        let diff = max_stream_data - self.sent_max_stream_data;
        let transmit = self.can_send_flow_control() && diff >= (stream_receive_window / 8);
        (max_stream_data, ShouldTransmit(transmit))
    }
    pub fn record_sent_max_stream_data(&mut self, sent_value: u64) {
        if sent_value > self.sent_max_stream_data {
            self.sent_max_stream_data = sent_value;
        }
    }
    pub fn final_offset_unknown(&self) -> bool {
        matches!(self.state, RecvState::Recv { size: None })
    }
    pub fn can_send_flow_control(&self) -> bool {
        self.final_offset_unknown() && !self.stopped
    }
    pub fn is_receiving(&self) -> bool {
        matches!(self.state, RecvState::Recv { .. })
    }

    pub fn final_offset(&self) -> (r: Option<u64>)
        ensures r == self.final_size()
    {
        match self.state {
            RecvState::Recv { size } => size,
            RecvState::ResetRecvd { size, .. } => Some(size),
        }
    }
    pub fn reset(
        &mut self,
        error_code: VarInt,
        final_offset: VarInt,
        received: u64,
        max_data: u64,
    ) -> (res: Result<bool, TransportError>)
        requires old(self).wf(), received <= max_data < 0x4000_0000_0000_0000, final_offset.0 < 0x4000_0000_0000_0000
        ensures final(self).wf(),
            match res {
                Ok(fresh) => {
                    &&& final_offset.0 <= old(self).sent_max_stream_data
                    &&& final_offset.0 >= old(self).end
                    &&& (old(self).final_size().is_some() ==> old(self).final_size().unwrap() == final_offset.0)
                    &&& fresh == !(old(self).state is ResetRecvd)
                    &&& (fresh ==> final(self).state == RecvState::ResetRecvd { size: final_offset.0, error_code })
                    &&& (!fresh ==> *final(self) == *old(self))
                },
                Err(e) => *final(self) == *old(self) && (e.code == Code::FINAL_SIZE_ERROR || e.code == Code::FLOW_CONTROL_ERROR),
            }
    {
        if let Some(offset) = self.final_offset() {
            if offset != final_offset.into_inner() {
                return Err(TransportError::FINAL_SIZE_ERROR("inconsistent value"));
            }
        } else if self.end > u64::from(final_offset) {
            return Err(TransportError::FINAL_SIZE_ERROR(
                "lower than high water mark",
            ));
        }
        self.credit_consumed_by(final_offset.into(), received, max_data)?;

        if matches!(self.state, RecvState::ResetRecvd { .. }) {
            return Ok(false);
        }
        self.state = RecvState::ResetRecvd {
            size: final_offset.into(),
            error_code,
        };
        self.assembler.clear();
        Ok(true)
    }

    pub fn reset_code(&self) -> Option<VarInt> {
        match self.state {
            RecvState::ResetRecvd { error_code, .. } => Some(error_code),
            _ => None,
        }
    }
    pub fn credit_consumed_by(
        &self,
        offset: u64,
        received: u64,
        max_data: u64,
    ) -> (res: Result<u64, TransportError>)
        requires received <= max_data < 0x4000_0000_0000_0000, offset < 0x4000_0000_0000_0000
        ensures match res {
            Ok(n) => offset <= self.sent_max_stream_data && received + n <= max_data && n == (if offset > self.end { offset - self.end } else { 0 }),
            Err(e) => e.code == Code::FLOW_CONTROL_ERROR && (offset > self.sent_max_stream_data || received + (if offset > self.end { offset - self.end } else { 0 }) > max_data),
        }
    {
        let prev_end = self.end;
        let new_bytes = offset.saturating_sub(prev_end);
        if offset > self.sent_max_stream_data || received + new_bytes > max_data {
            return Err(TransportError::FLOW_CONTROL_ERROR(""));
        }

        Ok(new_bytes)
    }
}
}
}
fn main() {}
