// PROBE (design phase, not framework code). Hand-assembled single-file Verus input used to test feasibility:
// the `mod code`/`mod frame`/`mod coding` parts are verbatim copies of /repo function bodies plus spliced contracts;
// `mod shims` are trusted dependency specs. Run: verus <file> --triggers-mode silent

use vstd::prelude::*;
verus! {
pub mod shims {
use super::*;
pub struct UnexpectedEnd;
pub type CResult<T> = ::std::result::Result<T, UnexpectedEnd>;

pub open spec fn varint_len(b0: u8) -> nat { if b0 >> 6 == 0 { 1 } else if b0 >> 6 == 1 { 2 } else if b0 >> 6 == 2 { 4 } else { 8 } }

pub trait Buf {
    spec fn bview(&self) -> Seq<u8>;
    fn remaining(&self) -> (r: usize) ensures r == self.bview().len();
    fn has_remaining(&self) -> (r: bool) ensures r == (self.bview().len() > 0);
}
pub trait BufExt {
    spec fn xview(&self) -> Seq<u8>;
    fn get_var(&mut self) -> (r: CResult<u64>)
        ensures
            final(self).xview().len() <= old(self).xview().len(),
            match r {
                Ok(v) => old(self).xview().len() >= 1
                    && old(self).xview().len() >= varint_len(old(self).xview()[0])
                    && final(self).xview() == old(self).xview().skip(varint_len(old(self).xview()[0]) as int)
                    && v < 0x4000_0000_0000_0000,
                Err(_) => old(self).xview().len() == 0 || old(self).xview().len() < varint_len(old(self).xview()[0]),
            };
}
impl<'a> Buf for &'a [u8] {
    open spec fn bview(&self) -> Seq<u8> { (*self)@ }
    #[verifier::external_body]
    fn remaining(&self) -> (r: usize) { self.len() }
    #[verifier::external_body]
    fn has_remaining(&self) -> (r: bool) { self.len() > 0 }
}
impl<'a> BufExt for &'a [u8] {
    open spec fn xview(&self) -> Seq<u8> { (*self)@ }
    #[verifier::external_body]
    fn get_var(&mut self) -> (r: CResult<u64>) { unimplemented!() }
}
}
pub mod code {
use super::*; use super::shims::*;
pub enum IterErr {
    UnexpectedEnd,
    InvalidFrameId,
    Malformed,
}
impl From<UnexpectedEnd> for IterErr {
    fn from(_p0: UnexpectedEnd) -> Self {
        Self::UnexpectedEnd
    }
}

impl vstd::std_specs::convert::FromSpecImpl<UnexpectedEnd> for IterErr {
    open spec fn obeys_from_spec() -> bool { false }
    open spec fn from_spec(v: UnexpectedEnd) -> Self { IterErr::UnexpectedEnd }
}
fn scan_ack_blocks(mut buf: &[u8], largest: u64, n: usize) -> Result<usize, IterErr> {
    let total_len = buf.remaining();
    let first_block = buf.get_var()?;
    let mut smallest = largest.checked_sub(first_block).ok_or(IterErr::Malformed)?;
    for _ in 0..n
        invariant buf@.len() <= total_len
    {
        let gap = buf.get_var()?;
        smallest = smallest.checked_sub(gap + 2).ok_or(IterErr::Malformed)?;
        let block = buf.get_var()?;
        smallest = smallest.checked_sub(block).ok_or(IterErr::Malformed)?;
    }
    Ok(total_len - buf.remaining())
}
}
}
fn main() {}
