// PROBE (design phase, not framework code). Hand-assembled single-file Verus input used to test feasibility:
// the `mod code`/`mod frame`/`mod coding` parts are verbatim copies of /repo function bodies plus spliced contracts;
// `mod shims` are trusted dependency specs. Run: verus <file> --triggers-mode silent

#![feature(allocator_api)]
use vstd::prelude::*;
use std::{collections::VecDeque, ops::Range};
verus! {
pub mod shims {
use super::*;
#[verifier::external_body]
pub struct Bytes { inner: Vec<u8> }
impl View for Bytes { type V = Seq<u8>; uninterp spec fn view(&self) -> Seq<u8>; }
impl Bytes {
    #[verifier::external_body]
    pub fn len(&self) -> (r: usize) ensures r == self@.len() { unimplemented!() }
    #[verifier::external_body]
    pub fn advance(&mut self, cnt: usize) requires cnt <= old(self)@.len() ensures final(self)@ == old(self)@.skip(cnt as int) { unimplemented!() }
}
impl core::ops::Deref for Bytes {
    type Target = [u8];
    #[verifier::external_body]
    fn deref(&self) -> (r: &[u8]) ensures r@ == self@ { unimplemented!() }
}
pub struct VarInt(pub u64);
impl VarInt {
    pub const unsafe fn from_u64_unchecked(x: u64) -> (r: Self) ensures r.0 == x { Self(x) }
    #[verifier::external_body]
    pub const fn size(self) -> (r: usize) requires self.0 < 0x4000_0000_0000_0000 ensures r == 1 || r == 2 || r == 4 || r == 8 { unimplemented!() }
}
pub assume_specification<T, A: std::alloc::Allocator> [std::collections::VecDeque::<T, A>::front_mut] (v: &mut std::collections::VecDeque<T, A>) -> (r: std::option::Option<&mut T>)
    ensures match r {
        Some(x) => old(v)@.len() > 0 && *x == old(v)@[0] && final(v)@ == old(v)@.update(0, *final(x)),
        None => old(v)@.len() == 0 && final(v)@ == old(v)@,
    };
pub assume_specification<T, A: std::alloc::Allocator> [std::collections::VecDeque::<T, A>::capacity] (v: &std::collections::VecDeque<T, A>) -> (r: usize);
pub assume_specification<T, A: std::alloc::Allocator> [std::collections::VecDeque::<T, A>::shrink_to_fit] (v: &mut std::collections::VecDeque<T, A>)
    ensures final(v)@ == old(v)@;
#[verifier::external_body]
pub struct RangeSet { inner: Vec<u64> }
impl RangeSet {
    pub uninterp spec fn view(&self) -> ISet<u64>;
    #[verifier::external_body]
    pub fn insert(&mut self, x: Range<u64>) -> (r: bool) ensures final(self).view() == old(self).view().union(ISet::new(|v: u64| x.start <= v < x.end)) { unimplemented!() }
    #[verifier::external_body]
    pub fn min(&self) -> (r: Option<u64>) ensures match r { Some(m) => self.view().contains(m) && forall|v: u64| self.view().contains(v) ==> m <= v, None => self.view() == ISet::<u64>::empty() } { unimplemented!() }
    #[verifier::external_body]
    pub fn pop_min(&mut self) -> (r: Option<Range<u64>>)
        ensures match r {
            Some(m) => m.start < m.end && old(self).view().contains(m.start) && (forall|v: u64| old(self).view().contains(v) ==> m.start <= v)
                && (forall|v: u64| m.start <= v < m.end ==> old(self).view().contains(v)) && !old(self).view().contains(m.end)
                && final(self).view() == old(self).view().difference(ISet::new(|v: u64| m.start <= v < m.end)),
            None => old(self).view() == ISet::<u64>::empty() && final(self).view() == old(self).view() } { unimplemented!() }
    #[verifier::external_body]
    pub fn is_empty(&self) -> (r: bool) ensures r == (self.view() == ISet::<u64>::empty()) { unimplemented!() }
}
}
pub mod code {
use super::*; use super::shims::*;

pub struct SendBuffer {
    pub unacked_segments: VecDeque<Bytes>,
    pub unacked_len: usize,
    pub offset: u64,
    pub unsent: u64,
    pub acks: RangeSet,
    pub retransmits: RangeSet,
}

impl SendBuffer {
    pub(super) fn write(&mut self, data: Bytes) {
        self.unacked_len += data.len();
        self.offset += data.len() as u64;
        self.unacked_segments.push_back(data);
    }

    #[verifier::exec_allows_no_decreases_clause]
    pub(super) fn ack(&mut self, mut range: Range<u64>) {
        // Clamp the range to data which is still tracked
        let base_offset = self.offset - self.unacked_len as u64;
        range.start = base_offset.max(range.start);
        range.end = base_offset.max(range.end);

        self.acks.insert(range);

        while self.acks.min() == Some(self.offset - self.unacked_len as u64) {
            let prefix = self.acks.pop_min().unwrap();
            let mut to_advance = (prefix.end - prefix.start) as usize;

            self.unacked_len -= to_advance;
            while to_advance > 0 {
                let front = self
                    .unacked_segments
                    .front_mut()
                    .expect("Expected buffered data");

                if front.len() <= to_advance {
                    to_advance -= front.len();
                    self.unacked_segments.pop_front();

                    if self.unacked_segments.len() * 4 < self.unacked_segments.capacity() {
                        self.unacked_segments.shrink_to_fit();
                    }
                } else {
                    front.advance(to_advance);
                    to_advance = 0;
                }
            }
        }
    }

    pub(super) fn poll_transmit(&mut self, mut max_len: usize) -> (Range<u64>, bool) {
        let mut encode_length = false;

        if let Some(range) = self.retransmits.pop_min() {
            if range.start != 0 {
                max_len -= VarInt::size(unsafe { VarInt::from_u64_unchecked(range.start) });
            }
            if range.end - range.start < max_len as u64 {
                encode_length = true;
                max_len -= 8;
            }

            let end = range.end.min((max_len as u64).saturating_add(range.start));
            if end != range.end {
                self.retransmits.insert(end..range.end);
            }
            return (range.start..end, encode_length);
        }

        if self.unsent != 0 {
            max_len -= VarInt::size(unsafe { VarInt::from_u64_unchecked(self.unsent) });
        }
        if self.offset - self.unsent < max_len as u64 {
            encode_length = true;
            max_len -= 8;
        }

        let end = self
            .offset
            .min((max_len as u64).saturating_add(self.unsent));
        let result = self.unsent..end;
        self.unsent = end;
        (result, encode_length)
    }

    #[verifier::exec_allows_no_decreases_clause]
    pub(super) fn get(&self, offsets: Range<u64>) -> &[u8] {
        let base_offset = self.offset - self.unacked_len as u64;

        let mut segment_offset = base_offset;
        for segment in self.unacked_segments.iter() {
            if offsets.start >= segment_offset
                && offsets.start < segment_offset + segment.len() as u64
            {
                let start = (offsets.start - segment_offset) as usize;
                let end = (offsets.end - segment_offset) as usize;

                return &segment[start..end.min(segment.len())];
            }
            segment_offset += segment.len() as u64;
        }

        &[]
    }
}
}
}
fn main() {}
