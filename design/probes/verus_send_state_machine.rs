// PROBE (design phase): the real `impl Send` minus `write` (script-extracted) with the C11 result tables for finish / reset / try_stop / ack /
// increase_max_data: 14 verified, 0 errors. Needed rewrite R14: bool `x |= e` -> `{ let t = e; x = x || t; }` (Verus has no bitwise-or on bools).

use vstd::prelude::*;
use std::ops::Range;
verus! {
global size_of usize == 8;
pub mod shims {
use super::*;
#[derive(Copy, Clone, PartialEq, Eq)] pub struct VarInt(pub u64);
impl vstd::std_specs::cmp::PartialEqSpecImpl for VarInt { open spec fn obeys_eq_spec() -> bool { true } open spec fn eq_spec(&self, o: &VarInt) -> bool { *self == *o } }
impl From<VarInt> for u64 { fn from(x: VarInt) -> (r: u64) ensures r == x.0 { x.0 } }
impl vstd::std_specs::convert::FromSpecImpl<VarInt> for u64 { open spec fn obeys_from_spec() -> bool { true } open spec fn from_spec(v: VarInt) -> u64 { v.0 } }
#[derive(Copy, Clone)] pub struct StreamId(pub u64);
pub mod frame { use super::*; pub struct StreamMeta { pub id: StreamId, pub offsets: Range<u64>, pub fin: bool } }
/// contract boundary: SendBuffer is verified in its own unit (design/probes/verus_send_buffer_full.rs)
#[verifier::external_body] pub struct SendBuffer { x: u8 }
impl SendBuffer {
    pub uninterp spec fn offset_spec(&self) -> u64;
    pub uninterp spec fn fully_acked_spec(&self) -> bool;
    pub uninterp spec fn ack_pre(&self, r: Range<u64>) -> bool;
    pub uninterp spec fn acked_from(&self, old: SendBuffer, r: Range<u64>) -> bool;
    pub uninterp spec fn unsent_spec(&self) -> bool;
    #[verifier::external_body] pub fn new() -> (r: Self) ensures r.offset_spec() == 0 { unimplemented!() }
    #[verifier::external_body] pub fn ack(&mut self, range: Range<u64>) requires old(self).ack_pre(range) ensures final(self).acked_from(*old(self), range) { unimplemented!() }
    #[verifier::external_body] pub fn is_fully_acked(&self) -> (r: bool) ensures r == self.fully_acked_spec() { unimplemented!() }
    #[verifier::external_body] pub fn offset(&self) -> (r: u64) ensures r == self.offset_spec() { unimplemented!() }
    #[verifier::external_body] pub fn has_unsent_data(&self) -> (r: bool) ensures r == self.unsent_spec() { unimplemented!() }
}
}
pub mod code {
use super::*; use super::shims::*;
pub struct Send {
    pub max_data: u64,
    pub state: SendState,
    pub pending: SendBuffer,
    pub priority: i32,
    pub fin_pending: bool,
    pub connection_blocked: bool,
    pub stop_reason: Option<VarInt>,
}
#[derive(Copy, Clone, Eq, PartialEq)]
pub enum SendState {
    Ready,
    DataSent { finish_acked: bool },
    ResetSent,
}
impl vstd::std_specs::cmp::PartialEqSpecImpl for SendState { open spec fn obeys_eq_spec() -> bool { true } open spec fn eq_spec(&self, o: &SendState) -> bool { *self == *o } }
pub enum FinishError { Stopped(VarInt), ClosedStream }
impl Send {
    pub fn new(max_data: VarInt) -> Box<Self> {
        Box::new(Self {
            max_data: max_data.into(),
            state: SendState::Ready,
            pending: SendBuffer::new(),
            priority: 0,
            fin_pending: false,
            connection_blocked: false,
            stop_reason: None,
        })
    }
    pub fn is_reset(&self) -> (r: bool) ensures r == (self.state == SendState::ResetSent) {
        matches!(self.state, SendState::ResetSent)
    }

    pub fn finish(&mut self) -> (res: Result<(), FinishError>)
        ensures
            final(self).max_data == old(self).max_data, final(self).pending == old(self).pending, final(self).stop_reason == old(self).stop_reason,
            match res {
                Ok(()) => old(self).stop_reason.is_none() && old(self).state == SendState::Ready
                    && final(self).state == (SendState::DataSent { finish_acked: false }) && final(self).fin_pending,
                Err(FinishError::Stopped(c)) => old(self).stop_reason == Some(c) && *final(self) == *old(self),
                Err(FinishError::ClosedStream) => old(self).stop_reason.is_none() && old(self).state != SendState::Ready && *final(self) == *old(self),
            }
    {
        if let Some(error_code) = self.stop_reason {
            Err(FinishError::Stopped(error_code))
        } else if self.state == SendState::Ready {
            self.state = SendState::DataSent {
                finish_acked: false,
            };
            self.fin_pending = true;
            Ok(())
        } else {
            Err(FinishError::ClosedStream)
        }
    }
    pub fn reset(&mut self)
        ensures final(self).state == SendState::ResetSent,
            final(self).max_data == old(self).max_data, final(self).pending == old(self).pending, final(self).stop_reason == old(self).stop_reason, final(self).fin_pending == old(self).fin_pending
    {
        use SendState::*;
        if let DataSent { .. } | Ready = self.state {
            self.state = ResetSent;
        }
    }
    pub fn try_stop(&mut self, error_code: VarInt) -> (r: bool)
        ensures r == old(self).stop_reason.is_none(),
            final(self).stop_reason == (if r { Some(error_code) } else { old(self).stop_reason }),
            final(self).state == old(self).state, final(self).pending == old(self).pending, final(self).max_data == old(self).max_data
    {
        if self.stop_reason.is_none() {
            self.stop_reason = Some(error_code);
            true
        } else {
            false
        }
    }
    pub fn ack(&mut self, frame: frame::StreamMeta) -> (r: bool)
        requires old(self).pending.ack_pre(frame.offsets)
        ensures
            final(self).pending.acked_from(old(self).pending, frame.offsets),
            r <==> (old(self).state is DataSent) && (old(self).state->finish_acked || frame.fin) && final(self).pending.fully_acked_spec(),
            (old(self).state is DataSent) ==> final(self).state == (SendState::DataSent { finish_acked: old(self).state->finish_acked || frame.fin }),
            !(old(self).state is DataSent) ==> final(self).state == old(self).state,
            final(self).stop_reason == old(self).stop_reason, final(self).max_data == old(self).max_data,
    {
        self.pending.ack(frame.offsets);
        match self.state {
            SendState::DataSent {
                ref mut finish_acked,
            } => {
                { let t_r14 = frame.fin; *finish_acked = *finish_acked || t_r14; }
                *finish_acked && self.pending.is_fully_acked()
            }
            _ => false,
        }
    }
    pub fn increase_max_data(&mut self, offset: u64) -> (r: bool)
        ensures
            final(self).max_data == (if offset > old(self).max_data && old(self).state == SendState::Ready { offset } else { old(self).max_data }),
            final(self).max_data >= old(self).max_data,
            r ==> old(self).pending.offset_spec() == old(self).max_data && final(self).max_data > old(self).max_data,
            final(self).state == old(self).state, final(self).pending == old(self).pending,
    {
        if offset <= self.max_data || self.state != SendState::Ready {
            return false;
        }
        let was_blocked = self.pending.offset() == self.max_data;
        self.max_data = offset;
        was_blocked
    }

    pub fn offset(&self) -> u64 {
        self.pending.offset()
    }

    pub fn is_pending(&self) -> bool {
        self.pending.has_unsent_data() || self.fin_pending
    }

    pub fn is_writable(&self) -> (r: bool) ensures r == (self.state == SendState::Ready) {
        matches!(self.state, SendState::Ready)
    }
}
}
}
fn main() {}
