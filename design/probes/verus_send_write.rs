// PROBE (design phase, not framework code). Hand-assembled single-file Verus input used to test feasibility:
// the `mod code`/`mod frame`/`mod coding` parts are verbatim copies of /repo function bodies plus spliced contracts;
// `mod shims` are trusted dependency specs. Run: verus <file> --triggers-mode silent

#![feature(allocator_api)]
use vstd::prelude::*;
verus! {
global size_of usize == 8;
pub mod shims {
use super::*;
#[verifier::external_body]
pub struct Bytes { inner: Vec<u8> }
impl View for Bytes { type V = Seq<u8>; uninterp spec fn view(&self) -> Seq<u8>; }
impl Bytes {
    #[verifier::external_body]
    pub fn new() -> (r: Bytes) ensures r@ == Seq::<u8>::empty() { unimplemented!() }
    #[verifier::external_body]
    pub fn len(&self) -> (r: usize) ensures r == self@.len() { unimplemented!() }
    #[verifier::external_body]
    pub fn is_empty(&self) -> (r: bool) ensures r == (self@.len() == 0) { unimplemented!() }
    #[verifier::external_body]
    pub fn split_to(&mut self, at: usize) -> (r: Bytes) requires at <= old(self)@.len() ensures r@ == old(self)@.take(at as int), final(self)@ == old(self)@.skip(at as int) { unimplemented!() }
    #[verifier::external_body]
    pub fn from(v: Vec<u8>) -> (r: Bytes) ensures r@ == v@ { unimplemented!() }
}
pub assume_specification<T: Clone> [<[T] as std::borrow::ToOwned>::to_owned] (s: &[T]) -> (r: std::vec::Vec<T>)
    ensures r@ == s@;
pub assume_specification [<usize as core::convert::From<bool>>::from] (b: bool) -> (r: usize)
    ensures r == (if b { 1usize } else { 0usize });
#[verifier::external_body]
pub fn mem_take_bytes(b: &mut Bytes) -> (r: Bytes) ensures r@ == old(b)@, final(b)@ == Seq::<u8>::empty() { unimplemented!() }
#[verifier::external_body]
pub fn slice_to_owned(s: &[u8]) -> (r: Vec<u8>) ensures r@ == s@ { unimplemented!() }

#[derive(Copy, Clone)]
pub struct VarInt(pub u64);
/// contract boundary: SendBuffer (proved in its own unit)
pub struct SendBuffer { pub offset: u64, pub written: Ghost<Seq<u8>> }
impl SendBuffer {
    pub closed spec fn wf(&self) -> bool { self.offset == self.written@.len() }
    #[verifier::external_body]
    pub fn write(&mut self, data: Bytes)
        requires old(self).wf(), old(self).offset + data@.len() <= u64::MAX
        ensures final(self).wf(), final(self).written@ == old(self).written@ + data@, final(self).offset == old(self).offset + data@.len()
    { unimplemented!() }
    pub fn offset(&self) -> (r: u64) ensures r == self.offset { self.offset }
}
}
pub mod code {
use super::*; use super::shims::*;

#[derive(Debug, PartialEq, Eq, Clone, Copy)]
pub struct Written { pub bytes: usize, pub chunks: usize }
impl Default for Written { fn default() -> (r: Self) ensures r.bytes == 0, r.chunks == 0 { Written { bytes: 0, chunks: 0 } } }
pub enum WriteError { Blocked, Stopped(VarInt), ClosedStream }
#[derive(PartialEq, Eq, Clone, Copy)]
pub enum SendState { Ready, DataSent { finish_acked: bool }, ResetSent }

pub trait BytesSource {
    spec fn remaining(&self) -> Seq<u8>;
    spec fn chunk_budget(&self) -> nat;
    fn pop_chunk(&mut self, limit: usize) -> (r: (Bytes, usize))
        ensures r.0@.len() <= limit,
            r.1 + final(self).chunk_budget() <= old(self).chunk_budget(),
            old(self).remaining() =~= r.0@ + final(self).remaining(),
            r.0@.len() == 0 ==> (limit == 0 || final(self).remaining().len() == 0);
}

pub struct ByteSlice<'a> { pub data: &'a [u8] }

impl BytesSource for ByteSlice<'_> {
    open spec fn remaining(&self) -> Seq<u8> { self.data@ }
    open spec fn chunk_budget(&self) -> nat { if self.data@.len() > 0 { 1 } else { 0 } }
    fn pop_chunk(&mut self, limit: usize) -> (Bytes, usize) {
        let limit = limit.min(self.data.len());
        if limit == 0 {
            return (Bytes::new(), 0);
        }

        let chunk = Bytes::from(self.data[..limit].to_owned());
        self.data = &self.data[chunk.len()..];

        let chunks_consumed = usize::from(self.data.is_empty());
        (chunk, chunks_consumed)
    }
}

pub struct Send {
    pub max_data: u64,
    pub state: SendState,
    pub pending: SendBuffer,
    pub priority: i32,
    pub fin_pending: bool,
    pub connection_blocked: bool,
    pub stop_reason: Option<VarInt>,
}

impl Send {
    pub(super) fn write<S: BytesSource>(
        &mut self,
        source: &mut S,
        limit: u64,
    ) -> (res: Result<Written, WriteError>)
        requires
            old(self).pending.wf(),
            old(self).pending.offset <= old(self).max_data,
            old(source).chunk_budget() <= usize::MAX,
        ensures
            final(self).pending.wf(),
            final(self).max_data == old(self).max_data,
            final(self).state == old(self).state,
            final(self).pending.offset <= final(self).max_data,
            match res {
                Ok(w) => {
                    &&& old(self).state == SendState::Ready && old(self).stop_reason.is_none()
                    &&& final(self).pending.offset == old(self).pending.offset + w.bytes
                    &&& w.bytes <= limit
                    &&& w.bytes <= old(self).max_data - old(self).pending.offset
                    &&& final(self).pending.written@ =~= old(self).pending.written@ + old(source).remaining().take(w.bytes as int)
                    &&& old(source).remaining() =~= old(source).remaining().take(w.bytes as int) + final(source).remaining()
                },
                Err(WriteError::ClosedStream) => old(self).state != SendState::Ready && final(self).pending == old(self).pending,
                Err(WriteError::Stopped(c)) => old(self).stop_reason == Some(c) && final(self).pending == old(self).pending,
                Err(WriteError::Blocked) => old(self).max_data == old(self).pending.offset && final(self).pending == old(self).pending,
            },
    {
        if !self.is_writable() {
            return Err(WriteError::ClosedStream);
        }
        if let Some(error_code) = self.stop_reason {
            return Err(WriteError::Stopped(error_code));
        }
        let budget = self.max_data - self.pending.offset();
        if budget == 0 {
            return Err(WriteError::Blocked);
        }
        let ghost limit_in = limit;
        let mut limit = limit.min(budget) as usize;

        let mut result = Written::default();
        loop
            invariant
                self.pending.wf(),
                self.max_data == old(self).max_data, self.state == old(self).state,
                self.pending.offset + limit <= self.max_data,
                self.pending.offset == old(self).pending.offset + result.bytes,
                result.bytes + limit <= budget, budget == old(self).max_data - old(self).pending.offset,
                result.bytes + limit <= limit_in,
                result.bytes + source.remaining().len() == old(source).remaining().len(),
                self.pending.written@ =~= old(self).pending.written@ + old(source).remaining().take(result.bytes as int),
                old(source).remaining() =~= old(source).remaining().take(result.bytes as int) + source.remaining(),
                result.chunks + source.chunk_budget() <= old(source).chunk_budget(),
                old(source).chunk_budget() <= usize::MAX,
            decreases limit
        {
            let (chunk, chunks_consumed) = source.pop_chunk(limit);
            result.chunks += chunks_consumed;
            result.bytes += chunk.len();

            if chunk.is_empty() {
                break;
            }

            limit -= chunk.len();
            self.pending.write(chunk);
        }

        Ok(result)
    }
    pub(super) fn is_writable(&self) -> (r: bool)
        ensures r == (self.state == SendState::Ready)
    {
        matches!(self.state, SendState::Ready)
    }
}
}
}
fn main() {}
