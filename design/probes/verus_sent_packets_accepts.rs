// PROBE (design phase): SentPackets::{insert, remove} verbatim are accepted by Verus (needs VecDeque front/get_mut/is_empty specs); contracts not yet written.

#![feature(allocator_api)]
use vstd::prelude::*;
use std::collections::VecDeque;
verus! {
global size_of usize == 8;
pub mod shims {
use super::*;
#[derive(Clone)]
pub struct SentPacket { pub size: u16, pub ack_eliciting: bool }
pub assume_specification<T, A: std::alloc::Allocator> [std::collections::VecDeque::<T, A>::front] (v: &std::collections::VecDeque<T, A>) -> (r: std::option::Option<&T>)
    ensures match r { Some(x) => v@.len() > 0 && *x == v@[0], None => v@.len() == 0 };
pub assume_specification<T, A: std::alloc::Allocator> [std::collections::VecDeque::<T, A>::get_mut] (v: &mut std::collections::VecDeque<T, A>, i: usize) -> (r: std::option::Option<&mut T>)
    ensures match r {
        Some(x) => i < old(v)@.len() && *x == old(v)@[i as int] && final(v)@ == old(v)@.update(i as int, *final(x)),
        None => i >= old(v)@.len() && final(v)@ == old(v)@,
    };
pub assume_specification<T, A: std::alloc::Allocator> [std::collections::VecDeque::<T, A>::is_empty] (v: &std::collections::VecDeque<T, A>) -> (r: bool)
    ensures r == (v@.len() == 0);
}
pub mod code {
use super::*; use super::shims::*;

pub struct SentPackets {
    pub offset: u64,
    pub slots: VecDeque<Option<SentPacket>>,
    pub in_flight: usize,
}

impl SentPackets {
    pub(super) fn remove(&mut self, pn: u64) -> Option<SentPacket> {
        let index = usize::try_from(pn.checked_sub(self.offset)?).ok()?;
        let value = self.slots.get_mut(index)?.take()?;
        if value.size != 0 {
            self.in_flight -= 1;
        }
        // Reclaim leading vacant slots so the buffer tracks the live window.
        while let Some(None) = self.slots.front() {
            self.slots.pop_front();
            self.offset += 1;
        }
        Some(value)
    }
    pub(super) fn insert(&mut self, pn: u64, value: SentPacket) {
        if self.slots.is_empty() {
            self.offset = pn;
        } else {
            assert(pn >= self.offset + self.slots.len() as u64);
        }
        let index = (pn - self.offset) as usize;
        // Pad skipped packet numbers.
        self.slots.resize(index, None);
        if value.size != 0 {
            self.in_flight += 1;
        }
        self.slots.push_back(Some(value));
    }
}
}
}
fn main() {}
