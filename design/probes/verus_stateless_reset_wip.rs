// PROBE (design phase): Endpoint::stateless_reset with opaque Endpoint fields; body verbatim except that the `is_some_and(|last| last + interval > now)` closure
// was hand-expanded for the probe (real extraction uses rule R4 + Add/PartialOrd shims for Instant). 11 verified, 1 open (length fact after fill_bytes).

use vstd::prelude::*;
verus! {
global size_of usize == 8;
pub mod shims {
use super::*;
pub const RESET_TOKEN_SIZE: usize = 16;
pub const MAX_CID_SIZE: usize = 20;
// opaque time
#[derive(Copy, Clone)] #[verifier::external_body] pub struct Instant { t: u64 }
#[derive(Copy, Clone)] #[verifier::external_body] pub struct Duration { d: u64 }
impl Instant { pub uninterp spec fn at(&self) -> nat; }
impl Duration { pub uninterp spec fn len(&self) -> nat; }
#[verifier::external_body]
pub fn instant_add(a: Instant, d: Duration) -> (r: Instant) ensures r.at() == a.at() + d.len() { unimplemented!() }
#[verifier::external_body]
pub fn instant_gt(a: Instant, b: Instant) -> (r: bool) ensures r == (a.at() > b.at()) { unimplemented!() }
#[derive(Copy, Clone)] pub struct ConnectionId { pub len: u8, pub bytes: [u8; 20] }
#[derive(Copy, Clone)] pub struct SocketAddr { pub x: u64 }
#[derive(Copy, Clone)] pub struct IpAddr { pub x: u64 }
#[derive(Copy, Clone)] pub struct FourTuple { pub remote: SocketAddr, pub local_ip: Option<IpAddr> }
pub struct Transmit { pub destination: SocketAddr, pub ecn: Option<u8>, pub size: usize, pub segment_size: Option<usize>, pub src_ip: Option<IpAddr> }
#[verifier::external_body] pub struct StdRng { x: u64 }
impl StdRng {
    #[verifier::external_body]
    pub fn random_range(&mut self, r: core::ops::Range<usize>) -> (x: usize) requires r.start < r.end ensures r.start <= x < r.end { unimplemented!() }
    #[verifier::external_body]
    pub fn fill_bytes(&mut self, dst: &mut [u8]) ensures final(dst)@.len() == old(dst)@.len() { unimplemented!() }
}
#[verifier::external_body] pub struct HmacKeyBox { x: u64 }
pub struct ResetToken(pub [u8; 16]);
impl ResetToken {
    #[verifier::external_body]
    pub fn new(key: &HmacKeyBox, id: ConnectionId) -> (r: Self) { unimplemented!() }
    pub fn as_slice(&self) -> (r: &[u8]) ensures r@.len() == 16 { self.0.as_slice() }
}
pub struct EndpointConfig { pub reset_key: HmacKeyBox, pub min_reset_interval: Duration }
#[verifier::external_body] pub struct ConnectionIndex { x: u64 }
#[verifier::external_body] #[verifier::reject_recursive_types(T)] pub struct Slab<T> { x: core::marker::PhantomData<T> }
}
pub mod code {
use super::*; use super::shims::*;
pub struct Endpoint {
    pub rng: StdRng,
    pub index: ConnectionIndex,
    pub connections: Slab<u64>,
    pub config: EndpointConfig,
    pub allow_mtud: bool,
    pub last_stateless_reset: Option<Instant>,
    pub all_incoming_buffers_total_bytes: u64,
}
impl Endpoint {
    fn stateless_reset(
        &mut self,
        now: Instant,
        inciting_dgram_len: usize,
        addresses: FourTuple,
        dst_cid: ConnectionId,
        buf: &mut Vec<u8>,
    ) -> (res: Option<Transmit>)
        requires old(buf)@.len() == 0,
        ensures match res {
            Some(t) => t.size == final(buf)@.len() && t.size < inciting_dgram_len && t.size >= 21
                && final(self).last_stateless_reset.is_some() && final(self).last_stateless_reset.unwrap().at() == now.at(),
            None => final(buf)@.len() == 0 && final(self).last_stateless_reset == old(self).last_stateless_reset,
        },
        old(self).last_stateless_reset.is_some() && old(self).last_stateless_reset.unwrap().at() + old(self).config.min_reset_interval.len() > now.at() ==> res.is_none(),
        inciting_dgram_len <= 21 ==> res.is_none(),
    {
        if match self.last_stateless_reset { Some(last) => instant_gt(instant_add(last, self.config.min_reset_interval), now), None => false }
        {
            return None;
        }

        /// Minimum amount of padding for the stateless reset to look like a short-header packet
        const MIN_PADDING_LEN: usize = 5;

        let max_padding_len = match inciting_dgram_len.checked_sub(RESET_TOKEN_SIZE) {
            Some(headroom) if headroom > MIN_PADDING_LEN => headroom - 1,
            _ => {
                return None;
            }
        };

        self.last_stateless_reset = Some(now);
        // Resets with at least this much padding can't possibly be distinguished from real packets
        const IDEAL_MIN_PADDING_LEN: usize = MIN_PADDING_LEN + MAX_CID_SIZE;
        let padding_len = if max_padding_len <= IDEAL_MIN_PADDING_LEN {
            max_padding_len
        } else {
            self.rng
                .random_range(IDEAL_MIN_PADDING_LEN..max_padding_len)
        };
        buf.reserve(padding_len + RESET_TOKEN_SIZE);
        buf.resize(padding_len, 0);
        self.rng.fill_bytes(&mut buf[0..padding_len]);
        buf[0] = 0b0100_0000 | (buf[0] >> 2);
        buf.extend_from_slice(ResetToken::new(&self.config.reset_key, dst_cid).as_slice());

        assert(buf.len() < inciting_dgram_len);

        Some(Transmit {
            destination: addresses.remote,
            ecn: None,
            size: buf.len(),
            segment_size: None,
            src_ip: addresses.local_ip,
        })
    }
}
}
}
fn main() {}
