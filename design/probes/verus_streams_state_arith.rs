// PROBE (design phase, not framework code). Hand-assembled single-file Verus input used to test feasibility:
// the `mod code`/`mod frame`/`mod coding` parts are verbatim copies of /repo function bodies plus spliced contracts;
// `mod shims` are trusted dependency specs. Run: verus <file> --triggers-mode silent

#![feature(allocator_api)]
use vstd::prelude::*;
use std::collections::VecDeque;
verus! {
global size_of usize == 8;
pub mod shims {
use super::*;
// opaque stand-ins for field types no verified function touches
#[verifier::external_body] #[verifier::reject_recursive_types(K)] #[verifier::reject_recursive_types(V)] pub struct FxHashMap<K, V> { k: core::marker::PhantomData<(K, V)> }
#[verifier::external_body] pub struct PendingStreamsQueue { x: u8 }
#[verifier::external_body] pub struct StreamRecv { x: u8 }
#[verifier::external_body] pub struct Send { x: u8 }
#[verifier::external_body] pub struct Retransmits { pub max_stream_id: [bool; 2] }
#[derive(Copy, Clone, PartialEq, Eq)] pub enum Side { Client = 0, Server = 1 }
#[derive(Copy, Clone, PartialEq, Eq)] pub enum Dir { Bi = 0, Uni = 1 }
impl vstd::std_specs::cmp::PartialEqSpecImpl for Side { open spec fn obeys_eq_spec() -> bool { true } open spec fn eq_spec(&self, other: &Side) -> bool { *self == *other } }
impl vstd::std_specs::cmp::PartialEqSpecImpl for Dir { open spec fn obeys_eq_spec() -> bool { true } open spec fn eq_spec(&self, other: &Dir) -> bool { *self == *other } }
#[derive(Copy, Clone, PartialEq, Eq)] pub struct StreamId(pub u64);
impl StreamId {
    pub open spec fn spec_initiator(self) -> Side { if self.0 & 0x1 == 0 { Side::Client } else { Side::Server } }
    pub open spec fn spec_dir(self) -> Dir { if self.0 & 0x2 == 0 { Dir::Bi } else { Dir::Uni } }
    pub open spec fn spec_index(self) -> u64 { self.0 >> 2 }
    #[verifier::when_used_as_spec(spec_initiator)]
    pub fn initiator(self) -> (r: Side) ensures r == (if self.0 & 0x1 == 0 { Side::Client } else { Side::Server }) {
        if self.0 & 0x1 == 0 { Side::Client } else { Side::Server }
    }
    #[verifier::when_used_as_spec(spec_dir)]
    pub fn dir(self) -> (r: Dir) ensures r == (if self.0 & 0x2 == 0 { Dir::Bi } else { Dir::Uni }) { if self.0 & 0x2 == 0 { Dir::Bi } else { Dir::Uni } }
    #[verifier::when_used_as_spec(spec_index)]
    pub fn index(self) -> (r: u64) ensures r == self.0 >> 2 { self.0 >> 2 }
}
#[derive(Copy, Clone, PartialEq, Eq)] pub struct VarInt(pub u64);
impl VarInt {
    pub const MAX: Self = Self(4611686018427387903);
    pub const fn into_inner(self) -> (r: u64) ensures r == self.0 { self.0 }
}
pub enum StreamEvent { Opened { dir: Dir }, Readable { id: StreamId }, Writable { id: StreamId }, Finished { id: StreamId }, Stopped { id: StreamId, error_code: VarInt }, Available { dir: Dir } }
#[derive(Copy, Clone, PartialEq, Eq)] pub enum Code { STREAM_STATE_ERROR, STREAM_LIMIT_ERROR, FRAME_ENCODING_ERROR }
pub struct TransportError { pub code: Code }
impl TransportError {
    #[allow(non_snake_case)] pub fn STREAM_STATE_ERROR(_r: &'static str) -> (r: Self) ensures r.code == Code::STREAM_STATE_ERROR { TransportError { code: Code::STREAM_STATE_ERROR } }
    #[allow(non_snake_case)] pub fn STREAM_LIMIT_ERROR(_r: &'static str) -> (r: Self) ensures r.code == Code::STREAM_LIMIT_ERROR { TransportError { code: Code::STREAM_LIMIT_ERROR } }
    #[allow(non_snake_case)] pub fn FRAME_ENCODING_ERROR(_r: &'static str) -> (r: Self) ensures r.code == Code::FRAME_ENCODING_ERROR { TransportError { code: Code::FRAME_ENCODING_ERROR } }
}
pub struct ShouldTransmit(pub bool);
pub const MAX_STREAM_COUNT: u64 = 1 << 60;
}
pub mod code {
use super::*; use super::shims::*;

pub struct StreamsState {
    pub side: Side,
    pub send: FxHashMap<StreamId, Option<Box<Send>>>,
    pub recv: FxHashMap<StreamId, Option<StreamRecv>>,
    pub free_recv: Vec<StreamRecv>,
    pub next: [u64; 2],
    pub max: [u64; 2],
    pub max_remote: [u64; 2],
    pub sent_max_remote: [u64; 2],
    pub allocated_remote_count: [u64; 2],
    pub max_concurrent_remote_count: [u64; 2],
    pub flow_control_adjusted: bool,
    pub next_remote: [u64; 2],
    pub opened: [bool; 2],
    pub next_reported_remote: [u64; 2],
    pub send_streams: usize,
    pub pending: PendingStreamsQueue,
    pub events: VecDeque<StreamEvent>,
    pub connection_blocked: Vec<StreamId>,
    pub max_data: u64,
    pub receive_window: u64,
    pub local_max_data: u64,
    pub sent_max_data: VarInt,
    pub data_sent: u64,
    pub data_recvd: u64,
    pub unacked_data: u64,
    pub send_window: u64,
    pub stream_receive_window: u64,
    pub initial_max_stream_data_uni: VarInt,
    pub initial_max_stream_data_bidi_local: VarInt,
    pub initial_max_stream_data_bidi_remote: VarInt,
    pub receive_window_shrink_debt: u64,
    pub streams_blocked: [bool; 2],
}

impl StreamsState {
    pub(crate) fn write_limit(&self) -> (r: u64)
        requires self.data_sent <= self.max_data
        ensures r == (if self.max_data - self.data_sent <= (if self.send_window >= self.unacked_data { self.send_window - self.unacked_data } else { 0 }) { self.max_data - self.data_sent } else { (if self.send_window >= self.unacked_data { self.send_window - self.unacked_data } else { 0 }) as int })
    {
        (self.max_data - self.data_sent)
            // `send_window` can be set after construction to something *less* than `unacked_data`
            .min(self.send_window.saturating_sub(self.unacked_data))
    }

    fn validate_receive_id(&mut self, id: StreamId) -> (res: Result<(), TransportError>)
        ensures *final(self) == *old(self),
            match res {
                Ok(()) => if old(self).side == id.initiator() { id.dir() == Dir::Bi && id.index() < old(self).next[0] } else { id.index() < old(self).max_remote[if id.dir() == Dir::Bi { 0int } else { 1int }] },
                Err(e) => if old(self).side == id.initiator() { e.code == Code::STREAM_STATE_ERROR } else { e.code == Code::STREAM_LIMIT_ERROR && id.index() >= old(self).max_remote[if id.dir() == Dir::Bi { 0int } else { 1int }] },
            }
    {
        if self.side == id.initiator() {
            match id.dir() {
                Dir::Uni => {
                    return Err(TransportError::STREAM_STATE_ERROR(
                        "illegal operation on send-only stream",
                    ));
                }
                Dir::Bi if id.index() >= self.next[Dir::Bi as usize] => {
                    return Err(TransportError::STREAM_STATE_ERROR(
                        "operation on unopened stream",
                    ));
                }
                Dir::Bi => {}
            };
        } else {
            let limit = self.max_remote[id.dir() as usize];
            if id.index() >= limit {
                return Err(TransportError::STREAM_LIMIT_ERROR(""));
            }
        }
        Ok(())
    }

    pub(super) fn add_read_credits(&mut self, credits: u64) -> (r: ShouldTransmit)
        requires old(self).sent_max_data.0 <= old(self).local_max_data || old(self).local_max_data > VarInt::MAX.0,
        ensures
            final(self).local_max_data >= old(self).local_max_data,
            final(self).local_max_data - old(self).local_max_data <= credits,
            credits <= old(self).receive_window_shrink_debt ==> final(self).local_max_data == old(self).local_max_data && final(self).receive_window_shrink_debt == old(self).receive_window_shrink_debt - credits,
            final(self).data_recvd == old(self).data_recvd, final(self).sent_max_data == old(self).sent_max_data,
            r.0 ==> final(self).local_max_data <= VarInt::MAX.0 && final(self).local_max_data - final(self).sent_max_data.0 >= final(self).receive_window / 8,
    {
        if credits > self.receive_window_shrink_debt {
            let net_credits = credits - self.receive_window_shrink_debt;
            self.local_max_data = self.local_max_data.saturating_add(net_credits);
            self.receive_window_shrink_debt = 0;
        } else {
            self.receive_window_shrink_debt -= credits;
        }

        if self.local_max_data > VarInt::MAX.into_inner() {
            return ShouldTransmit(false);
        }

        let diff = self.local_max_data - self.sent_max_data.into_inner();
        ShouldTransmit(diff >= (self.receive_window / 8))
    }

    pub(crate) fn received_max_streams(
        &mut self,
        dir: Dir,
        count: u64,
    ) -> (res: Result<(), TransportError>)
        ensures
            res.is_err() <==> count > MAX_STREAM_COUNT,
            res.is_err() ==> *final(self) == *old(self),
            res.is_ok() ==> final(self).max[dir as int] == (if count > old(self).max[dir as int] { count } else { old(self).max[dir as int] })
                && final(self).max[1 - dir as int] == old(self).max[1 - dir as int],
    {
        if count > MAX_STREAM_COUNT {
            return Err(TransportError::FRAME_ENCODING_ERROR(
                "unrepresentable stream limit",
            ));
        }

        let current = &mut self.max[dir as usize];
        if count > *current {
            *current = count;
            self.streams_blocked[dir as usize] = false;
            self.events.push_back(StreamEvent::Available { dir });
        }

        Ok(())
    }
}
}
}
fn main() {}
