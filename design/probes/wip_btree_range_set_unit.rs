//! unit: btree_range_set -- RangeSet (BTreeMap start -> end of disjoint, non-adjacent ranges): insert computes exactly set union and keeps the representation invariant; min / pop_min return the smallest range
//! props: C01
//! trusted: RangeSet::{pred, succ} (BTreeMap::range(..).next_back() / .next(): greatest key <= x / least key > x) and BTreeMap::first_key_value as stated; vstd's BTreeMap insert/remove/is_empty over a Map view
#![feature(const_destruct)]
#![allow(unused_imports, dead_code, non_camel_case_types, non_snake_case, unused_variables, unused_mut, unused_assignments)]
use vstd::prelude::*;
use std::collections::BTreeMap;
use std::ops::Range;
use std::cmp;
use vstd::std_specs::cmp::OrdSpec;
verus! {
global size_of usize == 8;
pub mod shims {
use super::*;
pub assume_specification<T> [std::cmp::max] (a: T, b: T) -> (r: T)
    where T: std::cmp::Ord + std::marker::Destruct,
    ensures (a.cmp_spec(&b) == core::cmp::Ordering::Greater) ==> r == a, (a.cmp_spec(&b) != core::cmp::Ordering::Greater) ==> r == b;
pub uninterp spec fn range_is_empty_spec<Idx>(r: std::ops::Range<Idx>) -> bool;
#[verifier::external_body]
pub broadcast proof fn axiom_range_is_empty_u64(r: std::ops::Range<u64>)
    ensures #[trigger] range_is_empty_spec(r) == !(r.start < r.end) {}
pub assume_specification<Idx> [std::ops::Range::<Idx>::is_empty] (r: &std::ops::Range<Idx>) -> (b: bool) where Idx: std::cmp::PartialOrd + std::cmp::PartialOrd,
    ensures b == range_is_empty_spec(*r);
}
pub mod spec {
use super::*;
pub type M = Map<u64, u64>;
/// v is covered by the range starting at key s
pub open spec fn covers(m: M, s: u64, v: u64) -> bool { m.contains_key(s) && s <= v < m[s] }
pub open spec fn contains(m: M, v: u64) -> bool { exists|s: u64| covers(m, s, v) }
/// representation invariant: every range non-empty; distinct ranges are disjoint and not adjacent
pub open spec fn wf(m: M) -> bool {
    &&& forall|s: u64| m.contains_key(s) ==> s < #[trigger] m[s]
    &&& forall|s1: u64, s2: u64| m.contains_key(s1) && m.contains_key(s2) && s1 < s2 ==> (#[trigger] m[s1]) < s2 + 0 * (#[trigger] m[s2])
}
pub open spec fn inr(x: Range<u64>, v: u64) -> bool { x.start <= v < x.end }
}
pub mod code {
use super::*; use super::shims::*; use super::spec::*;
broadcast use axiom_range_is_empty_u64;
//@ extract quinn-proto/src/range_set/btree_range_set.rs :: struct RangeSet
//@ derive
//@ end
impl RangeSet {
    /// trusted contract of the private helper (BTreeMap::range((Included(0), Included(x))).next_back()): the entry with the greatest key <= x
    #[verifier::external_body]
    fn pred(&self, x: u64) -> (r: Option<(u64, u64)>)
        ensures match r {
            Some((s, e)) => self.0@.contains_key(s) && self.0@[s] == e && s <= x && forall|k: u64| self.0@.contains_key(k) && k <= x ==> k <= s,
            None => forall|k: u64| self.0@.contains_key(k) ==> k > x,
        }
    { unimplemented!() }
    /// trusted contract of the private helper (BTreeMap::range((Excluded(x), Included(u64::MAX))).next()): the entry with the least key > x
    #[verifier::external_body]
    fn succ(&self, x: u64) -> (r: Option<(u64, u64)>)
        ensures match r {
            Some((s, e)) => self.0@.contains_key(s) && self.0@[s] == e && s > x && forall|k: u64| self.0@.contains_key(k) && k > x ==> k >= s,
            None => forall|k: u64| self.0@.contains_key(k) ==> k <= x,
        }
    { unimplemented!() }
//@ extract quinn-proto/src/range_set/btree_range_set.rs :: impl RangeSet::fn is_empty
//@ ret r
//@ contract
        requires wf(self.0@), self.0@.dom().finite()
        ensures r == (forall|v: u64| !contains(self.0@, v))
//@ at-start
        proof {
            if self.0@.len() != 0 { let k = choose|k: u64| self.0@.dom().contains(k); assert(covers(self.0@, k, k)); }
            else { assert(self.0@.dom() =~= Set::<u64>::empty()); }
        }
//@ end
//@ extract quinn-proto/src/range_set/btree_range_set.rs :: impl RangeSet::fn insert
//@ ret res
//@ contract
        requires wf(old(self).0@),
        ensures wf(final(self).0@),
            // exactly set union
            forall|v: u64| contains(final(self).0@, v) <==> (contains(old(self).0@, v) || inr(x, v)),
            // the result says whether anything was added
            res <==> exists|v: u64| inr(x, v) && !contains(old(self).0@, v),
//@ at-start
        let ghost x0 = x;
        let ghost m0 = self.0@;
//@ before if let Some((start, end)) = self.pred(x.start)
        // a value of x0 that is not yet in the set (used for the result on the `true` paths)
        let ghost mut fresh: u64 = x.start;
//@ before return false; #1
                proof { assert forall|v: u64| inr(x0, v) implies contains(m0, v) by { assert(covers(m0, start, v)); } }
//@ after self.0.remove(&start);
                proof {
                    fresh = end;
                    assert(!contains(m0, end)) by {
                        if contains(m0, end) { let s2 = choose|s2: u64| covers(m0, s2, end); if s2 < start { } else if s2 > start { } }
                    }
                }
//@ before while let Some((next_start, next_end)) = self.succ(x.start)
        let ghost mut lo: int = -1;
        proof {
            assert(!contains(m0, fresh) && inr(x0, fresh)) by {
                if fresh == x0.start && contains(m0, fresh) { let s2 = choose|s2: u64| covers(m0, s2, fresh); }
            }
            assert forall|v: u64| (contains(self.0@, v) || inr(x, v)) <==> (contains(m0, v) || inr(x0, v)) by {
                if contains(self.0@, v) { let s2 = choose|s2: u64| covers(self.0@, s2, v); assert(covers(m0, s2, v)); }
                if contains(m0, v) && !inr(x, v) { let s2 = choose|s2: u64| covers(m0, s2, v); assert(covers(self.0@, s2, v)); }
            }
        }
//@ loop 0
            invariant
                wf(self.0@), wf(m0),
                x.start < x.end, x.start <= x0.start, x.end >= x0.end,
                forall|k: u64| self.0@.contains_key(k) ==> m0.contains_key(k) && #[trigger] self.0@[k] == m0[k],
                forall|k: u64| #[trigger] self.0@.contains_key(k) && k <= x.start ==> self.0@[k] < x.start,
                forall|k: u64| #[trigger] self.0@.contains_key(k) && k > x.start ==> k > lo,
                forall|v: u64| (contains(self.0@, v) || inr(x, v)) <==> (contains(m0, v) || inr(x0, v)),
                !contains(m0, fresh) && inr(x0, fresh),
                lo < u64::MAX,
            ensures
                wf(self.0@), wf(m0),
                x.start < x.end,
                forall|k: u64| #[trigger] self.0@.contains_key(k) && k <= x.start ==> self.0@[k] < x.start,
                forall|k: u64| #[trigger] self.0@.contains_key(k) && k > x.start ==> k > x.end,
                forall|v: u64| (contains(self.0@, v) || inr(x, v)) <==> (contains(m0, v) || inr(x0, v)),
                !contains(m0, fresh) && inr(x0, fresh),
            decreases u64::MAX - lo
//@ loop-start 0
            let ghost m_before = self.0@;
            let ghost x_before = x;
//@ after x.end = cmp::max(next_end, x.end);
            proof {
                lo = next_start as int;
                assert forall|v: u64| (contains(self.0@, v) || inr(x, v)) <==> (contains(m0, v) || inr(x0, v)) by {
                    if contains(self.0@, v) { let s2 = choose|s2: u64| covers(self.0@, s2, v); assert(covers(m_before, s2, v)); }
                    if contains(m_before, v) && !inr(x, v) { let s2 = choose|s2: u64| covers(m_before, s2, v); assert(s2 != next_start); assert(covers(self.0@, s2, v)); }
                    if inr(x, v) && !inr(x_before, v) { assert(covers(m_before, next_start, v)); }
                }
            }
//@ before true
        proof {
            let mf = self.0@;
            let m = m_pre_insert;
            assert forall|v: u64| contains(mf, v) <==> (contains(m, v) || inr(x, v)) by {
                if contains(mf, v) { let s2 = choose|s2: u64| covers(mf, s2, v); if s2 != x.start { assert(covers(m, s2, v)); } }
                if contains(m, v) { let s2 = choose|s2: u64| covers(m, s2, v); assert(s2 != x.start); assert(covers(mf, s2, v)); }
                if inr(x, v) { assert(covers(mf, x.start, v)); }
            }
        }
//@ before self.0.insert(x.start, x.end);
        let ghost m_pre_insert = self.0@;
//@ end
}
}
}
fn main() {}
