// Demonstration for finding C01/empty-frame-corrupts-received-set (appended as a child module of
// quinn-proto/src/connection/assembler.rs). Reported by a seeding sub-agent while probing the unchanged code.
// Unordered mode. Bytes 12..14 arrive and are read. An empty, non-FIN STREAM frame at offset 10 (legal on the wire) arrives in the
// gap: RangeSet::replace(10..10) stores the empty range (10,10). A retransmission covering 5..15 then arrives: Replace::next stops
// at the empty entry ("no overlap with it or any later range"), so the already delivered bytes 12..14 are buffered and handed to the
// application a second time. Property C01: no byte is ever duplicated; unordered reads yield non-overlapping chunks.
#[cfg(test)]
mod verif_demo_empty {
    use super::*;

    #[test]
    fn verif_demo_empty_frame_corrupts_received_set() {
        let data: Vec<u8> = (0u8..15).collect();
        let mut x = Assembler::new();
        x.ensure_ordering(false).unwrap();
        x.insert(12, Bytes::copy_from_slice(&data[12..14]), 2).unwrap();
        let mut delivered = vec![false; 15];
        let c = x.read(usize::MAX, false).expect("first chunk");
        for i in 0..c.bytes.len() { delivered[c.offset as usize + i] = true; }
        x.insert(10, Bytes::new(), 0).unwrap();
        x.insert(5, Bytes::copy_from_slice(&data[5..15]), 10).unwrap();
        while let Some(c) = x.read(usize::MAX, false) {
            println!("unordered chunk: offset {} len {}", c.offset, c.bytes.len());
            for i in 0..c.bytes.len() {
                let k = c.offset as usize + i;
                assert!(!delivered[k], "stream offset {} handed to the application twice (chunk at {} len {})", k, c.offset, c.bytes.len());
                delivered[k] = true;
            }
        }
    }
}
