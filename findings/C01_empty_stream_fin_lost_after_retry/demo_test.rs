// Demonstration (appended to quinn-proto/src/connection/streams/state.rs): a Retry discards every 0-RTT packet, so everything sent
// in 0-RTT has to go out again. The FIN of a stream finished without data is skipped by retransmit_all_for_0rtt, and since the
// packet record is gone no loss detection will ever resend it: the peer never learns of the stream or its end.
#[cfg(test)]
mod verif_demo_retry_fin_only_stream {
    use super::*;
    use crate::{SendStream, connection::State as ConnState, connection::Streams};

    #[test]
    fn verif_demo_fin_of_empty_stream_is_retransmitted_after_retry() {
        let mut client = StreamsState::new(Side::Client, 128u32.into(), 128u32.into(), 1024 * 1024, (1024 * 1024u32).into(), (1024 * 1024u32).into());
        client.set_params(&TransportParameters {
            initial_max_streams_uni: 8u32.into(),
            initial_max_data: 1000u32.into(),
            initial_max_stream_data_uni: 1000u32.into(),
            ..TransportParameters::default()
        });
        let (mut pending, state) = (Retransmits::default(), ConnState::Established);
        // stream A carries three bytes and is finished; stream B is finished without data
        let a = Streams { state: &mut client, conn_state: &state }.open(Dir::Uni).unwrap();
        let b = Streams { state: &mut client, conn_state: &state }.open(Dir::Uni).unwrap();
        let mut sa = SendStream { id: a, state: &mut client, pending: &mut pending, conn_state: &state };
        sa.write(b"abc").unwrap();
        sa.finish().unwrap();
        let mut sb = SendStream { id: b, state: &mut client, pending: &mut pending, conn_state: &state };
        sb.finish().unwrap();
        // both go out in a 0-RTT packet
        let mut buf = Vec::new();
        let sent = client.write_stream_frames(&mut buf, 1200, true);
        assert!(sent.iter().any(|m| m.id == a && m.fin && m.offsets == (0..3)));
        assert!(sent.iter().any(|m| m.id == b && m.fin && m.offsets == (0..0)));
        // the server answers with a Retry
        client.retransmit_all_for_0rtt();
        let mut buf = Vec::new();
        let resent = client.write_stream_frames(&mut buf, 1200, true);
        assert!(resent.iter().any(|m| m.id == a && m.fin && m.offsets == (0..3)), "stream with data is retransmitted after the Retry");
        assert!(resent.iter().any(|m| m.id == b && m.fin), "the FIN of the empty stream must be retransmitted: resent = {resent:?}");
    }
}
