// Demonstration for finding C01/unordered-switch-redelivers-consumed-bytes (appended as a child module of
// quinn-proto/src/connection/assembler.rs).
// Two overlapping STREAM frames [0,10) and [5,15) are buffered (a retransmission with different boundaries). The application
// reads 10 bytes in order, then switches to unordered reads (ordered -> unordered is the legal direction). The chunk it then
// gets must not contain any byte it was already given: property C01 says no byte is ever duplicated and unordered reads yield
// non-overlapping chunks.
#[cfg(test)]
mod verif_demo {
    use super::*;

    #[test]
    fn verif_demo_unordered_switch_redelivers_consumed_bytes() {
        let data: Vec<u8> = (0u8..15).collect();
        let mut x = Assembler::new();
        x.insert(0, Bytes::copy_from_slice(&data[0..10]), 10).unwrap();
        x.insert(5, Bytes::copy_from_slice(&data[5..15]), 10).unwrap();
        x.ensure_ordering(true).unwrap();
        let first = x.read(usize::MAX, true).expect("ordered chunk");
        assert_eq!((first.offset, first.bytes.len()), (0, 10));
        let mut delivered = vec![false; 15];
        for i in 0..10 { delivered[i] = true; }
        x.ensure_ordering(false).unwrap();
        let mut total = 10u64;
        while let Some(c) = x.read(usize::MAX, false) {
            println!("unordered chunk: offset {} len {}", c.offset, c.bytes.len());
            total += c.bytes.len() as u64;
            for i in 0..c.bytes.len() {
                let k = c.offset as usize + i;
                assert!(!delivered[k], "stream offset {} handed to the application twice (chunk at {} len {})", k, c.offset, c.bytes.len());
                delivered[k] = true;
            }
        }
        assert_eq!(total, 15, "bytes_read counts {} bytes for a 15-byte stream", x.bytes_read());
    }
}
