// Demonstration for finding C03/ack-delay-clamp-panic (appended as a child module of quinn-proto/src/connection/ack_frequency.rs).
// A peer whose transport parameters pass validation (max_ack_delay = 14680 ms, min_ack_delay = 6016512 us <= 14680000 us) makes
// `candidate_max_ack_delay` call Duration::clamp(min, max) with min > max = max(rtt, 25 ms): Ord::clamp panics.
#[cfg(test)]
mod verif_demo {
    use super::*;

    #[test]
    fn verif_demo_candidate_max_ack_delay_peer_min_above_rtt() {
        let st = AckFrequencyState::new(Duration::from_millis(25));
        let rtt = Duration::from_micros(33_407);
        let cfg = AckFrequencyConfig::default();
        let mut p = TransportParameters::default();
        p.max_ack_delay = VarInt::from_u32(14_680);
        p.min_ack_delay = Some(VarInt::from_u32(6_016_512));
        let d = st.candidate_max_ack_delay(rtt, &cfg, &p);
        assert!(d >= Duration::from_micros(6_016_512));
    }
}
