// Demonstration (appended to quinn-proto/src/packet.rs): PacketNumber::expand omits the RFC 9000 A.3 guard
// `candidate_pn < (1 << 62) - pn_win`, so near the end of the packet-number space a truncated number expands past 2^62 - and the
// next ACK naming it panics in VarInt::from_u64(..).unwrap().
#[cfg(test)]
mod verif_demo_pn_expand_bound {
    use super::*;

    #[test]
    fn verif_demo_expanded_packet_number_stays_in_the_number_space() {
        let expected = (1u64 << 62) - 1; // largest received 2^62 - 2
        let got = PacketNumber::U32(5).expand(expected);
        assert!(got < (1u64 << 62), "expanded to {got:#x}, outside the packet-number space");
    }
}
