// Demonstration (appended to quinn-proto/src/connection/cid_state.rs): RETIRE_CONNECTION_ID for the next, never issued
// sequence number is accepted (RFC 9000 19.16: PROTOCOL_VIOLATION).
#[cfg(test)]
mod verif_demo_retire_unissued {
    use super::*;

    #[test]
    fn verif_demo_retiring_next_unissued_sequence_is_rejected() {
        let mut state = CidState::new(8, None, Instant::now(), 1);
        // only CID 0 has been issued
        assert!(state.on_cid_retirement(2, 5).is_err());
        assert!(state.on_cid_retirement(1, 5).is_err(), "RETIRE_CONNECTION_ID for a sequence number that was never issued was accepted");
        assert!(state.on_cid_retirement(0, 5).is_ok());
    }
}
