// Demonstration (appended to quinn-proto/src/endpoint.rs): with min_reset_interval(Duration::MAX) the second datagram that would
// trigger a stateless reset panics the endpoint (`Instant + Duration` overflow) instead of being ignored.
#[cfg(test)]
mod verif_demo_stateless_reset_interval {
    use rustls::pki_types::PrivateKeyDer;

    use super::*;
    use crate::crypto::rustls::QuicServerConfig;

    #[test]
    fn verif_demo_at_most_one_stateless_reset_even_for_a_huge_interval() {
        let ck = rcgen::generate_simple_self_signed(vec!["localhost".into()]).unwrap();
        let key = PrivateKeyDer::Pkcs8(ck.signing_key.serialize_der().into());
        let crypto: QuicServerConfig = QuicServerConfig::inner(vec![ck.cert.der().clone()], key).unwrap().try_into().unwrap();
        let mut config = EndpointConfig::default();
        config.min_reset_interval(Duration::MAX);
        let mut endpoint = Endpoint::new(Arc::new(config), Some(Arc::new(ServerConfig::with_crypto(Arc::new(crypto)))), true);
        // a short-header datagram for a CID this endpoint could have issued but no longer knows
        let cid = endpoint.local_cid_generator.generate_cid();
        let mut datagram = vec![0x40u8];
        datagram.extend_from_slice(&cid);
        datagram.resize(100, 0xAB);
        let t0 = Instant::now();
        let remote: SocketAddr = "192.0.2.7:7".parse().unwrap();
        let mut buf = Vec::new();
        let first = endpoint.handle(t0, remote, None, None, datagram[..].into(), &mut buf);
        assert!(matches!(first, Some(DatagramEvent::Response(_))));
        // one second later the same datagram arrives again: inside the interval, nothing may be sent - and the endpoint must survive
        let mut buf = Vec::new();
        let second = endpoint.handle(t0 + Duration::from_secs(1), remote, None, None, datagram[..].into(), &mut buf);
        assert!(second.is_none(), "a second stateless reset was sent within min_reset_interval");
    }
}
