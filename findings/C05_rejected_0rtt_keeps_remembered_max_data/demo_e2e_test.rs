// End-to-end demonstration for finding C05/rejected-0rtt-keeps-remembered-max-data (appended as a child module of
// quinn-proto/src/tests/mod.rs; modelled on the existing `zero_rtt_rejection` test).
// First connection: the server grants a large connection window. The server is then reconfigured with a 1000-byte connection
// window, and the client resumes with a changed ALPN so that the server rejects 0-RTT. After the handshake the client writes 5000
// bytes: it must stop at the 1000 bytes the server granted. With the remembered limit still in force it sends past it and the
// server kills the connection with FLOW_CONTROL_ERROR.
#[cfg(test)]
mod verif_demo_0rtt_e2e {
    use super::*;

    #[test]
    fn verif_demo_rejected_0rtt_overruns_new_connection_window() {
        let _guard = subscribe();
        let server_config = ServerConfig::with_crypto(Arc::new(server_crypto_with_alpn(vec!["foo".into(), "bar".into()])));
        let mut pair = Pair::new(Arc::new(EndpointConfig::default()), server_config);
        let mut client_crypto = Arc::new(client_crypto_with_alpn(vec!["foo".into()]));
        let client_config = ClientConfig::new(client_crypto.clone());

        // Establish a normal connection so that the client remembers the (large) default limits
        let client_ch = pair.begin_connect(client_config);
        pair.drive();
        let server_ch = pair.server.assert_accept();
        while pair.server_conn_mut(server_ch).poll().is_some() {}
        pair.client.connections.get_mut(&client_ch).unwrap().close(pair.time, VarInt(0), [][..].into());
        pair.drive();
        pair.client.connections.clear();
        pair.server.connections.clear();

        // The server now grants a much smaller connection window
        let mut small = ServerConfig::with_crypto(Arc::new(server_crypto_with_alpn(vec!["foo".into(), "bar".into()])));
        let mut transport = TransportConfig::default();
        transport.receive_window(1000u32.into());
        small.transport = Arc::new(transport);
        pair.server.endpoint.set_server_config(Some(Arc::new(small)));

        // Resume with a different ALPN: the server rejects 0-RTT
        let this = Arc::get_mut(&mut client_crypto).expect("QuicClientConfig is shared");
        let inner = Arc::get_mut(&mut this.inner).expect("QuicClientConfig.inner is shared");
        inner.alpn_protocols = vec!["bar".into()];
        let client_ch = pair.begin_connect(ClientConfig::new(client_crypto));
        assert!(pair.client_conn_mut(client_ch).has_0rtt());
        let s = pair.client_streams(client_ch).open(Dir::Uni).unwrap();
        pair.client_send(client_ch, s).write(b"0-RTT").unwrap();
        pair.drive();
        assert!(!pair.client_conn_mut(client_ch).accepted_0rtt());
        let _server_ch = pair.server.assert_accept();

        // After the rejection the client writes as much as it believes it may
        let s = pair.client_streams(client_ch).open(Dir::Uni).unwrap();
        let payload = vec![0x42u8; 5000];
        let written = pair.client_send(client_ch, s).write(&payload).unwrap();
        println!("client accepted {} bytes for a connection window of 1000", written);
        pair.drive();
        let mut lost = None;
        while let Some(ev) = pair.client_conn_mut(client_ch).poll() {
            if let Event::ConnectionLost { reason } = ev {
                lost = Some(reason);
            }
        }
        println!("connection lost: {lost:?}");
        assert!(lost.is_none() && written <= 1000, "the client queued {written} bytes although the server granted a 1000-byte connection window; connection lost: {lost:?}");
    }
}
