// Demonstration for finding C05/rejected-0rtt-keeps-remembered-max-data (appended as a child module of
// quinn-proto/src/connection/streams/state.rs).
// A client resumes with remembered transport parameters (initial_max_data = 100_000) and sends 0-RTT data. The server rejects
// 0-RTT and its real transport parameters grant initial_max_data = 1_000 (say it was restarted with a smaller configuration).
// Connection::process_payload then calls streams.zero_rtt_rejected() followed by streams.set_params(new parameters) -- exactly the
// two calls made here. Property C05: the sender never exceeds the connection data limit its peer advertised; after a rejected 0-RTT
// attempt the only limit the peer has conveyed on this connection is 1_000.
#[cfg(test)]
mod verif_demo_0rtt {
    use super::*;
    use crate::transport_parameters::TransportParameters;

    fn params(max_data: u32) -> TransportParameters {
        let mut p = TransportParameters::default();
        p.initial_max_data = max_data.into();
        p.initial_max_streams_bidi = 8u32.into();
        p.initial_max_streams_uni = 8u32.into();
        p.initial_max_stream_data_bidi_remote = 1_000_000u32.into();
        p.initial_max_stream_data_bidi_local = 1_000_000u32.into();
        p.initial_max_stream_data_uni = 1_000_000u32.into();
        p
    }

    #[test]
    fn verif_demo_rejected_0rtt_keeps_remembered_max_data() {
        let mut client = StreamsState::new(Side::Client, 128u32.into(), 128u32.into(), 1024 * 1024, (1024 * 1024u32).into(), (1024 * 1024u32).into());
        client.set_params(&params(100_000)); // remembered from the previous connection
        client.zero_rtt_rejected();
        client.set_params(&params(1_000)); // what the server really granted
        println!("connection data limit after the rejected 0-RTT attempt: {}", client.max_data);
        assert!(client.max_data <= 1_000, "the client still believes it may send {} bytes; the server granted 1000", client.max_data);
    }
}
