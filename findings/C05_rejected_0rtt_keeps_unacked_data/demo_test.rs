// Demonstration (appended to quinn-proto/src/connection/streams/state.rs): bytes written in a rejected 0-RTT attempt stay counted in
// unacked_data for the life of the connection although their streams and packets are gone; with a send window of 100 the
// application can never write again.
#[cfg(test)]
mod verif_demo_0rtt_unacked {
    use super::*;
    use crate::connection::{State as ConnState, Streams, SendStream};

    #[test]
    fn verif_demo_rejected_0rtt_releases_the_send_window() {
        let mut client = StreamsState::new(Side::Client, 4u32.into(), 4u32.into(), 100, (1u32 << 20).into(), (1u32 << 20).into());
        let params = TransportParameters {
            initial_max_streams_uni: 4u32.into(),
            initial_max_data: 1000u32.into(),
            initial_max_stream_data_uni: 1000u32.into(),
            ..TransportParameters::default()
        };
        client.set_params(&params); // remembered from the previous session
        let state = ConnState::Established;
        let mut pending = Retransmits::default();
        let id = Streams { state: &mut client, conn_state: &state }.open(Dir::Uni).unwrap();
        assert_eq!(SendStream { id, state: &mut client, pending: &mut pending, conn_state: &state }.write(&[0; 100]), Ok(100));
        assert_eq!(client.unacked_data, 100);
        // the server rejects 0-RTT; the handshake's parameters are installed
        client.zero_rtt_rejected();
        client.set_params(&params);
        assert_eq!(client.unacked_data, 0, "bytes of discarded 0-RTT streams still count against the send window");
        let id = Streams { state: &mut client, conn_state: &state }.open(Dir::Uni).unwrap();
        assert_eq!(SendStream { id, state: &mut client, pending: &mut pending, conn_state: &state }.write(&[0; 100]), Ok(100));
    }
}
