// Demonstration (appended to quinn-proto/src/connection/datagrams.rs): with datagram_receive_buffer_size = 100 the peer is told
// max_datagram_frame_size = 100, which limits the whole frame (RFC 9221 section 3). A frame with a 100-byte payload is at least 101
// bytes long, yet it is accepted and delivered.
#[cfg(test)]
mod verif_demo_datagram_frame_limit {
    use super::*;

    #[test]
    fn verif_demo_frame_larger_than_advertised_limit_is_rejected() {
        let mut state = DatagramState::default();
        let window = Some(100usize);
        // 99 bytes of payload: a 100-byte frame, exactly the advertised limit
        assert!(state.received(Datagram { data: Bytes::from(vec![0xAB; 99]) }, &window).is_ok());
        // 100 bytes of payload: at least a 101-byte frame
        let res = state.received(Datagram { data: Bytes::from(vec![0xAB; 100]) }, &window);
        assert!(res.is_err(), "a DATAGRAM frame larger than the advertised max_datagram_frame_size was accepted");
    }
}
