// Demonstration for finding C06/final-size-below-received (appended as a child module of
// quinn-proto/src/connection/streams/recv.rs, so it sees the private fields of `Recv`).
// STREAM [0,10) without FIN, then STREAM [0,5) with FIN: RFC 9000 section 4.5 and property C06 demand FINAL_SIZE_ERROR.
#[cfg(test)]
mod verif_demo {
    use super::*;
    use bytes::Bytes;
    use crate::{Dir, Side};

    #[test]
    fn verif_demo_final_size_below_received() {
        let id = StreamId::new(Side::Client, Dir::Uni, 0);
        let mut recv = Recv::new(1000);
        let r1 = recv.ingest(frame::Stream { id, offset: 0, fin: false, data: Bytes::from_static(&[7; 10]) }, 10, 0, 1000);
        assert_eq!(r1.unwrap(), (10, false));
        let r2 = recv.ingest(frame::Stream { id, offset: 0, fin: true, data: Bytes::from_static(&[7; 5]) }, 5, 10, 1000);
        println!("second ingest: {:?}; end = {}, final_offset = {:?}", r2, recv.end, recv.final_offset());
        match r2 {
            Err(e) => assert_eq!(e.code, crate::TransportErrorCode::FINAL_SIZE_ERROR),
            Ok(v) => panic!("FIN with final size 5 accepted after 10 bytes were received: {:?}; end = {}, final_offset = {:?}", v, recv.end, recv.final_offset()),
        }
    }
}
