// Demonstration (appended to quinn-proto/src/connection/streams/state.rs): a MAX_STREAM_DATA frame naming a peer-initiated
// bidirectional stream beyond the advertised stream count is accepted and implicitly opens it: the application is handed
// streams the peer was never allowed to open.
#[cfg(test)]
mod verif_demo_max_stream_data_beyond_limit {
    use super::*;
    use crate::{connection::State as ConnState, connection::Streams};

    #[test]
    fn verif_demo_max_stream_data_on_stream_beyond_our_limit() {
        // the peer may open 2 bidirectional streams (indices 0 and 1)
        let mut state = StreamsState::new(Side::Server, 0u32.into(), 2u32.into(), 1 << 20, VarInt::from_u32(1 << 20), VarInt::from_u32(1 << 20));
        state.set_params(&TransportParameters::default());
        // the peer names client-initiated bidirectional stream #7 in a MAX_STREAM_DATA frame
        let id = StreamId::new(Side::Client, Dir::Bi, 7);
        let result = state.received_max_stream_data(id, 1000);
        let conn_state = ConnState::Established;
        let mut accepted = 0;
        while (Streams { state: &mut state, conn_state: &conn_state }).accept(Dir::Bi).is_some() {
            accepted += 1;
        }
        assert!(result.is_err() && accepted <= 2, "frame accepted ({result:?}) and {accepted} streams handed to the application, limit is 2");
        assert_eq!(result.unwrap_err().code, crate::TransportErrorCode::STREAM_LIMIT_ERROR);
    }
}
