// Demonstration (appended to quinn-proto/src/connection/streams/state.rs): RESET_STREAM not yet seen by the application,
// then RecvStream::stop, returns connection credit for the received part of the stream twice.
#[cfg(test)]
mod verif_demo_reset_then_stop {
    use super::*;
    use crate::{RecvStream, TransportErrorCode};
    use bytes::Bytes;

    fn small(window: u32) -> StreamsState {
        StreamsState::new(Side::Client, 4u32.into(), 4u32.into(), 1 << 20, window.into(), (1u32 << 20).into())
    }

    #[test]
    fn verif_demo_reset_then_stop_credits_once() {
        let mut client = small(1000);
        let id = StreamId::new(Side::Server, Dir::Uni, 0);
        let initial_max = client.local_max_data;
        let _ = client.received(frame::Stream { id, offset: 0, fin: false, data: Bytes::from_static(&[0; 400]) }, 400).unwrap();
        let _ = client.received_reset(frame::ResetStream { id, error_code: 0u32.into(), final_offset: 500u32.into() }).unwrap();
        assert_eq!(client.data_recvd, 500);
        assert_eq!(client.local_max_data - initial_max, 500);
        let mut pending = Retransmits::default();
        let mut recv = RecvStream { id, state: &mut client, pending: &mut pending };
        recv.stop(0u32.into()).unwrap();
        // the stream consumed 500 bytes of connection window in total; no more may be returned
        assert_eq!(client.data_recvd, 500);
        assert_eq!(client.local_max_data - initial_max, 500, "credit returned exceeds what the stream ever consumed");
    }
}
