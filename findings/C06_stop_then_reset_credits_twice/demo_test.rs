// Demonstration for finding C06/stop-then-reset-credits-twice (appended as a child module of
// quinn-proto/src/connection/streams/state.rs, next to the existing `reset_flow_control` test).
// The peer sends 2048 bytes on a stream; the application stops the stream without reading (RecvStream::stop returns credit for
// the 2048 discarded bytes); the peer answers with RESET_STREAM(final size 4096). Connection-level credit may be returned only for
// data the application consumed or discarded (property C06): after the reset the stream accounts for 4096 bytes in total, so the
// advertised connection limit may have grown by at most 4096.
#[cfg(test)]
mod verif_demo {
    use super::*;
    use crate::connection::streams::RecvStream;
    use bytes::Bytes;

    #[test]
    fn verif_demo_stop_then_reset_credits_twice() {
        let mut client = StreamsState::new(Side::Client, 128u32.into(), 128u32.into(), 1024 * 1024, (1024 * 1024u32).into(), (1024 * 1024u32).into());
        let id = StreamId::new(Side::Server, Dir::Uni, 0);
        let initial_max = client.local_max_data;
        client.received(frame::Stream { id, offset: 0, fin: false, data: Bytes::from_static(&[0; 2048]) }, 2048).unwrap();
        assert_eq!(client.data_recvd, 2048);
        let mut pending = Retransmits::default();
        {
            let mut recv = RecvStream { id, state: &mut client, pending: &mut pending };
            recv.stop(0u32.into()).unwrap();
        }
        assert_eq!(client.local_max_data - initial_max, 2048, "stop() returns credit for the discarded bytes");
        client.received_reset(frame::ResetStream { id, error_code: 0u32.into(), final_offset: 4096u32.into() }).unwrap();
        assert_eq!(client.data_recvd, 4096);
        let credited = client.local_max_data - initial_max;
        println!("data_recvd = {}, credit returned = {}", client.data_recvd, credited);
        assert!(credited <= client.data_recvd, "credit returned ({credited}) exceeds the data received on the connection ({})", client.data_recvd);
    }
}
