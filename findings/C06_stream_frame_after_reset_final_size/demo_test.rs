// Demonstration (appended to quinn-proto/src/connection/streams/state.rs): a STREAM frame beyond the final size fixed by an earlier
// RESET_STREAM is dropped silently instead of closing the connection with FINAL_SIZE_ERROR.
#[cfg(test)]
mod verif_demo_stream_after_reset {
    use super::*;
    use crate::{RecvStream, TransportErrorCode};
    use bytes::Bytes;

    fn small(window: u32) -> StreamsState {
        StreamsState::new(Side::Client, 4u32.into(), 4u32.into(), 1 << 20, window.into(), (1u32 << 20).into())
    }

    #[test]
    fn verif_demo_stream_frame_beyond_final_size_after_reset() {
        let mut client = small(1000);
        let id = StreamId::new(Side::Server, Dir::Uni, 0);
        let _ = client.received_reset(frame::ResetStream { id, error_code: 0u32.into(), final_offset: 10u32.into() }).unwrap();
        let err = client
            .received(frame::Stream { id, offset: 0, fin: true, data: Bytes::from_static(&[0; 50]) }, 50)
            .expect_err("final size 50 contradicts final size 10");
        assert_eq!(err.code, TransportErrorCode::FINAL_SIZE_ERROR);
    }
}
