// Demonstration (appended to quinn-proto/src/connection/streams/state.rs): shrinking the receive window and growing it back
// leaves the shrink debt outstanding while the growth is applied at once: more unread data is accepted than any window ever configured.
#[cfg(test)]
mod verif_demo_window_shrink_expand {
    use super::*;
    use crate::{RecvStream, TransportErrorCode};
    use bytes::Bytes;

    fn small(window: u32) -> StreamsState {
        StreamsState::new(Side::Client, 4u32.into(), 4u32.into(), 1 << 20, window.into(), (1u32 << 20).into())
    }

    #[test]
    fn verif_demo_shrink_then_expand_receive_window() {
        let mut client = small(1000);
        let id = StreamId::new(Side::Server, Dir::Uni, 0);
        assert!(!client.set_receive_window(900u32.into()));
        let _ = client.set_receive_window(1000u32.into());
        // nothing was ever received or read; the window was never configured above 1000
        assert!(client.local_max_data - client.data_recvd <= 1000, "advertised {} with nothing received, configured window never exceeded 1000", client.local_max_data);
        let err = client
            .received(frame::Stream { id, offset: 0, fin: false, data: Bytes::from_static(&[0; 1001]) }, 1001)
            .expect_err("1001 unread bytes exceed every receive window ever configured");
        assert_eq!(err.code, TransportErrorCode::FLOW_CONTROL_ERROR);
    }
}
