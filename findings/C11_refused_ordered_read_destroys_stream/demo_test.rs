// Demonstration (appended to quinn-proto/src/connection/streams/recv.rs): an ordered read that is refused with IllegalOrderedRead
// (after an unordered read) drops the receive half: buffered data is lost and every later operation reports ClosedStream although
// no FIN, reset or stop was ever observed.
#[cfg(test)]
mod verif_demo_refused_ordered_read {
    use bytes::Bytes;

    use super::*;
    use crate::connection::streams::RecvStream;
    use crate::{Dir, Side};

    #[test]
    fn verif_demo_rejected_ordered_read_does_not_close_the_stream() {
        let mut client = StreamsState::new(Side::Client, 4u32.into(), 4u32.into(), 1024 * 1024, (1024 * 1024u32).into(), (1024 * 1024u32).into());
        let id = StreamId::new(Side::Server, Dir::Uni, 0);
        client.received(frame::Stream { id, offset: 0, fin: false, data: Bytes::from_static(b"hello world") }, 11).unwrap();
        let mut pending = Retransmits::default();
        let mut recv = RecvStream { id, state: &mut client, pending: &mut pending };
        // an unordered read of part of the data puts the stream into unordered mode
        let mut chunks = recv.read(false).unwrap();
        assert_eq!(&chunks.next(5).unwrap().unwrap().bytes[..], b"hello");
        let _ = chunks.finalize();
        // the documented result of an ordered read after an unordered one
        assert_eq!(recv.read(true).err(), Some(ReadableError::IllegalOrderedRead));
        // the stream was neither finished, reset nor stopped: it is still open and its buffered data is still there
        assert!(recv.state.recv.contains_key(&id), "receive half discarded by a rejected read although no terminal outcome was observed");
        let mut chunks = recv.read(false).expect("stream is open: no FIN, no RESET_STREAM, no stop()");
        assert_eq!(&chunks.next(usize::MAX).unwrap().unwrap().bytes[..], b" world");
        let _ = chunks.finalize();
    }
}
