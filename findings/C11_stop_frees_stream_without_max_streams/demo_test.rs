// Demonstration (appended to quinn-proto/src/connection/streams/mod.rs): stop() on a stream whose final size is known frees the
// stream slot (max_remote grows) but, unlike Chunks::finalize and RecvStream::received_reset, never queues MAX_STREAMS.
#[cfg(test)]
mod verif_demo_stop_releases_stream_slot {
    use bytes::Bytes;

    use super::*;
    use crate::Side;

    #[test]
    fn verif_demo_stop_of_finished_stream_queues_max_streams() {
        let id = StreamId::new(Side::Server, Dir::Uni, 0);
        // a client that lets the server have one unidirectional stream at a time
        let mut client = StreamsState::new(Side::Client, 1u32.into(), 1u32.into(), 1024 * 1024, (1024 * 1024u32).into(), (1024 * 1024u32).into());
        client.received(frame::Stream { id, offset: 0, fin: true, data: Bytes::from_static(b"hello") }, 5).unwrap();
        let mut pending = Retransmits::default();
        let mut recv = RecvStream { id, state: &mut client, pending: &mut pending };
        recv.stop(0u32.into()).unwrap();
        // the slot has been released locally ...
        assert!(!client.recv.contains_key(&id));
        assert_eq!(client.max_remote[Dir::Uni as usize], 2);
        // ... so the peer has to be told
        assert!(pending.max_stream_id[Dir::Uni as usize], "stop() released the stream slot but did not queue MAX_STREAMS for the peer");
    }
}
