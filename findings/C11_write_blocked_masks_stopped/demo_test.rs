// Demonstration (appended to quinn-proto/src/connection/streams/mod.rs): with the connection-level window exhausted, write() on a
// stopped stream reports Blocked instead of the peer's STOP_SENDING code, and on a finished stream Blocked instead of ClosedStream.
#[cfg(test)]
mod verif_demo_write_blocked_masks_state {
    use super::*;
    use crate::{Side, connection::State as ConnState, transport_parameters::TransportParameters};

    fn server() -> StreamsState {
        let mut server = StreamsState::new(Side::Server, 4u32.into(), 4u32.into(), 1024 * 1024, (1024 * 1024u32).into(), (1024 * 1024u32).into());
        server.set_params(&TransportParameters {
            initial_max_streams_uni: 1u32.into(),
            initial_max_data: 5u32.into(),
            initial_max_stream_data_uni: 42u32.into(),
            ..TransportParameters::default()
        });
        server
    }

    #[test]
    fn verif_demo_write_reports_stream_state_when_connection_window_is_exhausted() {
        let mut server = server();
        let (mut pending, state) = (Retransmits::default(), ConnState::Established);
        let id = Streams { state: &mut server, conn_state: &state }.open(Dir::Uni).unwrap();
        let mut stream = SendStream { id, state: &mut server, pending: &mut pending, conn_state: &state };
        // use up the connection-level window
        assert_eq!(stream.write(b"hello"), Ok(5));
        assert_eq!(stream.state.write_limit(), 0);
        let code = VarInt::from_u32(7);
        stream.state.received_stop_sending(id, code);
        assert_eq!(stream.stopped(), Ok(Some(code)));
        assert_eq!(stream.write(b"x"), Err(WriteError::Stopped(code)), "write on a stopped stream must report the STOP_SENDING code");
        stream.reset(code).unwrap();
        assert_eq!(stream.write(b"x"), Err(WriteError::ClosedStream), "write on a reset stream must report a closed stream");
    }
}
