// Demonstration for finding C12/bbr-window-floor (appended as a child module of quinn-proto/src/congestion/bbr/mod.rs).
// A concrete history from Bbr::new: eight loss-free rounds of four 1200-byte packets, then one loss per round, reaches
// ProbeBw/Conservation with recovery_window = 4800; on_mtu_update(3000) then leaves window() = 4800 < 2*3000.
#[cfg(test)]
mod verif_demo {
    use super::*;
    use crate::congestion::Controller;

    #[test]
    fn verif_demo_bbr_window_floor_after_mtu_increase_in_recovery() {
        let t0 = Instant::now();
        let rtt_d = Duration::from_millis(100);
        let mut bbr = Bbr::new(Arc::new(BbrConfig::default()), 1200);
        let rtt = RttEstimator::new(rtt_d);
        let mut pn: u64 = 0;
        let mut now = t0;
        let mut hit = None;
        for round in 0..40u32 {
            // one flight of 4 packets, 1200 bytes each
            let sent_at = now;
            let first = pn;
            for _ in 0..4 { bbr.on_sent(now, 1200, pn); pn += 1; }
            now += rtt_d;
            // from round 8 on, lose one packet per round
            if round >= 8 {
                bbr.on_congestion_event(now, sent_at, false, false, 1200);
            }
            for _ in first..pn - if round >= 8 { 1 } else { 0 } { bbr.on_ack(now, sent_at, 1200, false, &rtt); }
            bbr.on_end_acks(now, 0, false, Some(pn - 1));
            println!("round {round}: mode={:?} recovery={:?} cwnd={} recovery_window={} window()={}", bbr.mode, bbr.recovery_state, bbr.cwnd, bbr.recovery_window, bbr.window());
            if bbr.recovery_state.in_recovery() && bbr.mode != Mode::Startup && bbr.mode != Mode::ProbeRtt {
                hit = Some(round);
                break;
            }
        }
        let round = hit.expect("never reached recovery outside startup");
        let before = bbr.window();
        bbr.on_mtu_update(3000);
        println!("after round {round}: window before mtu update = {before}, after on_mtu_update(3000) = {} (two datagrams = 6000)", bbr.window());
        assert!(bbr.window() >= 2 * 3000, "BBR reports a window below two datagrams after an MTU increase");
    }
}
