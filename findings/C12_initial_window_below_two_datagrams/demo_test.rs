// Demonstration (appended to quinn-proto/src/congestion/cubic.rs): with a jumbo initial MTU the controllers start below two datagrams.
#[cfg(test)]
mod verif_demo_initial_window {
    use super::*;
    use crate::congestion::{NewReno, NewRenoConfig};

    #[test]
    fn verif_demo_initial_window_is_at_least_two_datagrams() {
        let mtu: u16 = 9000;
        let cubic = Cubic::new(Arc::new(CubicConfig::default()), Instant::now(), mtu);
        assert!(cubic.window() >= 2 * mtu as u64, "Cubic starts with window {} < two {}-byte datagrams", cubic.window(), mtu);
        let reno = NewReno::new(Arc::new(NewRenoConfig::default()), Instant::now(), mtu);
        assert!(reno.window() >= 2 * mtu as u64, "NewReno starts with window {} < two {}-byte datagrams", reno.window(), mtu);
    }
}
