// Demonstration (appended as a child module of quinn-proto/src/frame.rs): ApplicationClose::encode(out, max_len) is given the
// space that is left in the packet (`builder.max_size - buf.len()` in Connection::poll_transmit) but reserves only 3 bytes for the
// frame type and the error code. An application error code >= 2^14 takes 4 or 8 bytes, so with a reason long enough to be
// truncated the frame is up to 6 bytes LARGER than max_len: the closing packet exceeds the path MTU.
#[cfg(test)]
mod verif_demo {
    use super::*;

    #[test]
    fn verif_demo_application_close_fits_max_len() {
        let close = ApplicationClose { error_code: VarInt::MAX, reason: Bytes::from(vec![b'x'; 2000]) };
        let max_len = 100;
        let mut buf = Vec::new();
        close.encode(&mut buf, max_len);
        println!("max_len = {max_len}, encoded = {} bytes", buf.len());
        assert!(buf.len() <= max_len, "APPLICATION_CLOSE frame of {} bytes written into {} bytes of space", buf.len(), max_len);
    }
}
