// Demonstration for finding C13/black-hole-fallback-above-peer-limit (appended as a child module of quinn-proto/src/connection/mtud.rs).
// Configured min_mtu = 1400, initial MTU 1450, peer max_udp_payload_size = 1300 (so the estimate is clamped to 1300).
// Four suspicious loss bursts of 1450-byte packets (sent before the peer's limit was known) trigger black-hole detection, which sets
// current_mtu = min_mtu = 1400: ABOVE the peer's limit the estimate had been clamped to.
#[cfg(test)]
mod verif_demo {
    use super::*;
    use crate::MtuDiscoveryConfig;

    #[test]
    fn verif_demo_black_hole_fallback_exceeds_peer_limit() {
        let mut mtud = MtuDiscovery::new(1_450, 1_400, None, MtuDiscoveryConfig::default());
        // large packets sent during the handshake are lost in four separate bursts ...
        for burst in 0..3u64 {
            mtud.on_non_probe_lost(burst * 2, 1_450);
            assert!(!mtud.black_hole_detected(Instant::now()));
        }
        // ... the peer's transport parameters arrive: max_udp_payload_size = 1300
        mtud.on_peer_max_udp_payload_size_received(1_300);
        assert_eq!(mtud.current_mtu(), 1_300);
        // one more burst of an early 1450-byte packet
        mtud.on_non_probe_lost(6, 1_450);
        let detected = mtud.black_hole_detected(Instant::now());
        println!("black hole detected = {detected}; current_mtu = {} with peer max_udp_payload_size = 1300", mtud.current_mtu());
        assert!(mtud.current_mtu() <= 1_300, "MTU estimate {} exceeds the peer's max_udp_payload_size 1300", mtud.current_mtu());
    }
}
