// Demonstration (appended to quinn-proto/src/connection/mtud.rs): with MTU discovery disabled the peer's limit is not
// remembered, so reset() (Connection::path_changed) restores the configured initial MTU above the peer's max_udp_payload_size.
#[cfg(test)]
mod verif_demo_disabled_reset {
    use super::*;

    #[test]
    fn verif_demo_reset_with_discovery_disabled_respects_peer_limit() {
        let mut mtud = MtuDiscovery::disabled(1_400, 1_200);
        mtud.on_peer_max_udp_payload_size_received(1_300);
        assert_eq!(mtud.current_mtu(), 1_300);
        mtud.reset(1_400, 1_200);
        assert!(mtud.current_mtu() <= 1_300, "MTU estimate {} exceeds the peer's max_udp_payload_size 1300 after reset", mtud.current_mtu());
    }
}
