// Demonstration for finding C13/mtu-probe-below-lower-bound (appended as a child module of quinn-proto/src/connection/mtud.rs).
// MtuDiscoveryConfig::minimum_change(1) (accepted by the API), min/initial MTU 1200, every probe lost: the binary search lets its
// upper bound drop below its lower bound, probes 1200 (the current estimate) and then 1199; acknowledging that probe sets
// current_mtu = 1199 < min_mtu = 1200 (C13: the estimate rises only on an acknowledged probe and never falls below the minimum).
#[cfg(test)]
mod verif_demo {
    use super::*;
    use crate::MtuDiscoveryConfig;
    #[test]
    fn verif_demo_mtu_estimate_falls_below_min_mtu() {
        let mut config = MtuDiscoveryConfig::default();
        config.minimum_change(1);
        let mut mtud = MtuDiscovery::new(1_200, 1_200, None, config);
        let now = Instant::now();
        let mut sizes = Vec::new();
        for pn in 1..200u64 {
            let Some(size) = mtud.poll_transmit(now, pn) else { break };
            sizes.push(size);
            if size < 1_200 {
                // a lossy path finally lets a probe through - one that is SMALLER than the current MTU
                let was_probe = mtud.on_acked(SpaceId::Data, pn, size);
                println!("probe sizes: {sizes:?}");
                println!("acked probe of {size} bytes (was_probe={was_probe}); current_mtu = {} with min_mtu = 1200", mtud.current_mtu());
                break;
            }
            mtud.on_probe_lost();
        }
        assert!(mtud.current_mtu() >= 1_200, "MTU estimate fell below the configured minimum / QUIC's 1200-byte floor");
    }
}
