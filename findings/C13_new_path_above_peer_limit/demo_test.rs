// Demonstration (appended to quinn-proto/src/connection/paths.rs): Connection::migrate builds the new path with
// PathData::new(.., Some(peer_max), ..); with MTU discovery disabled the peer's limit was dropped.
#[cfg(test)]
mod verif_demo_new_path_peer_limit {
    use super::*;

    #[test]
    fn verif_demo_new_path_without_mtud_respects_peer_limit() {
        let mut config = TransportConfig::default();
        config.initial_mtu(1_400);
        config.mtu_discovery_config(None);
        let path = PathData::new("127.0.0.1:4433".parse().unwrap(), true, Some(1_300), 1, Instant::now(), &config);
        assert!(path.current_mtu() <= 1_300, "new path starts with MTU {} although the peer's max_udp_payload_size is 1300", path.current_mtu());
    }
}
