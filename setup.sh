#!/bin/sh
# Build the framework offline from files on disk only.
set -e
cd "$(dirname "$0")"
export CARGO_NET_OFFLINE=true
(cd tools/vextract && cargo build --release --offline 2>&1 | tail -2)
test -x tools/vextract/target/release/vextract
verus --version | head -2
echo "setup ok"
