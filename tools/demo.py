#!/usr/bin/env python3
"""Run a demonstration test against a copy of a repository tree with the repository's own toolchain.
usage: tools/demo.py <repo-root> <crate> <module-file-relative-to-repo> <demo_test.rs> <test-name-filter>
The demo file is appended to the module file of a scratch copy (nothing is written to <repo-root>); exit code = cargo test's."""
import os, shutil, subprocess, sys, tempfile

ROOT = os.path.dirname(os.path.dirname(os.path.abspath(__file__)))


def run(repo, crate, modfile, demo, name, extra_rustflags=""):
    scratch = tempfile.mkdtemp(prefix="qverif.demo.", dir="/var/tmp")
    try:
        subprocess.run(["rsync", "-a", "--exclude", "target", "--exclude", ".git", repo.rstrip("/") + "/", scratch + "/"], check=True)
        with open(os.path.join(scratch, modfile), "a") as f:
            f.write("\n" + open(demo).read())
        env = dict(os.environ, CARGO_NET_OFFLINE="true", CARGO_TARGET_DIR=os.path.join(ROOT, ".cache", "target-demo"))
        if extra_rustflags:
            env["RUSTFLAGS"] = (env.get("RUSTFLAGS", "") + " " + extra_rustflags).strip()
        p = subprocess.run(["cargo", "test", "--offline", "-p", crate, "--lib", name, "--", "--nocapture", "--test-threads", "1"], cwd=scratch, env=env, capture_output=True, text=True)
        return p.returncode, p.stdout + p.stderr
    finally:
        shutil.rmtree(scratch, ignore_errors=True)


if __name__ == "__main__":
    rc, out = run(*sys.argv[1:6])
    print(out[-6000:])
    sys.exit(rc)
