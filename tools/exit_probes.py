#!/usr/bin/env python3
"""Path-level vacuity probe: composes a unit with `assert(false)` in front of every `return` and tail expression of every extracted
function and lists the probes Verus could PROVE (exits that are unreachable under the contracts in force, or a contradiction among
trusted contracts -- e.g. a prophecy axiom that clashes with a by-value consumer after a conditional move).
usage: tools/exit_probes.py <unit|all> [--repo DIR]"""
import os, re, subprocess, sys, tempfile
ROOT = os.path.dirname(os.path.dirname(os.path.abspath(__file__)))
sys.path.insert(0, ROOT)
from vlib import splice, verus as V


def probe(unit, repo):
    """round k probes the k-th exit of every function (Verus reports only the first few failed assertions of one function)"""
    total, unproved, k = 0, [], 0
    while True:
        n, more, out = probe_round(unit, repo, k)
        total += n
        unproved += out
        if not more:
            break
        k += 1
    return total, unproved, ""


def probe_round(unit, repo, k):
    comp = splice.compose(V.unit_path(unit), repo, twin=("exits", k), variant=V.unit_variant(unit))
    wd = tempfile.mkdtemp(prefix="qverif.probe.", dir="/var/tmp")
    gen = os.path.join(wd, unit.replace("@", "_v_") + "_exits.rs")
    open(gen, "w").write(comp["text"])
    lines = comp["text"].split("\n")
    probes = {}
    for n, ln in enumerate(lines, 1):
        for m in re.finditer(r"/\*VPROBE (.*?) #(\d+)\*/", ln):
            probes[(n, m.group(1), int(m.group(2)))] = False
    p = subprocess.run(["verus", gen, "--triggers-mode", "silent", "--multiple-errors", "1000"], capture_output=True, text=True, cwd=wd, timeout=1800)
    failed_lines = set()
    cur = None
    for ln in p.stderr.split("\n"):
        if ln.startswith("error: assertion failed"):
            cur = "assert"
        elif ln.startswith("error") or ln.startswith("note"):
            cur = None
        m = re.match(r"^\s*-->\s+.*?:(\d+):\d+", ln)
        if m and cur == "assert":
            failed_lines.add(int(m.group(1)))
    out = []
    for (n, fn, k) in sorted(probes):
        if n not in failed_lines:
            out.append((fn, k, n, lines[n - 1].strip()[:160]))
    subprocess.run(["rm", "-rf", wd])
    more = ("/*VSKIP " in comp["text"]) and any(int(m.group(1)) > k for m in re.finditer(r"/\*VSKIP .*? #(\d+)\*/", comp["text"]))
    return len(probes), more, out


def main():
    a = sys.argv[1:]
    repo = a[a.index("--repo") + 1] if "--repo" in a else "/repo"
    units = V.list_units() if a[0] == "all" else [a[0]]
    for u in units:
        try:
            n, unproved, err = probe(u, repo)
        except Exception as e:
            print("%-20s probe failed: %s" % (u, e)); continue
        print("%-20s %d exit probes, %d not refuted" % (u, n, len(unproved)))
        for fn, k, line, text in unproved:
            print("    %s #%d (generated line %d): %s" % (fn, k, line, text))


if __name__ == "__main__":
    main()
