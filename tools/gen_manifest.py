#!/usr/bin/env python3
"""Regenerates /verif/MANIFEST.json from contracts/properties.json + contracts/not_applicable.json (maintenance tool)."""
import json, os
ROOT = os.path.dirname(os.path.dirname(os.path.abspath(__file__)))
props = json.load(open(os.path.join(ROOT, "contracts", "properties.json")))
na = json.load(open(os.path.join(ROOT, "contracts", "not_applicable.json")))
checks = []
for pid in sorted(props):
    m = props[pid]
    if not m.get("claimed"):
        continue
    checks.append({
        "property_id": pid,
        "quick_cmd": "./check %s --tier quick" % pid,
        "thorough_cmd": "./check %s --tier thorough" % pid,
        "evidence_file": "/verif/evidence/%s.json" % pid,
        "replay_cmd_template": "./check %s --replay {path}" % pid,
        "engine": "contracts",
        "level_claimed": {"category": "proof", "text": m["level_text"], "design_ref": "DESIGN.md section " + m["design_ref"]},
        "level_note": m["level_note"],
        "technique": m["technique"],
    })
man = {
    "version": 1,
    "setup_cmd": "./setup.sh",
    "hooks": {
        "guard": "cfg(kani) / cfg(verif_replay)",
        "enable": "no hook is committed to /repo: contracts, harness modules and the tracing shim are injected (added lines only, checked by diff) into a scratch copy of the working tree on every run; cfg(kani) is set by cargo-kani, --cfg verif_replay by the replay build",
        "baseline_off_cmd": "cd /repo && cargo nextest run --workspace --no-fail-fast --test-threads 8 --offline",
        "source_commits": [],
        "add_only": True,
    },
    "engines": [{"name": "contracts", "path": "/verif/check", "serves_properties": [c["property_id"] for c in checks],
                 "kind_free_text": "contract-based deductive verification of the real code: Verus/Z3 on functions copied by byte span from /repo every run (tools/vextract + vlib/splice.py), Kani/CBMC on the real crate with injected harness modules"}],
    "checks": checks,
    "not_applicable": [{"property_id": k, "reason": v} for k, v in sorted(na.items()) if k not in {c["property_id"] for c in checks}],
    "notes": "Exit codes of ./check: 0 all obligations discharged; 1 VIOLATION (a ledger obligation fails with a verifier-stated reason); 2 undecided (tool error, lost anchor, timeout) - never an alarm. Genuine defects found and repaired are listed as fixed in known_findings.json.",
}
json.dump(man, open(os.path.join(ROOT, "MANIFEST.json"), "w"), indent=1)
print("MANIFEST.json: %d checks, %d not applicable" % (len(checks), len(man["not_applicable"])))
