#!/usr/bin/env python3
"""dev helper: tools/krun.py <crate> <harness> [timeout] [--repo R] -- run one Kani harness on an injected scratch copy and print the summary"""
import sys, os, re, shutil, tempfile
sys.path.insert(0, os.path.dirname(os.path.dirname(os.path.abspath(__file__))))
from vlib import kani as K
repo = "/repo"
args = sys.argv[1:]
if "--repo" in args:
    i = args.index("--repo"); repo = args[i + 1]; del args[i:i + 2]
crate, harness = args[0], args[1]
tmo = int(args[2]) if len(args) > 2 else 600
s = "/var/tmp/qverif.krun." + crate + "." + harness
os.makedirs(s, exist_ok=True)
K.inject(repo, s, crate)
r = K.run_kani(s, crate, harness, tmo)
c = K.classify(r)
print({k: v for k, v in c.items() if k != "failed_checks"}, round(r["wall_s"], 1))
for f in c["failed_checks"]:
    print("  FAILED: %s @ %s:%d in %s" % (f["msg"], f["file"], f["line"], f["in"]))
out = r["out"]
if c["status"] not in ("ok", "failed") or "--full" in sys.argv:
    keep = [l for l in out.split("\n") if re.search(r"^error|FAILURE|Failed Checks|File:|panicked|unwinding|VERIFICATION|unsupported|internal compiler|TIMEOUT|cover", l)]
    print("\n".join(keep[:60]))
    if "--full" in sys.argv:
        print(out[-8000:])
