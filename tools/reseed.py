#!/usr/bin/env python3
"""Re-run the registered quick checks against already filed seeded changes (after checks were strengthened).
usage: tools/reseed.py <name> [<name> ...] [--props C01,C03]   (props default: those recorded in the change's meta.json)
The change's confirmation (suite passes / demonstration fails) is not repeated; only check_results / detected are refreshed and the
previous results are kept under "history". A patch that no longer applies to /repo HEAD is recorded as such."""
import json, os, subprocess, sys, time

ROOT = os.path.dirname(os.path.dirname(os.path.abspath(__file__)))


def sh(cmd, cwd=None, env=None):
    e = dict(os.environ, CARGO_NET_OFFLINE="true")
    if env:
        e.update(env)
    p = subprocess.run(cmd, shell=True, cwd=cwd, env=e, capture_output=True, text=True)
    return p.returncode, p.stdout + p.stderr


def main():
    a = sys.argv[1:]
    props_override = a[a.index("--props") + 1].split(",") if "--props" in a else None
    names = [x for x in a if not x.startswith("--") and (props_override is None or x != ",".join(props_override))]
    for name in names:
        d = os.path.join(ROOT, "seeded", name)
        meta = json.load(open(os.path.join(d, "meta.json")))
        props = props_override or list(meta.get("check_results", {}).keys()) or [meta["property"]]
        rc, out = sh("git -C /repo status --porcelain")
        assert out.strip() == "", "/repo is dirty: " + out
        rc, out = sh("git -C /repo apply %s" % os.path.join(d, "patch.diff"))
        if rc != 0:
            meta["reapply"] = "patch no longer applies to /repo HEAD (%s)" % out.strip().split("\n")[0]
            json.dump(meta, open(os.path.join(d, "meta.json"), "w"), indent=1)
            print(name, "DOES NOT APPLY")
            continue
        results = {}
        try:
            for p in props:
                t0 = time.time()
                rc, o = sh("./check %s --tier quick" % p, cwd=ROOT, env={"VERIF_EVIDENCE_DIR": "/tmp/seedverify_evidence"})
                viol = [l for l in o.split("\n") if l.startswith("VIOLATION") or l.startswith("   obligation")]
                results[p] = {"exit": rc, "lines": viol[:6], "wall_s": round(time.time() - t0, 1)}
        finally:
            sh("git -C /repo checkout -- .")
        meta.setdefault("history", []).append({"check_results": meta.get("check_results"), "detected": meta.get("detected")})
        meta["check_results"] = results
        meta["detected"] = any(r["exit"] == 1 for r in results.values())
        meta["rerun_head"] = sh("git -C /repo rev-parse --short HEAD")[1].strip()
        json.dump(meta, open(os.path.join(d, "meta.json"), "w"), indent=1)
        print(name, {p: r["exit"] for p, r in results.items()}, "detected" if meta["detected"] else "missed")


if __name__ == "__main__":
    main()
