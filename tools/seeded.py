#!/usr/bin/env python3
"""Confirm and file a seeded change produced by an independent sub-agent.
usage: tools/seeded.py <PROP> <src-dir with patch.diff demo.diff notes.md> <name> [--needs "..."] [--skip-suite] [--also P,Q] [--base <commit>] [--in-repo]
 1. scratch worktree of /repo HEAD: apply patch -> full suite must pass; apply demo too -> demo must FAIL; demo alone on clean tree -> must PASS
 2. git -C /repo apply patch; run ./check <PROP> (quick) [and other props given with --also]; git -C /repo checkout -- .
 3. write /verif/seeded/<name>/{patch.diff,demo.diff,notes.md,meta.json}
"""
import json, os, re, shutil, subprocess, sys, time

ROOT = os.path.dirname(os.path.dirname(os.path.abspath(__file__)))
WT = "/tmp/seedverify"
TGT = "/tmp/seedverify_target"


def sh(cmd, cwd=None, env=None, timeout=3600):
    e = dict(os.environ, CARGO_NET_OFFLINE="true")
    if env:
        e.update(env)
    p = subprocess.run(cmd, shell=True, cwd=cwd, env=e, capture_output=True, text=True, timeout=timeout)
    return p.returncode, p.stdout + p.stderr


def demo_tests(demo_diff):
    names = re.findall(r"^\+\s*fn\s+(\w+)\s*\(", open(demo_diff).read(), re.M)
    mods = re.findall(r"^\+\s*mod\s+(\w+)", open(demo_diff).read(), re.M)
    return names, mods


def main():
    a = sys.argv[1:]
    prop, src, name = a[0], a[1], a[2]
    needs = a[a.index("--needs") + 1] if "--needs" in a else ""
    also = a[a.index("--also") + 1].split(",") if "--also" in a else []
    patch, demo = os.path.join(src, "patch.diff"), os.path.join(src, "demo.diff")
    ran = []
    if not os.path.exists(WT):
        rc, out = sh("git -C /repo worktree add -q %s HEAD" % WT)
        assert rc == 0, out
    base = a[a.index("--base") + 1] if "--base" in a else "$(git -C /repo rev-parse HEAD)"
    sh("git checkout -- . ; git clean -fdq ; git checkout -q --detach %s && git checkout -- . && git clean -fdq" % base, cwd=WT)
    env = {"CARGO_TARGET_DIR": TGT}
    meta = {"property": prop, "name": name, "needs": needs, "ran": ran}
    # which crate / filter for the demo
    files = re.findall(r"^\+\+\+ b/(\S+)", open(demo).read(), re.M)
    crate = files[0].split("/")[0] if files else "quinn-proto"
    tests, mods = demo_tests(demo)
    flt = mods[0] if mods else (tests[0] if tests else "")
    # demo on clean tree
    rc, out = sh("git apply %s" % demo, cwd=WT); assert rc == 0, "demo does not apply: " + out
    rc, out = sh("cargo test --offline -p %s --lib %s 2>&1 | tail -15" % (crate, flt), cwd=WT, env=env)
    clean_ok = "test result: ok" in out and " 0 passed" not in out
    ran.append("demo on unchanged tree: %s" % ("passes" if clean_ok else "DOES NOT PASS"))
    meta["demo_passes_unchanged"] = clean_ok
    # demo with patch
    rc, out2 = sh("git apply %s" % patch, cwd=WT); assert rc == 0, "patch does not apply: " + out2
    rc, out2 = sh("cargo test --offline -p %s --lib %s 2>&1 | tail -30" % (crate, flt), cwd=WT, env=env)
    fails = "test result: FAILED" in out2
    ran.append("demo with the change: %s" % ("fails" if fails else "DOES NOT FAIL"))
    meta["demo_fails_with_change"] = fails
    # suite with patch only
    sh("git checkout -- . && git clean -fdq", cwd=WT)
    sh("git apply %s" % patch, cwd=WT)
    if "--skip-suite" not in a:
        rc, out3 = sh("cargo nextest run --workspace --no-fail-fast --test-threads 8 --offline 2>&1 | tail -5", cwd=WT, env=env)
        m = re.search(r"(\d+) tests run: (\d+) passed", out3)
        suite_ok = bool(m) and m.group(1) == m.group(2) and "failed" not in out3.split("Summary")[-1]
        ran.append("existing suite with the change: %s" % (out3.strip().split("\n")[-1].strip()))
        meta["suite_passes_with_change"] = suite_ok
    sh("git checkout -- . && git clean -fdq", cwd=WT)
    # our checks, on the scratch worktree (/repo HEAD + the change); equivalent to `git -C /repo apply`, `./check`, `git -C /repo checkout -- .`
    # -- the checks rebuild from whatever tree they are pointed at -- and leaves /repo free for other work (--in-repo forces the literal form)
    results = {}
    if "--in-repo" in a:
        rc, out4 = sh("git -C /repo status --porcelain")
        assert out4.strip() == "", "/repo is dirty: " + out4
        sh("git -C /repo apply %s" % patch)
        target = ""
    else:
        rc, out4 = sh("git apply %s" % patch, cwd=WT); assert rc == 0, out4
        target = " --repo %s" % WT
    try:
        for p in [prop] + also:
            t0 = time.time()
            rc, o = sh("./check %s --tier quick%s" % (p, target), cwd=ROOT, env={"VERIF_EVIDENCE_DIR": "/tmp/seedverify_evidence"})
            viol = [l for l in o.split("\n") if l.startswith("VIOLATION") or l.startswith("   obligation")]
            results[p] = {"exit": rc, "lines": viol[:6], "wall_s": round(time.time() - t0, 1)}
            ran.append("./check %s with the change applied (%s): exit %d" % (p, "on /repo" if not target else "scratch worktree of /repo HEAD", rc))
    finally:
        if "--in-repo" in a:
            sh("git -C /repo checkout -- .")
        else:
            sh("git checkout -- . && git clean -fdq", cwd=WT)
    meta["check_results"] = results
    meta["detected"] = any(r["exit"] == 1 for r in results.values())
    dst = os.path.join(ROOT, "seeded", name)
    os.makedirs(dst, exist_ok=True)
    for f in ("patch.diff", "demo.diff", "notes.md"):
        if os.path.exists(os.path.join(src, f)):
            shutil.copy(os.path.join(src, f), os.path.join(dst, f))
    json.dump(meta, open(os.path.join(dst, "meta.json"), "w"), indent=1)
    print(json.dumps(meta, indent=1))


if __name__ == "__main__":
    main()
