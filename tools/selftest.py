#!/usr/bin/env python3
"""Development self-test: applies each small mutation of selftest/mutations.json to a scratch copy of /repo and
expects the named property's check to report a violation (exit 1) while the unmutated copy stays green.
usage: tools/selftest.py [PROP ...] [--only NAME] [--last N]"""
import json, os, shutil, subprocess, sys, tempfile

ROOT = os.path.dirname(os.path.dirname(os.path.abspath(__file__)))


def main():
    args = [a for a in sys.argv[1:] if not a.startswith("--")]
    only = None
    if "--only" in sys.argv:
        only = sys.argv[sys.argv.index("--only") + 1]
        args = [a for a in args if a != only]
    muts = json.load(open(os.path.join(ROOT, "selftest", "mutations.json")))
    if "--last" in sys.argv:
        n = sys.argv[sys.argv.index("--last") + 1]
        args = [a for a in args if a != n]
        muts = muts[-int(n):]
    scratch = tempfile.mkdtemp(prefix="qverif.mut.", dir="/var/tmp")
    bad = 0
    try:
        # the committed tree (not the working tree: seeded-change runs may have /repo temporarily patched)
        subprocess.run("git -C /repo archive HEAD | tar -x -C %s" % scratch, shell=True, check=True)
        for m in muts:
            if args and m["prop"] not in args:
                continue
            if only and m["name"] != only:
                continue
            path = os.path.join(scratch, m["file"])
            orig = open(path).read()
            if orig.count(m["from"]) < 1:
                print("SKIP %-40s pattern not found" % m["name"]); bad += 1; continue
            mutated = orig.replace(m["from"], m["to"], 1)
            open(path, "w").write(mutated)
            try:
                p = subprocess.run([os.path.join(ROOT, "check"), m["prop"], "--repo", scratch, "--tier", m.get("tier", "quick")], capture_output=True, text=True,
                                   env=dict(os.environ, VERIF_EVIDENCE_DIR=os.path.join(scratch, ".evidence")))
            finally:
                open(path, "w").write(orig)
            exp = m.get("expect", 1)
            ok = p.returncode == exp
            viol = [l for l in p.stdout.split("\n") if l.startswith("VIOLATION") or l.startswith("   obligation")]
            print("%s %-44s %s exit=%d %s" % ("ok  " if ok else "MISS", m["name"], m["prop"], p.returncode, (viol[1].strip() if len(viol) > 1 else "")[:150]))
            if not ok:
                bad += 1
                print("\n".join(p.stdout.split("\n")[-8:]))
    finally:
        shutil.rmtree(scratch, ignore_errors=True)
    return 1 if bad else 0


if __name__ == "__main__":
    sys.exit(main())
