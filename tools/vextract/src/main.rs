//! vextract: syntactic span index of a Rust source file, for the contract splicer in /verif/check.
//!
//! `vextract spans <file.rs>` prints a JSON document describing every item of the file (recursively through
//! `mod`, `impl` and `trait` blocks) with exact byte spans, and for every function the spans of its signature
//! parts, body, statements, loops, closures, macro invocations and compound boolean assignments.  The splicer
//! copies code out of /repo *by these spans*, so the verified text is the text of the working tree; nothing is
//! re-printed from the AST.
use proc_macro2::Span;
use serde_json::{json, Value};
use syn::spanned::Spanned;
use syn::visit::{self, Visit};

fn sp(s: Span) -> Value {
    let r = s.byte_range();
    json!([r.start, r.end])
}
fn sp_join(a: Span, b: Span) -> Value {
    json!([a.byte_range().start, b.byte_range().end])
}

fn attr_name(a: &syn::Attribute) -> String {
    a.path().segments.iter().map(|s| s.ident.to_string()).collect::<Vec<_>>().join("::")
}

fn attrs_json(attrs: &[syn::Attribute], src: &str) -> (Value, bool) {
    let mut v = vec![];
    let mut cfg_test = false;
    for a in attrs {
        let r = a.span().byte_range();
        let text = &src[r.start..r.end];
        let name = attr_name(a);
        if name == "cfg" && text.replace(' ', "").contains("cfg(test)") {
            cfg_test = true;
        }
        v.push(json!({"span": [r.start, r.end], "name": name, "text": text}));
    }
    (Value::Array(v), cfg_test)
}

fn vis_json(v: &syn::Visibility) -> Value {
    match v {
        syn::Visibility::Inherited => Value::Null,
        _ => sp(v.span()),
    }
}

fn type_name(t: &syn::Type) -> String {
    let s = quote::quote!(#t).to_string();
    s.replace(' ', "")
}

struct BodyVisitor<'a> {
    src: &'a str,
    depth: usize,
    stmts: Vec<Value>,
    loops: Vec<Value>,
    closures: Vec<Value>,
    macros: Vec<Value>,
    assignops: Vec<Value>,
    blocks: Vec<Value>,
}

impl<'a> BodyVisitor<'a> {
    fn new(src: &'a str) -> Self {
        Self { src, depth: 0, stmts: vec![], loops: vec![], closures: vec![], macros: vec![], assignops: vec![], blocks: vec![] }
    }
    fn mac(&mut self, m: &syn::Macro, whole: Span, stmt: Option<Span>) {
        let name = m.path.segments.iter().map(|s| s.ident.to_string()).collect::<Vec<_>>().join("::");
        let dspan = m.delimiter.span();
        let open = dspan.open().byte_range().end;
        let close = dspan.close().byte_range().start;
        self.macros.push(json!({
            "name": name,
            "span": sp(whole),
            "args": [open, close],
            "stmt_span": match stmt { Some(s) => sp(s), None => Value::Null },
        }));
    }
}

impl<'a, 'ast> Visit<'ast> for BodyVisitor<'a> {
    fn visit_block(&mut self, b: &'ast syn::Block) {
        let open = b.brace_token.span.open().byte_range().start;
        let close = b.brace_token.span.close().byte_range().start;
        self.blocks.push(json!({"open": open, "close": close, "depth": self.depth}));
        self.depth += 1;
        for s in &b.stmts {
            let r = s.span().byte_range();
            let kind = match s {
                syn::Stmt::Local(_) => "local",
                syn::Stmt::Item(_) => "item",
                syn::Stmt::Expr(_, Some(_)) => "expr;",
                syn::Stmt::Expr(_, None) => "expr",
                syn::Stmt::Macro(_) => "macro",
            };
            let text: String = self.src[r.start..r.end].split_whitespace().collect::<Vec<_>>().join(" ");
            self.stmts.push(json!({"span": [r.start, r.end], "depth": self.depth, "kind": kind, "block_open": open, "norm": text}));
        }
        visit::visit_block(self, b);
        self.depth -= 1;
    }
    fn visit_stmt_macro(&mut self, m: &'ast syn::StmtMacro) {
        self.mac(&m.mac, m.mac.span(), Some(m.span()));
    }
    fn visit_expr_macro(&mut self, m: &'ast syn::ExprMacro) {
        self.mac(&m.mac, m.span(), None);
    }
    fn visit_expr_while(&mut self, w: &'ast syn::ExprWhile) {
        let open = w.body.brace_token.span.open().byte_range().start;
        self.loops.push(json!({"kind": "while", "span": sp(w.span()), "body_open": open,
            "cond": sp(w.cond.span()), "header": [w.while_token.span.byte_range().start, open]}));
        visit::visit_expr_while(self, w);
    }
    fn visit_expr_for_loop(&mut self, w: &'ast syn::ExprForLoop) {
        let open = w.body.brace_token.span.open().byte_range().start;
        self.loops.push(json!({"kind": "for", "span": sp(w.span()), "body_open": open,
            "pat": sp(w.pat.span()), "iter": sp(w.expr.span()), "header": [w.for_token.span.byte_range().start, open]}));
        visit::visit_expr_for_loop(self, w);
    }
    fn visit_expr_loop(&mut self, w: &'ast syn::ExprLoop) {
        let open = w.body.brace_token.span.open().byte_range().start;
        self.loops.push(json!({"kind": "loop", "span": sp(w.span()), "body_open": open,
            "header": [w.loop_token.span.byte_range().start, open]}));
        visit::visit_expr_loop(self, w);
    }
    fn visit_expr_closure(&mut self, c: &'ast syn::ExprClosure) {
        let inputs: Vec<Value> = c.inputs.iter().map(|p| {
            let r = p.span().byte_range();
            let (typed, wild) = match p {
                syn::Pat::Type(t) => (true, matches!(&*t.pat, syn::Pat::Wild(_))),
                syn::Pat::Wild(_) => (false, true),
                _ => (false, false),
            };
            json!({"span": [r.start, r.end], "typed": typed, "wild": wild, "text": &self.src[r.start..r.end]})
        }).collect();
        let body_is_block = matches!(&*c.body, syn::Expr::Block(_));
        self.closures.push(json!({
            "span": sp(c.span()),
            "or1": sp(c.or1_token.span),
            "or2": sp(c.or2_token.span),
            "inputs": inputs,
            "output": match &c.output { syn::ReturnType::Default => Value::Null, syn::ReturnType::Type(_, t) => sp(t.span()) },
            "body": sp(c.body.span()),
            "body_is_block": body_is_block,
            "is_move": c.capture.is_some(),
        }));
        visit::visit_expr_closure(self, c);
    }
    fn visit_expr_binary(&mut self, b: &'ast syn::ExprBinary) {
        let op = match b.op {
            syn::BinOp::BitOrAssign(_) => Some("|="),
            syn::BinOp::BitAndAssign(_) => Some("&="),
            syn::BinOp::BitOr(_) => Some("|"),
            syn::BinOp::BitAnd(_) => Some("&"),
            _ => None,
        };
        if let Some(op) = op {
            self.assignops.push(json!({"op": op, "span": sp(b.span()), "lhs": sp(b.left.span()), "rhs": sp(b.right.span())}));
        }
        visit::visit_expr_binary(self, b);
    }
    // do not descend into nested items
    fn visit_item(&mut self, _i: &'ast syn::Item) {}
}

fn sig_json(sig: &syn::Signature, src: &str) -> Value {
    let inputs: Vec<Value> = sig.inputs.iter().map(|a| {
        match a {
            syn::FnArg::Receiver(r) => json!({"span": sp(r.span()), "receiver": true, "text": &src[r.span().byte_range()]}),
            syn::FnArg::Typed(t) => {
                let wild = matches!(&*t.pat, syn::Pat::Wild(_));
                json!({"span": sp(t.span()), "receiver": false, "pat": sp(t.pat.span()), "wild": wild,
                       "ty": sp(t.ty.span()), "pat_text": &src[t.pat.span().byte_range()], "ty_text": &src[t.ty.span().byte_range()]})
            }
        }
    }).collect();
    let generics: Vec<Value> = sig.generics.params.iter().map(|p| {
        let name = match p {
            syn::GenericParam::Type(t) => t.ident.to_string(),
            syn::GenericParam::Lifetime(l) => l.lifetime.to_string(),
            syn::GenericParam::Const(c) => c.ident.to_string(),
        };
        let ident_span = match p {
            syn::GenericParam::Type(t) => sp(t.ident.span()),
            syn::GenericParam::Lifetime(l) => sp(l.lifetime.span()),
            syn::GenericParam::Const(c) => sp(c.ident.span()),
        };
        json!({"name": name, "span": sp(p.span()), "ident": ident_span})
    }).collect();
    json!({
        "ident": sp(sig.ident.span()),
        "name": sig.ident.to_string(),
        "fn_token": sp(sig.fn_token.span),
        "inputs": inputs,
        "generics": generics,
        "paren_close": sig.paren_token.span.close().byte_range().end,
        "output_ty": match &sig.output { syn::ReturnType::Default => Value::Null, syn::ReturnType::Type(_, t) => sp(t.span()) },
        "where": match &sig.generics.where_clause { Some(w) => sp(w.span()), None => Value::Null },
        "constness": sig.constness.map(|c| sp(c.span)).unwrap_or(Value::Null),
        "unsafety": sig.unsafety.map(|c| sp(c.span)).unwrap_or(Value::Null),
        "span": sp(sig.span()),
    })
}

fn body_json(b: &syn::Block, src: &str) -> Value {
    let mut v = BodyVisitor::new(src);
    v.visit_block(b);
    json!({
        "open": b.brace_token.span.open().byte_range().start,
        "close": b.brace_token.span.close().byte_range().start,
        "stmts": v.stmts, "loops": v.loops, "closures": v.closures, "macros": v.macros, "assignops": v.assignops, "blocks": v.blocks,
    })
}

fn fields_json(fields: &syn::Fields, src: &str) -> Value {
    let v: Vec<Value> = fields.iter().map(|f| {
        let (a, _) = attrs_json(&f.attrs, src);
        json!({
            "name": f.ident.as_ref().map(|i| i.to_string()),
            "span": sp(f.span()),
            "vis": vis_json(&f.vis),
            "ty": sp(f.ty.span()),
            "ty_text": &src[f.ty.span().byte_range()],
            "attrs": a,
        })
    }).collect();
    Value::Array(v)
}

fn item_span_with_attrs(attrs: &[syn::Attribute], whole: Span) -> Value {
    // syn's span of an item already starts at its first attribute
    let _ = attrs;
    sp(whole)
}

fn impl_name(i: &syn::ItemImpl) -> String {
    let ty = type_name(&i.self_ty);
    match &i.trait_ {
        Some((_, p, _)) => {
            let t = quote::quote!(#p).to_string().replace(' ', "");
            format!("impl {} for {}", t, ty)
        }
        None => format!("impl {}", ty),
    }
}

fn items_json(items: &[syn::Item], src: &str, prefix: &str) -> Vec<Value> {
    let mut out = vec![];
    // count duplicates of the same name (several `impl X` blocks) so that paths stay unique: second gets `#1`
    let mut seen: std::collections::HashMap<String, usize> = Default::default();
    for it in items {
        let mut v = item_json(it, src, prefix);
        if let Some(name) = v.get("name").and_then(|n| n.as_str()).map(|s| s.to_string()) {
            let kind = v.get("kind").and_then(|n| n.as_str()).unwrap_or("").to_string();
            let key = format!("{} {}", kind, name);
            let n = seen.entry(key).or_insert(0);
            v["ordinal"] = json!(*n);
            *n += 1;
        }
        out.push(v);
    }
    out
}

fn join(prefix: &str, s: &str) -> String {
    if prefix.is_empty() { s.to_string() } else { format!("{}::{}", prefix, s) }
}

fn item_json(it: &syn::Item, src: &str, prefix: &str) -> Value {
    match it {
        syn::Item::Fn(f) => {
            let (a, t) = attrs_json(&f.attrs, src);
            let name = f.sig.ident.to_string();
            json!({"kind": "fn", "name": name, "path": join(prefix, &format!("fn {}", name)), "span": item_span_with_attrs(&f.attrs, f.span()),
                   "attrs": a, "cfg_test": t, "vis": vis_json(&f.vis), "sig": sig_json(&f.sig, src), "body": body_json(&f.block, src)})
        }
        syn::Item::Struct(s) => {
            let (a, t) = attrs_json(&s.attrs, src);
            let name = s.ident.to_string();
            json!({"kind": "struct", "name": name, "path": join(prefix, &format!("struct {}", name)), "span": sp(s.span()), "attrs": a, "cfg_test": t,
                   "vis": vis_json(&s.vis), "ident": sp(s.ident.span()), "fields": fields_json(&s.fields, src),
                   "tuple": matches!(s.fields, syn::Fields::Unnamed(_)), "unit": matches!(s.fields, syn::Fields::Unit)})
        }
        syn::Item::Enum(e) => {
            let (a, t) = attrs_json(&e.attrs, src);
            let name = e.ident.to_string();
            let variants: Vec<Value> = e.variants.iter().map(|v| {
                let (va, _) = attrs_json(&v.attrs, src);
                json!({"name": v.ident.to_string(), "span": sp(v.span()), "attrs": va, "fields": fields_json(&v.fields, src),
                       "discriminant": v.discriminant.as_ref().map(|(_, e)| sp(e.span()))})
            }).collect();
            json!({"kind": "enum", "name": name, "path": join(prefix, &format!("enum {}", name)), "span": sp(e.span()), "attrs": a, "cfg_test": t,
                   "vis": vis_json(&e.vis), "ident": sp(e.ident.span()), "variants": variants})
        }
        syn::Item::Const(c) => {
            let (a, t) = attrs_json(&c.attrs, src);
            let name = c.ident.to_string();
            json!({"kind": "const", "name": name, "path": join(prefix, &format!("const {}", name)), "span": sp(c.span()), "attrs": a, "cfg_test": t,
                   "vis": vis_json(&c.vis), "ty": sp(c.ty.span()), "expr": sp(c.expr.span())})
        }
        syn::Item::Static(c) => {
            let (a, t) = attrs_json(&c.attrs, src);
            let name = c.ident.to_string();
            json!({"kind": "static", "name": name, "path": join(prefix, &format!("static {}", name)), "span": sp(c.span()), "attrs": a, "cfg_test": t,
                   "vis": vis_json(&c.vis)})
        }
        syn::Item::Type(c) => {
            let (a, t) = attrs_json(&c.attrs, src);
            let name = c.ident.to_string();
            json!({"kind": "type", "name": name, "path": join(prefix, &format!("type {}", name)), "span": sp(c.span()), "attrs": a, "cfg_test": t,
                   "vis": vis_json(&c.vis)})
        }
        syn::Item::Impl(i) => {
            let (a, t) = attrs_json(&i.attrs, src);
            let name = impl_name(i);
            let path = join(prefix, &name);
            let mut children = vec![];
            let mut seen: std::collections::HashMap<String, usize> = Default::default();
            for ii in &i.items {
                let mut v = match ii {
                    syn::ImplItem::Fn(f) => {
                        let (fa, ft) = attrs_json(&f.attrs, src);
                        let n = f.sig.ident.to_string();
                        json!({"kind": "fn", "name": n, "path": format!("{}::fn {}", path, n), "span": sp(f.span()), "attrs": fa, "cfg_test": ft,
                               "vis": vis_json(&f.vis), "sig": sig_json(&f.sig, src), "body": body_json(&f.block, src)})
                    }
                    syn::ImplItem::Const(c) => {
                        let (fa, ft) = attrs_json(&c.attrs, src);
                        let n = c.ident.to_string();
                        json!({"kind": "const", "name": n, "path": format!("{}::const {}", path, n), "span": sp(c.span()), "attrs": fa, "cfg_test": ft,
                               "vis": vis_json(&c.vis), "ty": sp(c.ty.span()), "expr": sp(c.expr.span())})
                    }
                    syn::ImplItem::Type(c) => {
                        let (fa, ft) = attrs_json(&c.attrs, src);
                        let n = c.ident.to_string();
                        json!({"kind": "type", "name": n, "path": format!("{}::type {}", path, n), "span": sp(c.span()), "attrs": fa, "cfg_test": ft,
                               "vis": vis_json(&c.vis)})
                    }
                    other => json!({"kind": "other", "span": sp(other.span())}),
                };
                if let Some(n) = v.get("name").and_then(|n| n.as_str()).map(|s| s.to_string()) {
                    let c = seen.entry(n).or_insert(0);
                    v["ordinal"] = json!(*c);
                    *c += 1;
                }
                children.push(v);
            }
            let brace_open = i.brace_token.span.open().byte_range().start;
            let brace_close = i.brace_token.span.close().byte_range().start;
            json!({"kind": "impl", "name": name, "path": path, "span": sp(i.span()), "attrs": a, "cfg_test": t,
                   "header": [i.impl_token.span.byte_range().start, brace_open], "open": brace_open, "close": brace_close,
                   "self_ty": type_name(&i.self_ty), "trait": i.trait_.as_ref().map(|(_, p, _)| quote::quote!(#p).to_string().replace(' ', "")),
                   "children": children})
        }
        syn::Item::Trait(tr) => {
            let (a, t) = attrs_json(&tr.attrs, src);
            let name = tr.ident.to_string();
            let path = join(prefix, &format!("trait {}", name));
            let mut children = vec![];
            for ti in &tr.items {
                let v = match ti {
                    syn::TraitItem::Fn(f) => {
                        let (fa, ft) = attrs_json(&f.attrs, src);
                        let n = f.sig.ident.to_string();
                        json!({"kind": "fn", "name": n, "path": format!("{}::fn {}", path, n), "span": sp(f.span()), "attrs": fa, "cfg_test": ft,
                               "vis": Value::Null, "sig": sig_json(&f.sig, src),
                               "body": match &f.default { Some(b) => body_json(b, src), None => Value::Null },
                               "semi": f.semi_token.map(|s| json!(s.span.byte_range().start))})
                    }
                    syn::TraitItem::Const(c) => {
                        let (fa, ft) = attrs_json(&c.attrs, src);
                        let n = c.ident.to_string();
                        json!({"kind": "const", "name": n, "path": format!("{}::const {}", path, n), "span": sp(c.span()), "attrs": fa, "cfg_test": ft, "vis": Value::Null})
                    }
                    syn::TraitItem::Type(c) => {
                        let (fa, ft) = attrs_json(&c.attrs, src);
                        let n = c.ident.to_string();
                        json!({"kind": "type", "name": n, "path": format!("{}::type {}", path, n), "span": sp(c.span()), "attrs": fa, "cfg_test": ft, "vis": Value::Null})
                    }
                    other => json!({"kind": "other", "span": sp(other.span())}),
                };
                children.push(v);
            }
            let brace_open = tr.brace_token.span.open().byte_range().start;
            let brace_close = tr.brace_token.span.close().byte_range().start;
            json!({"kind": "trait", "name": name, "path": path, "span": sp(tr.span()), "attrs": a, "cfg_test": t, "vis": vis_json(&tr.vis),
                   "header": [tr.trait_token.span.byte_range().start, brace_open], "open": brace_open, "close": brace_close, "children": children})
        }
        syn::Item::Mod(m) => {
            let (a, t) = attrs_json(&m.attrs, src);
            let name = m.ident.to_string();
            let path = join(prefix, &format!("mod {}", name));
            let children = match &m.content {
                Some((_, items)) => items_json(items, src, &path),
                None => vec![],
            };
            json!({"kind": "mod", "name": name, "path": path, "span": sp(m.span()), "attrs": a, "cfg_test": t, "vis": vis_json(&m.vis),
                   "inline": m.content.is_some(), "children": children})
        }
        syn::Item::Macro(m) => {
            let (a, t) = attrs_json(&m.attrs, src);
            let name = m.mac.path.segments.iter().map(|s| s.ident.to_string()).collect::<Vec<_>>().join("::");
            let dspan = m.mac.delimiter.span();
            json!({"kind": "macro", "name": name, "path": join(prefix, &format!("macro {}", name)), "span": sp(m.span()), "attrs": a, "cfg_test": t,
                   "ident": m.ident.as_ref().map(|i| i.to_string()),
                   "args": [dspan.open().byte_range().end, dspan.close().byte_range().start]})
        }
        syn::Item::Use(u) => {
            let (a, t) = attrs_json(&u.attrs, src);
            json!({"kind": "use", "span": sp(u.span()), "attrs": a, "cfg_test": t, "text": &src[u.span().byte_range()]})
        }
        other => json!({"kind": "other", "span": sp(other.span())}),
    }
}

fn main() {
    let args: Vec<String> = std::env::args().collect();
    if args.len() < 3 || args[1] != "spans" {
        eprintln!("usage: vextract spans <file.rs> [...]");
        std::process::exit(2);
    }
    let mut docs = vec![];
    for path in &args[2..] {
        let src = match std::fs::read_to_string(path) {
            Ok(s) => s,
            Err(e) => { eprintln!("vextract: cannot read {}: {}", path, e); std::process::exit(2); }
        };
        let file = match syn::parse_file(&src) {
            Ok(f) => f,
            Err(e) => { eprintln!("vextract: cannot parse {}: {}", path, e); std::process::exit(2); }
        };
        let _ = sp_join;
        docs.push(json!({"file": path, "len": src.len(), "items": items_json(&file.items, &src, "")}));
    }
    println!("{}", serde_json::to_string(&Value::Array(docs)).unwrap());
}
