"""known_findings.json: committed, never written at run time.
entries: {"property", "status": "known"|"fixed", "obligation": <obligation name>, "match": {"error_contains": str}?, "what": str, "commit"?}
Only status == "known" suppresses, and only the exact obligation (+ optional error text / witness predicate)."""
import json, os

PATH = os.path.join(os.path.dirname(os.path.dirname(os.path.abspath(__file__))), "known_findings.json")


def load():
    try:
        with open(PATH) as f:
            return json.load(f).get("findings", [])
    except FileNotFoundError:
        return []


def match(findings, prop, o):
    for k in findings:
        if k.get("status") != "known" or k.get("property") != prop or k.get("obligation") != o["name"]:
            continue
        m = k.get("match", {})
        ec = m.get("error_contains")
        if ec and not any(ec in e.get("msg", "") or ec in e.get("text", "") for e in o.get("errors", [])):
            continue
        return k
    return None
