"""Kani back end: harness modules are injected (added lines only) into a scratch copy of the current /repo tree,
`cargo kani` runs on the real crate, failures are replayed with the repository's toolchain on Kani's concrete values."""
import json, os, re, shutil, subprocess, time, difflib

ROOT = os.path.dirname(os.path.dirname(os.path.abspath(__file__)))
KDIR = os.path.join(ROOT, "contracts", "kani")
CACHE = os.path.join(ROOT, ".cache")

CRATES = {
    "quinn-proto": {"dir": "quinn-proto", "lib": "quinn-proto/src/lib.rs", "flags": ["--no-default-features"], "notrace": True},
    "quinn-udp": {"dir": "quinn-udp", "lib": "quinn-udp/src/lib.rs", "flags": [], "notrace": False},
}

HDR = re.compile(r"^//\s*@harness\s+(\w+)\s*(.*)$")


def parse_kv(s):
    out = {}
    for m in re.finditer(r'(\w+)=("([^"]*)"|\S+)', s):
        out[m.group(1)] = m.group(3) if m.group(3) is not None else m.group(2)
    return out


def harness_files():
    """contracts/kani/<name>.rs with header lines `// @target <crate> <file>` and per harness `// @harness <name> props=.. tier=.. kind=..`"""
    out = []
    for f in sorted(os.listdir(KDIR)):
        if not f.endswith(".rs"):
            continue
        path = os.path.join(KDIR, f)
        crate = target = None
        hs = []
        stubs = False
        with open(path) as fh:
            for ln in fh:
                m = re.match(r"^//\s*@target\s+(\S+)\s+(\S+)", ln)
                if m:
                    crate, target = m.group(1), m.group(2)
                m = HDR.match(ln.strip())
                if m:
                    kv = parse_kv(m.group(2))
                    hs.append({"name": m.group(1), "props": kv.get("props", "").split(","), "tier": kv.get("tier", "quick"),
                               "kind": kv.get("kind", "proof"), "bound": kv.get("bound", ""), "fn": kv.get("fn", ""),
                               "timeout": int(kv.get("timeout", "600")), "stubbing": kv.get("stubbing", "no") == "yes",
                               "file": f, "crate": crate, "target": target, "desc": kv.get("desc", "")})
        if crate:
            out.append({"file": f, "path": path, "crate": crate, "target": target, "harnesses": hs})
    return out


def all_harnesses():
    return [h for hf in harness_files() for h in hf["harnesses"]]


def inject(repo, scratch, crate):
    """copy the working tree and add the harness modules; returns list of injected files. Raises if the diff is not add-only."""
    cfg = CRATES[crate]
    subprocess.run(["rsync", "-a", "--delete", "--exclude", "target", "--exclude", ".git", repo.rstrip("/") + "/", scratch + "/"], check=True)
    added = {}

    def add_lines(rel, transform):
        p = os.path.join(scratch, rel)
        with open(p) as f:
            orig = f.read().split("\n")
        new = transform(list(orig))
        # added-lines-only check
        sm = difflib.SequenceMatcher(a=orig, b=new, autojunk=False)
        for tag, i1, i2, j1, j2 in sm.get_opcodes():
            if tag not in ("equal", "insert"):
                raise RuntimeError("injection into %s is not add-only (%s)" % (rel, tag))
        with open(p, "w") as f:
            f.write("\n".join(new))
        added[rel] = len(new) - len(orig)

    if cfg["notrace"]:
        srcdir = os.path.join(scratch, cfg["dir"], "src")
        for dp, dn, fn in os.walk(srcdir):
            if os.path.basename(dp) == "tests":
                continue
            for f in fn:
                if not f.endswith(".rs"):
                    continue
                rel = os.path.relpath(os.path.join(dp, f), scratch)
                with open(os.path.join(dp, f)) as fh:
                    if "use tracing::" not in fh.read():
                        continue

                def tr(lines):
                    out = []
                    for ln in lines:
                        m = re.match(r"^(\s*)use tracing::", ln)
                        if m:
                            out.append(m.group(1) + "#[cfg(not(kani))]")
                        out.append(ln)
                    return out
                add_lines(rel, tr)

    def tr_lib(lines):
        out, done = [], False
        for ln in lines:
            if not done and (ln.startswith("use ") or ln.startswith("mod ") or ln.startswith("pub mod ") or ln.startswith("#[cfg") or ln.startswith("pub use ")):
                if cfg["notrace"]:
                    out += ["#[cfg(kani)]", "#[macro_use]", '#[path = "%s"]' % os.path.join(KDIR, "support", "notrace.rs"), "mod verif_kani_notrace;"]
                out += ["#[cfg(any(kani, verif_replay))]", '#[path = "%s"]' % os.path.join(KDIR, "support", "vk.rs"), "#[allow(unused)]", "pub(crate) mod verif_vk;"]
                done = True
            out.append(ln)
        return out
    add_lines(cfg["lib"], tr_lib)

    for hf in harness_files():
        if hf["crate"] != crate:
            continue
        modname = "verif_kani_" + hf["file"][:-3]

        def tr_mod(lines, hf=hf, modname=modname):
            return lines + ["#[cfg(any(kani, verif_replay))]", '#[path = "%s"]' % hf["path"], "pub(crate) mod %s;" % modname]
        add_lines(hf["target"], tr_mod)
    return added


def kani_cmd(crate, harnesses, extra=()):
    cfg = CRATES[crate]
    cmd = ["cargo", "kani"] + cfg["flags"] + ["-Z", "stubbing", "-Z", "function-contracts"]
    for h in harnesses:
        cmd += ["--harness", h]
    cmd += list(extra)
    return cmd


def run_kani(scratch, crate, harness, timeout, extra=()):
    cfg = CRATES[crate]
    env = dict(os.environ, CARGO_NET_OFFLINE="true", CARGO_TARGET_DIR=os.path.join(CACHE, "kani-target-" + crate))
    cmd = kani_cmd(crate, [harness], extra)
    t0 = time.time()
    try:
        p = subprocess.run(cmd, cwd=os.path.join(scratch, cfg["dir"]), env=env, capture_output=True, text=True, timeout=timeout)
        out, rc, to = p.stdout + "\n" + p.stderr, p.returncode, False
    except subprocess.TimeoutExpired as e:
        out = ((e.stdout or b"").decode("utf-8", "replace") if isinstance(e.stdout, bytes) else (e.stdout or "")) + "\nTIMEOUT"
        rc, to = -1, True
    return {"cmd": " ".join(cmd), "out": out, "rc": rc, "timeout": to, "wall_s": time.time() - t0}


def classify(r):
    out = r["out"]
    res = {"status": "tool-error", "checks": None, "failed_checks": [], "covers": None, "solver_s": None}
    if r["timeout"] or "CBMC timed out" in out:
        res["status"] = "timeout"
        return res
    if "CBMC failed" in out and "Failed Checks" not in out:
        res["status"] = "tool-error"
        return res
    m = re.search(r"\*\* (\d+) of (\d+) failed", out)
    if m:
        res["checks"] = int(m.group(2))
    m = re.search(r"\*\* (\d+) of (\d+) cover properties satisfied", out)
    if m:
        res["covers"] = (int(m.group(1)), int(m.group(2)))
    m = re.search(r"Verification Time: ([0-9.]+)s", out)
    if m:
        res["solver_s"] = float(m.group(1))
    if "VERIFICATION:- SUCCESSFUL" in out:
        res["status"] = "ok"
    elif "VERIFICATION:- FAILED" in out:
        res["status"] = "failed"
        for m in re.finditer(r"Failed Checks: (.*)\n\s*File: \"([^\"]*)\", line (\d+), in (\S+)", out):
            res["failed_checks"].append({"msg": m.group(1), "file": m.group(2), "line": int(m.group(3)), "in": m.group(4)})
        if any("unwinding assertion" in f["msg"] for f in res["failed_checks"]):
            res["unwinding"] = True
    return res


def parse_multi(out):
    """split `-j N --output-format terse` output into per-harness blocks (keyed by short harness name)"""
    cur = {}   # thread -> harness
    blocks = {}
    thread = None
    for ln in out.split("\n"):
        m = re.match(r"^Thread (\d+): Checking harness (\S+?)\.\.\.", ln)
        if m:
            cur[m.group(1)] = m.group(2).split("::")[-1]
            blocks.setdefault(cur[m.group(1)], [])
            thread = None
            continue
        m = re.match(r"^Thread (\d+):\s*$", ln)
        if m:
            thread = m.group(1)
            continue
        m = re.match(r"^Checking harness (\S+?)\.\.\.", ln)
        if m:  # sequential mode
            cur["seq"] = m.group(1).split("::")[-1]
            blocks.setdefault(cur["seq"], [])
            thread = "seq"
            continue
        if thread is not None and thread in cur:
            blocks[cur[thread]].append(ln)
            if ln.startswith("Verification Time:"):
                thread = None if thread != "seq" else "seq"
    return {k: "\n".join(v) for k, v in blocks.items()}


def parse_playback(out):
    """concrete playback tests printed by Kani: returns list of (check description, [bytes...]) for non-cover checks"""
    res = []
    for m in re.finditer(r"/// Check for `(\w+)`: (.*?)\n(?:.*?\n)*?\s*let concrete_vals: Vec<Vec<u8>> = vec!\[(.*?)\n\s*\];", out, re.S):
        kind, desc, body = m.group(1), m.group(2).strip(), m.group(3)
        vals = []
        for vm in re.finditer(r"vec!\[([0-9, ]*)\]", body):
            vals.append([int(x) for x in vm.group(1).replace(" ", "").split(",") if x != ""])
        res.append((kind, desc, vals))
    return res


def build_replay_binary(scratch, crate):
    cfg = CRATES[crate]
    env = dict(os.environ, CARGO_NET_OFFLINE="true", CARGO_TARGET_DIR=os.path.join(CACHE, "target-demo"))
    cmd = ["cargo", "rustc", "--offline", "-p", crate, "--lib", "--profile", "test", "--message-format=json", "--", "--cfg", "verif_replay", "-A", "warnings"]
    p = subprocess.run(cmd, cwd=scratch, env=env, capture_output=True, text=True)
    exe = None
    for ln in p.stdout.split("\n"):
        if ln.startswith("{"):
            try:
                j = json.loads(ln)
            except Exception:
                continue
            if j.get("reason") == "compiler-artifact" and j.get("executable") and j.get("target", {}).get("name", "").replace("-", "_") == crate.replace("-", "_"):
                exe = j["executable"]
    return exe, p.stderr[-3000:]


def run_replay(exe, harness, values_path, cwd):
    env = dict(os.environ, VERIF_REPLAY_VALUES=values_path, RUST_BACKTRACE="0")
    p = subprocess.run([exe, harness, "--nocapture", "--test-threads", "1"], cwd=cwd, env=env, capture_output=True, text=True, timeout=300)
    out = p.stdout + p.stderr
    void = "VERIF-REPLAY: assumption not met" in out
    ran = re.search(r"running (\d+) test", out)
    n = int(ran.group(1)) if ran else 0
    return {"rc": p.returncode, "out": out[-4000:], "void": void, "ran": n}


def write_values(path, vals, header):
    with open(path, "w") as f:
        f.write("# %s\n" % header)
        for v in vals:
            f.write(" ".join(str(b) for b in v) + "\n")


def run_property(prop, tier, repo, workdir, ledger, seed):
    res = {"obligations": [], "undecided": [], "bounded": [], "cmds": [], "functions": [], "trusted": [], "vacuity": {}}
    hs = [h for h in all_harnesses() if prop in h["props"] and (tier == "thorough" or h["tier"] == "quick")]
    skipped = [h for h in all_harnesses() if prop in h["props"] and h not in hs]
    for h in skipped:
        if h["kind"] in ("bounded", "attempt"):
            res["bounded"].append({"name": h["name"], "kind": h["kind"], "bound": h["bound"] or "unbounded attempt under a time cap", "status": "not run (thorough tier only)"})
    if not hs:
        return res
    covers_ok = covers_all = 0
    replay_dir = os.environ.get("VERIF_EVIDENCE_DIR") and os.path.join(os.environ["VERIF_EVIDENCE_DIR"], "replay") or os.path.join(ROOT, "replay")
    for crate in sorted(set(h["crate"] for h in hs)):
        chs = [h for h in hs if h["crate"] == crate]
        scratch = os.path.join(workdir, "k-" + crate)
        os.makedirs(scratch, exist_ok=True)
        try:
            inject(repo, scratch, crate)
        except Exception as e:  # lost target file, non add-only diff ...
            res["undecided"].append("kani %s: injection failed: %s" % (crate, e))
            continue
        cfg = CRATES[crate]
        tmo = max(h["timeout"] for h in chs)
        extra = ["-j", str(min(12, len(chs))), "--output-format", "terse", "-Z", "unstable-options", "--harness-timeout", "%ds" % tmo]
        cmd = kani_cmd(crate, [h["name"] for h in chs], extra)
        env = dict(os.environ, CARGO_NET_OFFLINE="true", CARGO_TARGET_DIR=os.path.join(CACHE, "kani-target-" + crate))
        res["cmds"].append("(cd <scratch>/%s && %s)" % (cfg["dir"], " ".join(cmd)))
        t0 = time.time()
        try:
            p = subprocess.run(cmd, cwd=os.path.join(scratch, cfg["dir"]), env=env, capture_output=True, text=True, timeout=tmo * 2 + 600)
            out = p.stdout + "\n" + p.stderr
        except subprocess.TimeoutExpired:
            res["undecided"].append("kani %s: overall timeout" % crate)
            continue
        blocks = parse_multi(p.stdout)
        if not blocks:
            res["undecided"].append("kani %s: no harness output (build failed?): %s" % (crate, out[-1500:]))
            continue
        replay_exe = None
        for h in chs:
            blk = blocks.get(h["name"])
            name = "kani:%s:%s" % (crate, h["name"])
            o = {"name": name, "backend": "kani-cbmc", "harness": h["name"], "fn": h["fn"], "desc": h["desc"], "kind": h["kind"]}
            if blk is None:
                c = {"status": "tool-error", "checks": None, "covers": None, "solver_s": None, "failed_checks": []}
                if "CBMC timed out" in out or "timed out" in out:
                    c["status"] = "timeout"
            else:
                c = classify({"out": blk, "timeout": "timed out" in blk and "VERIFICATION" not in blk, "rc": 0})
            o["checks"] = c["checks"]
            o["ms"] = round((c["solver_s"] or 0) * 1000, 1)
            if c["covers"]:
                covers_ok += c["covers"][0]
                covers_all += c["covers"][1]
            if c["status"] == "ok":
                if c["covers"] and c["covers"][0] != c["covers"][1]:
                    o["status"] = "undecided"
                    res["undecided"].append("%s: vacuity: only %d of %d cover properties satisfied" % (name, c["covers"][0], c["covers"][1]))
                else:
                    o["status"] = "discharged"
            elif c["status"] == "failed" and c.get("unwinding") and h["name"] in ledger and any(
                    "unwinding assertion" in f["msg"] and f["file"].startswith(cfg["dir"] + "/") for f in c["failed_checks"]):
                # A loop in the library itself now iterates more often than the bound under which this harness was complete on the
                # reference tree (bounded by a type constant there): possible unbounded / peer-controlled loop.  Kani gives no input
                # for an unwinding failure, so this is reported without a witness.
                o["status"] = "failed"
                o["witness"] = False
                o["errors"] = [{"msg": "loop bound exceeded: %s" % f["msg"], "text": "%s (%s:%d in %s): iterates more often than the unwinding bound that was complete on the reference tree" % (f["msg"], f["file"], f["line"], f["in"]),
                                "where": [{"gen_line": f["line"], "origin": ("repo", f["file"], f["line"])}], "level": "error"} for f in c["failed_checks"] if "unwinding" in f["msg"]]
                os.makedirs(replay_dir, exist_ok=True)
                rp = os.path.join(replay_dir, "%s-kani-%s.json" % (prop, h["name"]))
                with open(rp, "w") as f:
                    json.dump({"property": prop, "obligation": name, "backend": "kani-cbmc", "function": h["fn"], "contract": h["desc"],
                               "failed_checks": c["failed_checks"], "verdict": "no-failing-input-found",
                               "note": "unwinding assertion failed inside the library: the loop is no longer bounded by the constant that bounded it on the reference tree",
                               "verifier_output": blk[-3000:] if blk else ""}, f, indent=1)
                o["replay"] = rp
            elif c["status"] == "failed" and not c.get("unwinding"):
                o["errors"] = [{"msg": f["msg"], "text": "%s (%s:%d in %s)" % (f["msg"], f["file"], f["line"], f["in"]), "where": [{"gen_line": f["line"], "origin": ("repo", f["file"], f["line"])}], "level": "error"} for f in c["failed_checks"]]
                if h["name"] not in ledger:
                    o["status"] = "undecided"
                    res["undecided"].append("%s: fails but is not in the expected-green ledger: %s" % (name, "; ".join(f["msg"] for f in c["failed_checks"][:3])))
                else:
                    # counterexample + replay on the real code with the repository's toolchain
                    r1 = run_kani(scratch, crate, h["name"], h["timeout"], extra=["-Z", "concrete-playback", "--concrete-playback=print"])
                    pb = [x for x in parse_playback(r1["out"]) if x[0] != "cover"]
                    o["status"] = "failed"
                    o["witness"] = False
                    os.makedirs(replay_dir, exist_ok=True)
                    rp = os.path.join(replay_dir, "%s-kani-%s.json" % (prop, h["name"]))
                    doc = {"property": prop, "obligation": name, "backend": "kani-cbmc", "function": h["fn"], "contract": h["desc"],
                           "failed_checks": c["failed_checks"], "harness_file": os.path.join(KDIR, h["file"]), "witnesses": []}
                    if pb:
                        if replay_exe is None:
                            replay_exe, berr = build_replay_binary(scratch, crate)
                        confirmed = False
                        for kind, desc, vals in pb[:4]:
                            vp = os.path.join(replay_dir, "%s-kani-%s.values" % (prop, h["name"]))
                            write_values(vp, vals, "%s: %s" % (h["name"], desc))
                            w = {"check": desc, "values_le_bytes": vals, "values_file": vp}
                            if replay_exe:
                                rr = run_replay(replay_exe, h["name"], vp, os.path.join(scratch, cfg["dir"]))
                                w["replay_rc"] = rr["rc"]
                                w["replay_output_tail"] = rr["out"][-1500:]
                                w["replay_void"] = rr["void"]
                                if rr["rc"] != 0 and not rr["void"] and rr["ran"] > 0:
                                    confirmed = True
                                    doc["witnesses"].append(w)
                                    break
                            doc["witnesses"].append(w)
                        o["witness"] = confirmed
                        if not confirmed and replay_exe:
                            # the verifier's model disagrees with the real execution: artefact, not a violation
                            o["status"] = "undecided"
                            res["undecided"].append("%s: Kani counterexample does not reproduce on the real code (model artefact)" % name)
                    doc["how_to_replay"] = "./check %s --replay %s" % (prop, rp)
                    doc["verdict"] = "confirmed on real code" if o.get("witness") else "no-failing-input-found"
                    with open(rp, "w") as f:
                        json.dump(doc, f, indent=1)
                    o["replay"] = rp
            else:
                o["status"] = "undecided"
                why = "unwinding bound too small" if c.get("unwinding") else c["status"]
                if h["kind"] not in ("bounded", "attempt"):
                    res["undecided"].append("%s: %s" % (name, why))
            if h["kind"] in ("bounded", "attempt"):
                res["bounded"].append({"name": h["name"], "kind": h["kind"], "bound": h["bound"] or "unbounded attempt under a time cap", "status": {"discharged": "passed within the bound", "failed": "FAILED"}.get(o["status"], "not finished (%s)" % c["status"]),
                                       "checks": c["checks"], "solver_s": c["solver_s"]})
                if o["status"] == "failed":
                    res["obligations"].append(o)
            else:
                res["obligations"].append(o)
                if h["fn"]:
                    res["functions"].append("%s (kani harness %s)" % (h["fn"], h["name"]))
    res["vacuity"] = {"kani_covers_satisfied": covers_ok, "kani_covers_total": covers_all}
    res["trusted"] = ["kani: CBMC bit-precise model of the compiled crate; harness assumptions are listed per harness in contracts/kani/*.rs",
                      "kani: tracing macros replaced by no-ops under cfg(kani) (added lines only)"]
    return res


def update_ledger(repo, workdir):
    """run every quick+thorough proof harness once; the green ones form the ledger"""
    led = {}
    for prop in sorted(set(p for h in all_harnesses() for p in h["props"] if p)):
        pass
    # run all harnesses through run_property-like path per crate using a pseudo property
    hs = [h for h in all_harnesses() if h["kind"] != "attempt"]
    for crate in sorted(set(h["crate"] for h in hs)):
        chs = [h for h in hs if h["crate"] == crate]
        scratch = os.path.join(workdir, "k-" + crate)
        os.makedirs(scratch, exist_ok=True)
        inject(repo, scratch, crate)
        cfg = CRATES[crate]
        tmo = max(h["timeout"] for h in chs)
        extra = ["-j", "12", "--output-format", "terse", "-Z", "unstable-options", "--harness-timeout", "%ds" % tmo]
        cmd = kani_cmd(crate, [h["name"] for h in chs], extra)
        env = dict(os.environ, CARGO_NET_OFFLINE="true", CARGO_TARGET_DIR=os.path.join(CACHE, "kani-target-" + crate))
        p = subprocess.run(cmd, cwd=os.path.join(scratch, cfg["dir"]), env=env, capture_output=True, text=True)
        blocks = parse_multi(p.stdout)
        if not blocks:
            print("ledger: kani %s produced no output: %s" % (crate, (p.stdout + p.stderr)[-3000:]))
        for h in chs:
            blk = blocks.get(h["name"])
            c = classify({"out": blk or "", "timeout": False, "rc": 0})
            print("ledger: kani %-40s %-10s checks=%s covers=%s %.1fs" % (h["name"], c["status"], c["checks"], c["covers"], c["solver_s"] or 0))
            if c["status"] == "ok" and (not c["covers"] or c["covers"][0] == c["covers"][1]):
                led[h["name"]] = {"props": h["props"], "kind": h["kind"]}
            elif c["status"] == "failed":
                print("   " + "; ".join("%s @%s:%d" % (f["msg"], f["file"], f["line"]) for f in c["failed_checks"][:4]))
    return led


def replay(prop, path, repo):
    """re-run the recorded witness of a Kani violation against the current tree"""
    import tempfile
    doc = json.load(open(path))
    if doc.get("backend") != "kani-cbmc" or not doc.get("witnesses"):
        print("replay file carries no concrete input (%s); re-run ./check %s to re-verify" % (doc.get("verdict", doc.get("kind")), prop))
        print(json.dumps(doc.get("verifier_output", doc.get("failed_checks")), indent=1)[:3000])
        return 1
    harness = doc["obligation"].split(":")[-1]
    crate = doc["obligation"].split(":")[1]
    wd = tempfile.mkdtemp(prefix="qverif.replay.", dir="/var/tmp")
    try:
        inject(repo, wd, crate)
        exe, err = build_replay_binary(wd, crate)
        if not exe:
            print("cannot build replay binary: %s" % err)
            return 2
        w = doc["witnesses"][-1]
        vp = os.path.join(wd, "values.txt")
        write_values(vp, w["values_le_bytes"], w["check"])
        rr = run_replay(exe, harness, vp, os.path.join(wd, CRATES[crate]["dir"]))
        print(rr["out"][-3000:])
        print("replay %s: %s" % (harness, "FAILS on this tree (violation reproduced)" if rr["rc"] != 0 and not rr["void"] else "passes on this tree"))
        return 1 if rr["rc"] != 0 and not rr["void"] else 0
    finally:
        shutil.rmtree(wd, ignore_errors=True)
