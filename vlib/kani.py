"""Kani back end (filled in below)."""


def run_property(prop, tier, repo, workdir, ledger, seed):
    return {"obligations": [], "undecided": [], "bounded": [], "cmds": [], "functions": [], "trusted": [], "vacuity": {}}


def update_ledger(repo, workdir):
    return {}


def replay(prop, path, repo):
    print("replay: %s" % path)
    return 0
