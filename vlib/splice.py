"""Contract splicer: composes a single-file Verus input from a unit template (contracts/verus/<unit>.rs)
and the *current text* of /repo.  Code is copied by byte span (spans come from tools/vextract, a syn-based
indexer); the only changes made to copied text are the rewrites R1..R14 of DESIGN.md section 4.1, each of
which is counted in the report that ends up in the evidence file.

Template directives (line based, inside an otherwise ordinary Verus file):

    //@ extract <repo-relative file> :: <item path> [#ordinal]
    //@ props C05 C11            obligations of this item count for these properties (default: unit props)
    //@ ret <name>               name the return value:  -> T   becomes   -> (name: T)
    //@ vis <text|none>          visibility to use (default `pub`, none inside traits / trait impls)
    //@ attr <text>              attribute line to put in front of the item
    //@ derive A B C             derives to keep on a struct/enum (default Clone Copy PartialEq Eq)
    //@ contract                 following lines: requires / ensures / decreases, placed before the body
    //@ loop <k>                 following lines: invariant / decreases for the k-th loop (pre-order)
    //@ closure <k> : <T1>, <T2> -> (<name>: <R>)     following lines: ensures for k-th closure (R4)
    //@ before <anchor> [#n]     following lines spliced before the n-th statement whose text starts with anchor
    //@ after <anchor> [#n]      same, after it
    //@ at-start / at-end        following lines spliced at the start / end of the body
    //@ loop-start <k> / loop-end <k>   following lines spliced at the start / end of the body of loop k
    //@ loop-iter <k> <name>     name the ghost iterator of for-loop k:  for x in e  becomes  for x in name: e
    //@ boolops                  apply R14 to `|=` / `&=` in this function
    //@ debug-assert keep|drop   R6: turn debug_assert!/assert! into proof obligations (default keep) or drop them
    //@ replace <from> => <to>   literal replacement inside the copied text (logged as manual rewrite; must match once);
    //                           `ws:<from>` matches with any white space between the blank-separated tokens of <from>
    //@ rename-generic <A> <B>   R11
    //@ retain-loop <k> : <T>    R18: the statement `recv.retain(|x| { BODY });` whose closure is the k-th of the function becomes an explicit
    //                           loop (pop from the front, run BODY, keep in a new queue); following lines: the loop's invariant / ensures / decreases
    //@ tail-after <anchor> [#n] R17: following lines are a function header; the item's attributes, signature and every statement up
    //                           to and including the n-th direct body statement starting with anchor are dropped, the rest of the body
    //                           is checked as the body of that header (the dropped statements are counted in the report)
    //@ end
"""
import json, os, re, subprocess, sys

VEXTRACT = os.path.join(os.path.dirname(os.path.dirname(os.path.abspath(__file__))), "tools", "vextract", "target", "release", "vextract")

TRACING_MACROS = {"trace", "debug", "info", "warn", "error", "tracing::trace", "tracing::debug", "tracing::info", "tracing::warn", "tracing::error"}
KEEP_DERIVES_DEFAULT = ["Clone", "Copy", "PartialEq", "Eq"]


class SpliceError(Exception):
    """construct outside the extraction subset / lost item: the run is undecided (exit 2), never an alarm"""


_span_cache = {}


def spans_of(path):
    st = os.stat(path)
    key = (path, st.st_mtime_ns, st.st_size)
    if key in _span_cache:
        return _span_cache[key]
    p = subprocess.run([VEXTRACT, "spans", path], capture_output=True, text=True)
    if p.returncode != 0:
        raise SpliceError("vextract failed on %s: %s" % (path, p.stderr.strip()))
    doc = json.loads(p.stdout)[0]
    with open(path, "rb") as f:
        doc["bytes"] = f.read()
    _span_cache[key] = doc
    return doc


def find_item(doc, path, ordinal=0):
    hits = []

    def walk(items, parent):
        for it in items:
            if it.get("path") == path:
                hits.append((it, parent))
            walk(it.get("children", []), it)

    walk(doc["items"], None)
    hits = [h for h in hits if not h[0].get("cfg_test")]
    if len(hits) <= ordinal:
        raise SpliceError("item not found: %s #%d in %s" % (path, ordinal, doc["file"]))
    return hits[ordinal]


def norm(s):
    return " ".join(s.split())


def split_top_commas(s):
    """split macro arguments at top-level commas (parens/brackets/braces/strings/chars aware)"""
    out, depth, cur, i = [], 0, [], 0
    n = len(s)
    while i < n:
        c = s[i]
        if c == '"':
            j = i + 1
            while j < n and s[j] != '"':
                j += 2 if s[j] == "\\" else 1
            cur.append(s[i:j + 1]); i = j + 1; continue
        if c == "'" and i + 2 < n and (s[i + 2] == "'" or (s[i + 1] == "\\" and i + 3 < n and s[i + 3] == "'")):
            j = i + (3 if s[i + 1] == "\\" else 2)
            cur.append(s[i:j + 1]); i = j + 1; continue
        if c in "([{":
            depth += 1
        elif c in ")]}":
            depth -= 1
        if c == "," and depth == 0:
            out.append("".join(cur)); cur = []
        else:
            cur.append(c)
        i += 1
    if "".join(cur).strip():
        out.append("".join(cur))
    return [x.strip() for x in out]


class Edits:
    def __init__(self, src, start, end, relfile):
        self.src, self.start, self.end, self.relfile = src, start, end, relfile
        self.eds = []  # (s, e, text, prio)
        self.lo, self.head = None, ""  # R17: keep only the text from byte `lo` on; `head` replaces what comes before

    def replace(self, s, e, text):
        self.eds.append((s, e, text, 0))

    def insert(self, pos, text, prio=0):
        self.eds.append((pos, pos, text, prio))

    def render(self):
        """returns list of (text, origin) pieces; origin = ('repo', relfile, byte_offset) or ('contract',)"""
        eds = sorted(self.eds, key=lambda t: (t[0], 0 if t[0] == t[1] else 1, t[3]))
        # check for overlaps among replacements
        pieces, pos = [], self.start
        if self.lo is not None:
            eds = [t for t in eds if t[0] >= self.lo]
            pieces, pos = [(self.head, ("contract",))], self.lo
        for s, e, text, _ in eds:
            if s < pos:
                if s == e and s >= self.start:
                    # insertion inside an already replaced region: drop silently is unsafe -> error
                    raise SpliceError("overlapping edits at byte %d of %s" % (s, self.relfile))
                raise SpliceError("overlapping edits at byte %d of %s" % (s, self.relfile))
            if s > pos:
                pieces.append((self.src[pos:s].decode("utf-8"), ("repo", self.relfile, pos)))
            if text:
                pieces.append((text, ("contract",)))
            pos = e
        if pos < self.end:
            pieces.append((self.src[pos:self.end].decode("utf-8"), ("repo", self.relfile, pos)))
        return pieces


class Directive:
    def __init__(self, file, path, ordinal, tline):
        self.file, self.path, self.ordinal, self.tline = file, path, ordinal, tline
        self.props = None
        self.ret = None
        self.vis = "pub"
        self.vis_set = False
        self.attrs = []
        self.derive = None
        self.contract = None
        self.loops = {}
        self.loop_iters = {}
        self.closures = {}
        self.splices = []  # (kind, anchor, nth, text, tline)
        self.boolops = False
        self.debug_assert = "keep"
        self.replaces = []
        self.rename_generic = []
        self.drop_body = False
        self.exec_const = None
        self.tail_after = None  # (anchor, nth, header text)
        self.retain_loops = {}  # closure index -> (element type, loop clauses)


def select_variant(text, variant):
    """`//@ only a b` ... `//@ endonly` sections are kept only for the listed variants (a unit template can be verified as several
    smaller Verus inputs - same real code, different subsets of the postcondition clauses - to keep each SMT query small)"""
    out, keep = [], True
    for ln in text.split("\n"):
        st = ln.strip()
        if st.startswith("//@ only "):
            keep = variant in st.split()[2:]
            continue
        if st == "//@ endonly":
            keep = True
            continue
        if keep:
            out.append(ln)
    return "\n".join(out)


def parse_template(text, unit_path):
    """returns list of chunks: ('text', str, first_line_no) | ('extract', Directive)"""
    chunks, lines, i = [], text.split("\n"), 0
    buf, buf_start = [], 1
    header = {"props": [], "title": ""}
    while i < len(lines):
        ln = lines[i]
        st = ln.strip()
        if st.startswith("//! props:"):
            header["props"] = st.split(":", 1)[1].split()
        if st.startswith("//@ expand-consts "):
            if buf:
                chunks.append(("text", "\n".join(buf) + "\n", buf_start)); buf = []
            parts = [x.strip() for x in st[len("//@ expand-consts "):].split("::", 2)]
            # the template may itself contain `::`; the macro path never does beyond `macro name`
            chunks.append(("expand", parts[0], parts[1], parts[2], i + 1))
            i += 1
            buf_start = i + 1
            continue
        if st.startswith("//@ extract "):
            if buf:
                chunks.append(("text", "\n".join(buf) + "\n", buf_start)); buf = []
            m = re.match(r"//@ extract\s+(\S+)\s*::\s*(.+?)(?:\s+#(\d+))?\s*$", st)
            if not m:
                raise SpliceError("%s:%d: bad extract directive" % (unit_path, i + 1))
            d = Directive(m.group(1), m.group(2).strip(), int(m.group(3) or 0), i + 1)
            i += 1
            cur = None  # current payload target: (kind, key)
            payload = []

            def flush():
                nonlocal cur, payload
                if cur is None:
                    return
                t = "\n".join(payload)
                k = cur[0]
                if k == "contract":
                    d.contract = t
                elif k == "loop":
                    d.loops[cur[1]] = t
                elif k == "closure":
                    d.closures[cur[1]] = (cur[2], cur[3], t)
                elif k in ("before", "after", "at-start", "at-end", "loop-start", "loop-end"):
                    d.splices.append((k, cur[1], cur[2], t, cur[3]))
                elif k == "tail-after":
                    d.tail_after = (cur[1], cur[2], t)
                elif k == "retain-loop":
                    d.retain_loops[cur[1]] = (cur[2], t)
                cur, payload = None, []

            while i < len(lines):
                s2 = lines[i].strip()
                if s2.startswith("//@"):
                    body = s2[3:].strip()
                    if body == "end":
                        flush(); break
                    flush()
                    w = body.split(None, 1)
                    key, rest = w[0], (w[1] if len(w) > 1 else "")
                    if key == "props":
                        d.props = rest.split()
                    elif key == "ret":
                        d.ret = rest.strip()
                    elif key == "vis":
                        d.vis = "" if rest.strip() == "none" else rest.strip(); d.vis_set = True
                    elif key == "attr":
                        d.attrs.append(rest)
                    elif key == "derive":
                        d.derive = rest.split()
                    elif key == "contract":
                        cur = ("contract",)
                    elif key == "loop":
                        cur = ("loop", int(rest))
                    elif key == "closure":
                        m2 = re.match(r"(\d+)\s*:\s*(.*?)\s*->\s*(\(.*\))\s*$", rest)
                        if not m2:
                            raise SpliceError("%s:%d: bad closure directive" % (unit_path, i + 1))
                        tys = [x.strip() for x in split_top_commas(m2.group(2))] if m2.group(2).strip() else []
                        cur = ("closure", int(m2.group(1)), tys, m2.group(3))
                    elif key == "retain-loop":
                        m2 = re.match(r"(\d+)\s*:\s*(.+)$", rest)
                        if not m2:
                            raise SpliceError("%s:%d: bad retain-loop directive" % (unit_path, i + 1))
                        cur = ("retain-loop", int(m2.group(1)), m2.group(2).strip())
                    elif key == "tail-after":
                        m2 = re.match(r"(.*?)(?:\s+#(\d+))?$", rest)
                        cur = ("tail-after", norm(m2.group(1)), int(m2.group(2) or 0))
                    elif key in ("before", "after"):
                        m2 = re.match(r"(.*?)(?:\s+#(\d+))?$", rest)
                        cur = (key, norm(m2.group(1)), int(m2.group(2) or 0), i + 1)
                    elif key in ("at-start", "at-end"):
                        cur = (key, None, 0, i + 1)
                    elif key in ("loop-start", "loop-end"):
                        cur = (key, None, int(rest), i + 1)
                    elif key == "loop-iter":
                        k2, nm = rest.split()
                        d.loop_iters[int(k2)] = nm
                    elif key == "exec-const":
                        d.exec_const = rest
                    elif key == "boolops":
                        d.boolops = True
                    elif key == "debug-assert":
                        d.debug_assert = rest.strip()
                    elif key == "replace":
                        # `==>>` separates pattern and replacement when the pattern itself contains `=>` (match arms)
                        a, b = rest.split("==>>", 1) if "==>>" in rest else rest.split("=>", 1)
                        d.replaces.append((a.strip(), b.strip()))
                    elif key == "rename-generic":
                        a, b = rest.split()
                        d.rename_generic.append((a, b))
                    else:
                        raise SpliceError("%s:%d: unknown directive %s" % (unit_path, i + 1, key))
                else:
                    payload.append(lines[i])
                i += 1
            else:
                raise SpliceError("%s: unterminated extract block" % unit_path)
            chunks.append(("extract", d))
            i += 1
            buf_start = i + 1
            continue
        buf.append(ln)
        i += 1
    if buf:
        chunks.append(("text", "\n".join(buf), buf_start))
    return header, chunks


def _strip_attrs(ed, attrs, keep_derive=None, report=None):
    """delete attributes (doc comments included); keep a filtered derive"""
    for a in attrs:
        s, e = a["span"]
        if a["name"] == "derive" and keep_derive is not None:
            inner = a["text"][a["text"].index("(") + 1:a["text"].rindex(")")]
            names = [x.strip() for x in inner.split(",") if x.strip()]
            kept = [n for n in names if n.split("::")[-1] in keep_derive]
            dropped = [n for n in names if n.split("::")[-1] not in keep_derive]
            if dropped and report is not None:
                report["R7"] = report.get("R7", 0) + len(dropped)
            ed.replace(s, e, "#[derive(%s)]" % ", ".join(kept) if kept else "")
        elif a["name"] in ("repr",):
            pass
        else:
            ed.replace(s, e, "")


def render_fn(doc, it, parent, d, relfile, report, twin=False):
    src = doc["bytes"]
    s0, e0 = it["span"]
    ed = Edits(src, s0, e0, relfile)
    rw = report["rewrites"]
    sig, body = it["sig"], it.get("body")
    _strip_attrs(ed, it["attrs"])
    in_trait = parent is not None and (parent["kind"] == "trait" or (parent["kind"] == "impl" and parent.get("trait")))
    # R2 visibility
    vis_text = d.vis if (d.vis_set or not in_trait) else ""
    head = ""
    for a in d.attrs:
        head += a + "\n"
    if it.get("vis"):
        ed.replace(it["vis"][0], it["vis"][1], vis_text)
        if vis_text != src[it["vis"][0]:it["vis"][1]].decode():
            rw["R2"] = rw.get("R2", 0) + 1
        if head:
            ed.insert(it["vis"][0], head, -1)
    else:
        ed.insert(sig["span"][0], head + (vis_text + " " if vis_text else ""), -1)
        if vis_text:
            rw["R2"] = rw.get("R2", 0) + 1
    # R3 wildcard params
    for k, inp in enumerate(sig["inputs"]):
        if not inp.get("receiver") and inp.get("wild"):
            ed.replace(inp["pat"][0], inp["pat"][1], "_p%d" % k)
            rw["R3"] = rw.get("R3", 0) + 1
    # R11
    for a, b in d.rename_generic:
        found = False
        for g in sig["generics"]:
            if g["name"] == a:
                found = True
        if not found:
            raise SpliceError("rename-generic: %s not a generic of %s" % (a, it["path"]))
        # rename every identifier token `a` inside the signature span
        ss, se = sig["span"]
        txt = src[ss:se].decode()
        for m in re.finditer(r"\b%s\b" % re.escape(a), txt):
            ed.replace(ss + m.start(), ss + m.end(), b)
        rw["R11"] = rw.get("R11", 0) + 1
    # R1 return name
    if d.ret:
        if sig["output_ty"]:
            a, b = sig["output_ty"]
            ed.insert(a, "(%s: " % d.ret)
            ed.insert(b, ")")
        else:
            ed.insert(sig["paren_close"], " -> (%s: ())" % d.ret)
    # contract
    contract = d.contract or ""
    if body is None:
        if d.contract:
            ed.insert(it["semi"], "\n" + contract + "\n")
        return ed.render()
    if d.tail_after:
        # R17: the tail of a function as a function of its own.  Everything up to and including the anchor statement (a direct
        # statement of the body) is dropped and replaced by the header given in the template; the rest is the repository text.
        anchor, nth, header = d.tail_after
        top = [st for st in body["stmts"] if st["block_open"] == body["open"]]
        cands = [st for st in top if st["norm"].startswith(anchor)]
        if len(cands) <= nth:
            report["lost_anchors"].append("%s: tail-after `%s` #%d" % (it["path"], anchor, nth))
        else:
            ed.lo = cands[nth]["span"][1]
            ed.head = header + "\n" + contract + "\n{"
            rw["R17"] = rw.get("R17", 0) + 1
            rw["R17-dropped-stmts"] = len([st for st in top if st["span"][1] <= ed.lo])
            if contract.strip():
                rw["R1"] = rw.get("R1", 0) + 1
            contract = ""
    if contract.strip():
        ed.insert(body["open"], "\n" + contract + "\n    ", -1)
        rw["R1"] = rw.get("R1", 0) + 1
    if twin == "exits" or (isinstance(twin, tuple) and twin[0] == "exits"):
        # exit probes (tools/exit_probes.py): `assert(false)` in front of every `return` and of the tail expression; each must FAIL.
        # One that verifies marks an exit that is unreachable under the contracts in force -- or a contradiction among trusted contracts.
        k = 0
        lastst = None
        for st in body["stmts"]:
            if st["block_open"] == body["open"] and (lastst is None or st["span"][0] > lastst["span"][0]):
                lastst = st
        for st in body["stmts"]:
            if st["norm"].startswith("return") or (st is lastst and st["kind"] == "expr"):
                # one probe per function and run (Verus stops reporting after the first few failed assertions of a function)
                if not isinstance(twin, tuple) or twin[1] == k:
                    ed.insert(st["span"][0], "proof { assert(false); } /*VPROBE %s #%d*/ " % (it["path"], k), -9)
                else:
                    ed.insert(st["span"][0], "/*VSKIP %s #%d*/ " % (it["path"], k), -9)
                k += 1
    elif twin:
        # vacuity twin: `assert(false)` at the start of the body must FAIL; if it verifies, the precondition is contradictory.
        # (the check is local to the function: callers only see the contract, which is unchanged)
        ed.insert(ed.lo if ed.lo is not None else body["open"] + 1, " proof { assert(false); } ", 9)
    # loops
    for k, text in d.loops.items():
        if k >= len(body["loops"]):
            report["lost_anchors"].append("%s: loop %d" % (it["path"], k))
            continue
        ed.insert(body["loops"][k]["body_open"], "\n" + text + "\n            ")
        rw["R1"] = rw.get("R1", 0) + 1
    for k, nm in d.loop_iters.items():
        if k >= len(body["loops"]) or body["loops"][k]["kind"] != "for":
            report["lost_anchors"].append("%s: loop-iter %d" % (it["path"], k))
            continue
        ed.insert(body["loops"][k]["iter"][0], nm + ": ")
        rw["R1"] = rw.get("R1", 0) + 1
    # R18: `<recv>.retain(|x| { BODY });`  ==>  an explicit loop that pops every element from the front, runs BODY (the repository text)
    # on it and keeps it in a new queue when BODY says so.  Verus has no specification for a `retain` whose closure mutates captured state.
    for k, (elem_ty, clauses) in d.retain_loops.items():
        if k >= len(body["closures"]):
            report["lost_anchors"].append("%s: retain-loop %d" % (it["path"], k))
            continue
        c = body["closures"][k]
        holder = [st for st in body["stmts"] if st["span"][0] <= c["span"][0] and c["span"][1] <= st["span"][1]]
        holder = sorted(holder, key=lambda st: st["span"][1] - st["span"][0])
        ok = False
        if holder and c["body_is_block"] and len(c["inputs"]) == 1 and not c["inputs"][0]["wild"]:
            st = holder[0]
            pre = src[st["span"][0]:c["span"][0]].decode()
            post = src[c["span"][1]:st["span"][1]].decode()
            m = re.match(r"^(.*)\.retain\(\s*$", pre, re.S)
            if m and post.strip() == ");":
                recv, x = m.group(1).strip(), c["inputs"][0]["text"]
                ba, bb = c["body"]
                ed.replace(st["span"][0], ba,
                           "let mut vkept: VecDeque<%s> = VecDeque::new();\n        loop\n%s\n        {\n            let vo = %s.pop_front();\n"
                           "            if vo.is_none() { break; }\n            let vitem = vo.unwrap();\n            let %s = &vitem;\n            let vkeep = "
                           % (elem_ty, clauses, recv, x))
                ed.replace(bb, st["span"][1], ";\n            if vkeep { vkept.push_back(vitem); }\n        }\n        %s = vkept;" % recv)
                rw["R18"] = rw.get("R18", 0) + 1
                ok = True
        if not ok:
            report["lost_anchors"].append("%s: retain-loop %d (not of the form `recv.retain(|x| { .. });`)" % (it["path"], k))
    # closures R4
    for k, (tys, retdecl, ens) in d.closures.items():
        if k >= len(body["closures"]):
            report["lost_anchors"].append("%s: closure %d" % (it["path"], k))
            continue
        c = body["closures"][k]
        if len(tys) != len(c["inputs"]):
            report["lost_anchors"].append("%s: closure %d arity" % (it["path"], k))
            continue
        for j, inp in enumerate(c["inputs"]):
            a, b = inp["span"]
            name = inp["text"]
            if inp["wild"]:
                name = "_p%d" % j
                rw["R3"] = rw.get("R3", 0) + 1
            if not inp["typed"]:
                ed.replace(a, b, "%s: %s" % (name, tys[j]))
            elif inp["wild"]:
                ed.replace(a, b, "%s: %s" % (name, tys[j]))
        ba, bb = c["body"]
        ed.insert(c["or2"][1], " -> %s %s " % (retdecl, ens.strip()), -1)
        if not c["body_is_block"]:
            ed.insert(ba, "{ ")
            ed.insert(bb, " }")
        rw["R4"] = rw.get("R4", 0) + 1
    # macros R5 / R6
    for m in body["macros"]:
        name = m["name"]
        ms, me = m["span"]
        args = src[m["args"][0]:m["args"][1]].decode()
        if name in TRACING_MACROS:
            if m["stmt_span"]:
                ed.replace(m["stmt_span"][0], m["stmt_span"][1], "")
            else:
                ed.replace(ms, me, "()")
            rw["R5"] = rw.get("R5", 0) + 1
        elif name in ("debug_assert", "assert", "debug_assert_eq", "assert_eq", "debug_assert_ne", "assert_ne"):
            parts = split_top_commas(args)
            if d.debug_assert == "drop":
                rep = ""
                rw["R6-dropped"] = rw.get("R6-dropped", 0) + 1
            else:
                if name.endswith("_eq"):
                    cond = "(%s) == (%s)" % (parts[0], parts[1])
                elif name.endswith("_ne"):
                    cond = "(%s) != (%s)" % (parts[0], parts[1])
                else:
                    cond = parts[0]
                rep = "assert(%s)" % cond
                rw["R6"] = rw.get("R6", 0) + 1
            if m["stmt_span"]:
                ed.replace(m["stmt_span"][0], m["stmt_span"][1], rep + (";" if rep else ""))
            else:
                ed.replace(ms, me, rep if rep else "()")
        elif name in ("unreachable", "panic", "unimplemented", "todo"):
            ed.replace(ms, me, "vstd::pervasive::unreached()")
            rw["R6"] = rw.get("R6", 0) + 1
        # matches!, vec!, etc. are left as they are
    # R15: Verus rejects `continue` inside a for-loop.  `for .. { ..; if c { A; continue; } B }`  ==>  `for .. { ..; if c { A } else { B } }`
    #      and  `for .. { ..; let P = E else { continue; }; B }`  ==>  `for .. { ..; if let P = E { B } }`
    for lp in body["loops"]:
        if lp["kind"] != "for":
            continue
        inside = [st for st in body["stmts"] if lp["body_open"] < st["span"][0] and st["span"][1] < lp["span"][1]]
        for c in [st for st in inside if st["norm"] == "continue;"]:
            # a `continue` belongs to the innermost loop around it
            inner = [l2 for l2 in body["loops"] if l2["body_open"] < c["span"][0] and c["span"][1] < l2["span"][1]]
            if min(inner, key=lambda l2: l2["span"][1] - l2["body_open"]) is not lp:
                continue
            direct = [st for st in inside if st["block_open"] == lp["body_open"] and st["span"][0] < c["block_open"] < st["span"][1]]
            last_in_block = all(o["span"][1] <= c["span"][0] for o in inside if o["block_open"] == c["block_open"] and o is not c)
            holder = [st for st in direct if st["norm"].startswith("if ")]
            letelse = [st for st in direct if st["norm"].startswith("let ")]
            if len(holder) == 1 and last_in_block and src[c["span"][1]:holder[0]["span"][1]].decode().strip() == "}":
                # the block holding `continue;` is the then-block of an else-less `if` that is a direct statement of the loop body
                ed.replace(c["span"][0], c["span"][1], "")
                ed.insert(holder[0]["span"][1], " else {", 4)
                ed.insert(lp["span"][1] - 1, "}\n", 5)
                rw["R15"] = rw.get("R15", 0) + 1
                continue
            if len(letelse) == 1 and last_in_block:
                st = letelse[0]
                txt = src[st["span"][0]:st["span"][1]].decode()
                m = re.match(r"^let\b(.*)\belse\s*\{\s*continue;\s*\}\s*;\s*$", txt, re.S)
                if m and "else" not in m.group(1).split("=", 1)[0]:
                    k = txt.rindex("else", 0, c["span"][0] - st["span"][0])
                    ed.insert(st["span"][0], "if ", -3)
                    ed.replace(st["span"][0] + k, st["span"][1], "{")
                    ed.insert(lp["span"][1] - 1, "}\n", 5)
                    rw["R15"] = rw.get("R15", 0) + 1
                    continue
            raise SpliceError("%s: `continue` in a for-loop outside the supported shape (R15)" % it["path"])
    # R14
    if d.boolops:
        for k, op in enumerate(body["assignops"]):
            if op["op"] not in ("|=", "&="):
                continue
            a, b = op["span"]
            lhs = src[op["lhs"][0]:op["lhs"][1]].decode()
            rhs = src[op["rhs"][0]:op["rhs"][1]].decode()
            j = "||" if op["op"] == "|=" else "&&"
            ed.replace(a, b, "{ let vtmp%d = %s; %s = %s %s vtmp%d; }" % (k, rhs, lhs, lhs, j, k))
            rw["R14"] = rw.get("R14", 0) + 1
    # ghost splices R10
    for kind, anchor, nth, text, tline in d.splices:
        if kind == "at-start":
            ed.insert(ed.lo if ed.lo is not None else body["open"] + 1, "\n" + text + "\n", 5)
            rw["R10"] = rw.get("R10", 0) + 1
            continue
        if kind == "at-end":
            ed.insert(body["close"], "\n" + text + "\n", 5)
            rw["R10"] = rw.get("R10", 0) + 1
            continue
        if kind in ("loop-start", "loop-end"):
            if nth >= len(body["loops"]):
                report["lost_anchors"].append("%s: %s %d" % (it["path"], kind, nth))
                continue
            lp = body["loops"][nth]
            pos = lp["body_open"] + 1 if kind == "loop-start" else lp["span"][1] - 1
            ed.insert(pos, "\n" + text + "\n", 6)
            rw["R10"] = rw.get("R10", 0) + 1
            continue
        cands = [s for s in body["stmts"] if s["norm"].startswith(anchor)]
        if len(cands) <= nth:
            report["lost_anchors"].append("%s: %s `%s` #%d" % (it["path"], kind, anchor, nth))
            continue
        stn = cands[nth]
        pos = stn["span"][0] if kind == "before" else stn["span"][1]
        ed.insert(pos, ("\n" if kind == "after" else "") + text + "\n", 5 if kind == "before" else -5)
        rw["R10"] = rw.get("R10", 0) + 1
    pieces = ed.render()
    if d.replaces:
        pieces = _apply_replaces(pieces, d, it, report)
    return pieces


def _apply_replaces(pieces, d, it, report):
    out = []
    counts = {i: 0 for i in range(len(d.replaces))}
    for text, origin in pieces:
        if origin[0] == "repo":
            for i, (a, b) in enumerate(d.replaces):
                if a.startswith("ws:"):
                    # whitespace-insensitive form: blanks in the pattern match any run of white space (an expression spread over
                    # several lines); the line breaks it covered are kept so that line numbers still map to the repository
                    rx = re.compile(r"\s*".join(re.escape(tok) for tok in a[3:].split()))
                    def _sub(m, b=b):
                        return b + "\n" * m.group(0).count("\n")
                    text, c = rx.subn(_sub, text)
                    counts[i] += c
                    continue
                c = text.count(a)
                if c:
                    counts[i] += c
                    text = text.replace(a, b)
        out.append((text, origin))
    for i, (a, b) in enumerate(d.replaces):
        if counts[i] == 0:
            report["lost_anchors"].append("%s: replace `%s`" % (it["path"], a))
        else:
            report["rewrites"]["manual"] = report["rewrites"].get("manual", 0) + counts[i]
    return out


def render_data(doc, it, parent, d, relfile, report):
    """struct / enum / const / type / static"""
    src = doc["bytes"]
    s0, e0 = it["span"]
    ed = Edits(src, s0, e0, relfile)
    rw = report["rewrites"]
    keep = d.derive if d.derive is not None else KEEP_DERIVES_DEFAULT
    _strip_attrs(ed, it["attrs"], keep_derive=keep, report=rw)
    head = "".join(a + "\n" for a in d.attrs)
    in_trait = parent is not None and (parent["kind"] == "trait" or (parent["kind"] == "impl" and parent.get("trait")))
    vis_text = d.vis if (d.vis_set or not in_trait) else ""
    if it.get("vis"):
        ed.replace(it["vis"][0], it["vis"][1], vis_text)
        rw["R2"] = rw.get("R2", 0) + 1
        if head:
            ed.insert(it["vis"][0], head, -1)
    else:
        # find the keyword start: first byte after the attributes
        pos = s0
        for a in it["attrs"]:
            pos = max(pos, a["span"][1])
        # skip whitespace
        while src[pos:pos + 1] in (b" ", b"\n", b"\t", b"\r"):
            pos += 1
        ed.insert(pos, head + (vis_text + " " if vis_text else ""), -1)
        if vis_text:
            rw["R2"] = rw.get("R2", 0) + 1
    if it["kind"] == "struct":
        for f in it["fields"]:
            if any(a["name"] == "cfg" and "feature" in a["text"] for a in f["attrs"]):
                # feature-gated field (e.g. qlog metrics): not part of the default build that is verified; dropped with its comma
                fs, fe = f["span"]
                while src[fe:fe + 1] in (b" ", b"\n", b"\t"):
                    fe += 1
                if src[fe:fe + 1] == b",":
                    fe += 1
                ed.replace(fs, fe, "")
                rw["R7-cfg-field"] = rw.get("R7-cfg-field", 0) + 1
                continue
            for a in f["attrs"]:
                ed.replace(a["span"][0], a["span"][1], "")
            if f["vis"]:
                ed.replace(f["vis"][0], f["vis"][1], "pub")
            else:
                pos = f["span"][0]
                for a in f["attrs"]:
                    pos = max(pos, a["span"][1])
                while src[pos:pos + 1] in (b" ", b"\n", b"\t", b"\r"):
                    pos += 1
                ed.insert(pos, "pub ")
            rw["R2"] = rw.get("R2", 0) + 1
    if it["kind"] == "enum":
        for v in it["variants"]:
            for a in v["attrs"]:
                ed.replace(a["span"][0], a["span"][1], "")
            for f in v["fields"]:
                for a in f["attrs"]:
                    ed.replace(a["span"][0], a["span"][1], "")
    if it["kind"] == "const" and d.exec_const:
        # `const N: T = f(a, b);`  ->  `exec const N: T ensures <template> { f(a, b) }`   (Verus: a const initialised by an exec call
        # must be an exec const, whose value is visible to callers only through its ensures).  {0},{1}.. = the call's arguments as written
        # in /repo, {expr} the whole initialiser, {name} the constant's name.
        es, ee = it["expr"]
        expr = src[es:ee].decode("utf-8")
        m = re.match(r"^[\w:<>\s]+\((.*)\)\s*$", expr, re.S)
        args = split_top_commas(m.group(1)) if m else []
        ens = d.exec_const.replace("{expr}", expr).replace("{name}", it["name"])
        for k, a in enumerate(args):
            ens = ens.replace("{%d}" % k, a)
        if re.search(r"\{\d+\}", ens):
            raise SpliceError("exec-const: initialiser of %s has fewer arguments than the template uses" % it["name"])
        ts, te = it["ty"]
        # insert `exec ` before `const`, replace `= expr;` by `ensures .. { expr }`
        txt_before = src[s0:ts].decode("utf-8")
        kpos = s0 + txt_before.rindex("const")
        ed.insert(kpos, "exec ")
        ed.replace(te, e0, "\n    ensures " + ens + "\n{ " + expr + " }")
        rw["R13"] = rw.get("R13", 0) + 1
    pieces = ed.render()
    if d.replaces:
        pieces = _apply_replaces(pieces, d, it, report)
    return pieces


def compose(unit_path, repo_root, twin=False, variant=None):
    """returns dict(text, srcmap (list per generated line), report)"""
    with open(unit_path) as f:
        ttext = f.read()
    if variant is not None:
        ttext = select_variant(ttext, variant)
    header, chunks = parse_template(ttext, unit_path)
    report = {"unit": os.path.basename(unit_path)[:-3], "items": [], "rewrites": {}, "lost_anchors": [], "props": header["props"],
              "fn_props": {}, "extracted_fns": [], "repo_lines": 0}
    pieces = []
    for ch in chunks:
        if ch[0] == "text":
            pieces.append((ch[1], ("unit", ch[2])))
            continue
        if ch[0] == "expand":
            _, relf, mpath, tmpl_line, tline = ch
            path = os.path.join(repo_root, relf)
            if not os.path.exists(path):
                raise SpliceError("source file missing: %s" % relf)
            doc = spans_of(path)
            it, parent = find_item(doc, mpath, 0)
            if it["kind"] != "macro":
                raise SpliceError("expand-consts: %s is not a macro invocation" % mpath)
            a0, a1 = it["args"]
            args = doc["bytes"][a0:a1].decode("utf-8")
            # strip comments, then read `NAME = VALUE,` pairs (R13)
            args_nc = re.sub(r"//[^\n]*", "", args)
            n = 0
            for m in re.finditer(r"([A-Za-z_][A-Za-z0-9_]*)\s*=\s*([^,]+),", args_nc):
                pieces.append((tmpl_line.replace("{name}", m.group(1)).replace("{val}", m.group(2).strip()) + "\n", ("repo", relf, a0)))
                n += 1
            if n == 0:
                raise SpliceError("expand-consts: no NAME = VALUE pairs in %s" % mpath)
            report["rewrites"]["R13"] = report["rewrites"].get("R13", 0) + n
            report["items"].append("%s :: %s (expanded, %d constants)" % (relf, mpath, n))
            continue
        d = ch[1]
        path = os.path.join(repo_root, d.file)
        if not os.path.exists(path):
            raise SpliceError("source file missing: %s" % d.file)
        doc = spans_of(path)
        it, parent = find_item(doc, d.path, d.ordinal)
        if it["kind"] == "fn":
            ps = render_fn(doc, it, parent, d, d.file, report, twin=twin)
            owner = None
            if parent is not None and parent["kind"] == "impl":
                owner = parent["self_ty"]
            elif parent is not None and parent["kind"] == "trait":
                owner = parent["name"]
            report["extracted_fns"].append({"path": it["path"], "file": d.file, "name": it["name"], "owner": owner,
                                            "has_body": it.get("body") is not None, "props": d.props or header["props"],
                                            "has_contract": bool(d.contract), "trait_impl": bool(parent and parent.get("trait"))})
        elif it["kind"] in ("struct", "enum", "const", "type", "static"):
            ps = render_data(doc, it, parent, d, d.file, report)
        else:
            raise SpliceError("cannot extract item kind %s (%s)" % (it["kind"], d.path))
        report["items"].append("%s :: %s" % (d.file, d.path))
        pieces.extend(ps)
        pieces.append(("\n", ("contract",)))
    # build text and source map
    out, srcmap = [], []
    line_starts_cache = {}

    def repo_line(relfile, off):
        if relfile not in line_starts_cache:
            b = spans_of(os.path.join(repo_root, relfile))["bytes"]
            starts = [0]
            for i, c in enumerate(b):
                if c == 10:
                    starts.append(i + 1)
            line_starts_cache[relfile] = starts
        import bisect
        return bisect.bisect_right(line_starts_cache[relfile], off)

    cur_line_origin = None
    for text, origin in pieces:
        segs = text.split("\n")
        for k, seg in enumerate(segs):
            if k > 0:
                out.append("\n")
                srcmap.append(cur_line_origin)
                cur_line_origin = None
            if seg:
                if origin[0] == "repo":
                    off = origin[2] + len("\n".join(segs[:k]).encode("utf-8")) + (1 if k > 0 else 0)
                    o = ("repo", origin[1], repo_line(origin[1], off))
                    cur_line_origin = o  # repo origin wins for a mixed line
                elif origin[0] == "unit":
                    if cur_line_origin is None:
                        cur_line_origin = ("unit", origin[1] + k)
                else:
                    if cur_line_origin is None:
                        cur_line_origin = ("contract",)
                out.append(seg)
    srcmap.append(cur_line_origin)
    text = "".join(out)
    report["repo_lines"] = sum(1 for o in srcmap if o and o[0] == "repo")
    return {"text": text, "srcmap": srcmap, "report": report}


if __name__ == "__main__":
    r = compose(sys.argv[1], sys.argv[2] if len(sys.argv) > 2 else "/repo", twin="--twin" in sys.argv)
    sys.stdout.write(r["text"])
    sys.stderr.write(json.dumps(r["report"], indent=1) + "\n")
