"""Runs one Verus unit (composed by splice.py from the current /repo text) and classifies the outcome."""
import json, os, re, subprocess, time
from . import splice

VERUS = "verus"
UNITS_DIR = os.path.join(os.path.dirname(os.path.dirname(os.path.abspath(__file__))), "contracts", "verus")

# messages that are *verification* failures (the verifier states a reason about the program)
VERIF_MSGS = (
    "postcondition not satisfied", "precondition not satisfied", "assertion failed", "invariant not satisfied",
    "possible arithmetic underflow/overflow", "possible division by zero", "decreases not satisfied",
    "loop invariant not preserved", "possible bit shift underflow/overflow", "recommendation not met",
    "could not prove termination", "unreachable", "cannot show invariant", "invariant not satisfied at end of loop body",
    "invariant not satisfied before loop", "loop ensures not satisfied", "requires not satisfied", "split",
)
UNDECIDED_MSGS = ("rlimit", "Resource limit", "timed out", "canceled")


def list_units():
    """unit names; a template with a `//! variants: a b` header yields `name@a`, `name@b`"""
    out = []
    for f in sorted(os.listdir(UNITS_DIR)):
        if not f.endswith(".rs"):
            continue
        variants = None
        with open(os.path.join(UNITS_DIR, f)) as fh:
            for ln in fh:
                if ln.startswith("//! variants:"):
                    variants = ln.split(":", 1)[1].split()
                if not ln.startswith("//!") and not ln.startswith("#!") and ln.strip():
                    break
        if variants:
            out += ["%s@%s" % (f[:-3], v) for v in variants]
        else:
            out.append(f[:-3])
    return out


def unit_path(unit):
    return os.path.join(UNITS_DIR, unit.split("@")[0] + ".rs")


def unit_variant(unit):
    return unit.split("@")[1] if "@" in unit else None


def unit_props(unit):
    """properties a unit serves (header props plus per-item props)"""
    props = set()
    with open(unit_path(unit)) as f:
        for ln in f:
            s = ln.strip()
            if s.startswith("//! props:"):
                props.update(s.split(":", 1)[1].split())
            elif s.startswith("//@ props"):
                props.update(s.split()[2:])
    return props


def parse_errors(stderr, gen_file, srcmap):
    """split rustc-style diagnostics; returns list of dict(level,msg,line,origin,text)"""
    blocks, cur = [], None
    for ln in stderr.split("\n"):
        m = re.match(r"^(error|warning|note)(\[[A-Z0-9]+\])?: (.*)$", ln)
        if m:
            cur = {"level": m.group(1), "code": m.group(2), "msg": m.group(3), "lines": [], "text": [ln]}
            blocks.append(cur)
        elif cur is not None:
            cur["text"].append(ln)
            m2 = re.match(r"^\s*(?:-->|:::)\s+(.*?):(\d+):(\d+)", ln)
            if m2 and os.path.basename(m2.group(1)) == os.path.basename(gen_file):
                cur["lines"].append(int(m2.group(2)))
    out = []
    for b in blocks:
        if b["level"] == "warning":
            continue
        if b["level"] == "note" and "not all errors may have been reported" in b["msg"]:
            continue
        origins = []
        for l in b["lines"]:
            o = srcmap[l - 1] if 0 < l <= len(srcmap) else None
            origins.append({"gen_line": l, "origin": o})
        out.append({"level": b["level"], "code": b["code"], "msg": b["msg"], "where": origins, "text": "\n".join(b["text"]).rstrip()})
    return out


def run_unit(unit, repo, workdir, twin=False, timeout=900, rlimit=None):
    t0 = time.time()
    res = {"unit": unit, "twin": twin, "status": "tool-error", "functions": {}, "errors": [], "detail": "", "report": None, "wall_s": 0.0,
           "cmd": ""}
    try:
        comp = splice.compose(unit_path(unit), repo, twin=twin, variant=unit_variant(unit))
    except splice.SpliceError as e:
        res["status"] = "splice-error"
        res["detail"] = str(e)
        res["wall_s"] = time.time() - t0
        return res
    res["report"] = comp["report"]
    crate = unit.replace("@", "_v_") + ("_twin" if twin else "")
    gen = os.path.join(workdir, crate + ".rs")
    with open(gen, "w") as f:
        f.write(comp["text"])
    cmd = [VERUS, gen, "--output-json", "--time", "--triggers-mode", "silent", "--multiple-errors", "4"]
    if rlimit:
        cmd += ["--rlimit", str(rlimit)]
    res["cmd"] = " ".join(cmd)
    try:
        p = subprocess.run(cmd, capture_output=True, text=True, timeout=timeout, cwd=workdir)
    except subprocess.TimeoutExpired:
        res["status"] = "timeout"
        res["wall_s"] = time.time() - t0
        return res
    res["wall_s"] = time.time() - t0
    res["stderr_tail"] = p.stderr[-6000:]
    try:
        j = json.loads(p.stdout)
    except Exception:
        res["detail"] = "no JSON from verus (exit %d): %s" % (p.returncode, p.stderr[-2000:])
        return res
    vr = j.get("verification-results", {})
    res["verified"], res["errors_n"] = vr.get("verified", 0), vr.get("errors", 0)
    errs = parse_errors(p.stderr, gen, comp["srcmap"])
    res["errors"] = errs
    smt = j.get("times-ms", {}).get("smt", {})
    funcs = {}
    for m in smt.get("smt-run-module-times", []):
        for fb in m.get("function-breakdown", []):
            name = fb["function"]
            if name.startswith(crate + "::"):
                name = name[len(crate) + 2:]
            funcs[name] = {"success": bool(fb["success"]), "time_us": fb.get("time-micros", 0), "rlimit": fb.get("rlimit", 0), "mode": fb.get("mode:", "")}
    res["functions"] = funcs
    res["smt_ms"] = smt.get("total", 0)
    # Front-end problems (rustc errors, unsupported constructs, VIR errors) stop Verus before any SMT query: then there is no
    # per-function breakdown and nothing about the program was decided.  Once the breakdown exists every `error:` block is a
    # verification failure of the function it points into.
    if vr.get("encountered-vir-error") or not funcs:
        res["status"] = "tool-error"
        res["detail"] = "; ".join(e["msg"] for e in errs if e["level"] == "error" and not e["msg"].startswith("aborting"))[:1500] or p.stderr[-1500:]
        return res
    res["undecided_msgs"] = [e["msg"] for e in errs if any(k in e["msg"] for k in UNDECIDED_MSGS)]
    res["status"] = "ok" if vr.get("success") else "failed"
    return res


def fn_key_candidates(x):
    """suffixes under which Verus may report an extracted function (module prefix varies per unit)"""
    c = []
    if x.get("owner"):
        o = re.sub(r"<.*>", "", x["owner"])
        o = o.replace("&", "").replace("'a", "").replace("'_", "").strip()
        o = o.split("::")[-1]
        c.append("%s::%s" % (o, x["name"]))
    else:
        c.append(x["name"])
    return c


def match_extracted(funcs, report):
    """map Verus function names -> extracted fn descriptor (or None for ghost / shim code)"""
    m = {}
    used = set()
    for x in report["extracted_fns"]:
        if not x["has_body"]:
            continue
        hit = None
        for cand in fn_key_candidates(x):
            for k in funcs:
                if k in used or k.startswith("shims::") or k.startswith("spec::"):
                    continue
                if k == cand or k.endswith("::" + cand):
                    hit = k
                    break
            if hit:
                break
        if hit is None:
            # generic / blanket impls are reported as code::impl&%N::name
            for k in funcs:
                if k not in used and k.split("::")[-1] == x["name"] and "impl&%" in k:
                    hit = k
                    break
        if hit:
            used.add(hit)
            m[hit] = x
    return m


_TRUST_PATTERNS = [
    (re.compile(r"#\[verifier::external_body\]\s*(?:pub\s+)?(?:broadcast\s+)?(?:proof\s+|const\s+|unsafe\s+)*fn\s+(\w+)"), "external_body fn %s"),
    (re.compile(r"#\[verifier::external_body\]\s*(?:#\[[^\]]*\]\s*)*(?:pub\s+)?struct\s+(\w+)"), "opaque type %s"),
    (re.compile(r"assume_specification\s*(?:<[^\[]*>)?\s*\[\s*([^\]]+?)\s*\]"), "assume_specification %s"),
    (re.compile(r"\b(assume|admit)\s*\("), "%s(..) in proof"),
    (re.compile(r"exec_allows_no_decreases_clause"), "exec_allows_no_decreases_clause%s"),
    (re.compile(r"uninterp\s+spec\s+fn\s+(\w+)"), "uninterpreted spec fn %s"),
]


def scan_trusted(unit):
    """mechanical scan of the unit template for everything that is assumed rather than proved"""
    with open(unit_path(unit)) as f:
        text = f.read()
    out = []
    for rx, fmt in _TRUST_PATTERNS:
        for m in rx.finditer(text):
            g = m.group(1) if m.groups() else ""
            out.append("%s: %s" % (unit, (fmt % g) if "%s" in fmt else fmt))
    for ln in text.split("\n"):
        if ln.startswith("//! cross-unit:") or ln.startswith("//! trusted:"):
            out.append("%s: %s" % (unit, ln[4:].strip()))
    return sorted(set(out))
